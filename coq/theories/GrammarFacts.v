(* GrammarFacts.v -- proofs about the generator grammar G (Grammar.v) against the statement skeleton of
   the parser (Skeleton.v / Upto.v, owned by C04) for property C02.

   Shape of the argument.  `_tokensupto2` cuts a token stream after a run `run ++ [e]` when the run is
   `closed` (the loop meets neither EOF nor an end token at depth 0 inside it) and `e` stops the loop
   (UptoFacts.upto_closed_run_lemma).  `closed` is a boolean function, so "the rendering of this statement is one
   complete run in the mode of its handler" is a decidable property of a derivation: `delimited sh lay`.
   * skeleton_faithful etc. are proved for ALL sh, lay with `delimited sh lay = true` by induction over the sheet;
   * `delimited` is evaluated by the harness on every generated derivation (it is extracted with the grammar);
   * for the fragment of G whose tokens carry no free strings in bracket position it is proved to hold
     outright (section "delimited holds").                                                                  *)
From CssV Require Import Base Tokenizer Upto UptoFacts Skeleton SkeletonFacts.
From CssV Require Import Grammar.
From CssV Require Selector.
Open Scope Z_scope.

(* ------------------------------------------------------------------ cutting one run *)
Definition cut_ok (md : mode) (c : counters) (j : list tok) : bool :=
  match separate_end j with
  | (run, Some e) => closed md c run && negb (is_eof e) && stops md (bump (after c run) e) e
  | (_, None) => false
  end.

Lemma separate_end_app (j : list tok) run e : separate_end j = (run, Some e) -> j = run ++ [e].
Proof.
  destruct j as [|x r]; intros H; [discriminate|].
  unfold separate_end in H. inversion H; subst.
  assert (last r x = last (x :: r) x) as -> by (destruct r; reflexivity).
  apply app_removelast_last. discriminate.
Qed.

Lemma cut_upto md c j rest : cut_ok md c j = true -> upto_loop md c (j ++ rest) = (j, rest).
Proof.
  unfold cut_ok. destruct (separate_end j) as [run [e|]] eqn:E; [|discriminate].
  intros H. apply andb_true_iff in H as [H H3]. apply andb_true_iff in H as [H1 H2].
  apply separate_end_app in E. subst j. rewrite <- app_assoc. cbn [app].
  apply upto_closed_run_lemma; [exact H1|right; exact H3].
Qed.

(* a statement `t :: r` whose handler (kind k) is started with token t *)
Definition stmt_ok (k : kind) (t : tok) (r : list tok) : bool :=
  cut_ok (kmd k) (start_count (0, 0, 0) t) r.

Lemma mode_of_kmd k t : mode_of (fst (kmode k)) (Some t) = kmd k.
Proof. unfold kmd. destruct k; reflexivity. Qed.

Lemma pull_ok k t r rest : stmt_ok k t r = true -> pull upto kmode k t (r ++ rest) = (t :: r, rest).
Proof.
  intros H. destruct (kmode_facts k) as (Hws & Hmq & Hc0).
  unfold pull. destruct (kmode k) as [fl ws] eqn:Ek. simpl in Hws; subst ws.
  unfold upto, upto_md. pose proof (mode_of_kmd k t) as Hm. rewrite Ek in Hm. simpl in Hm. rewrite Hm, Hc0.
  unfold stmt_ok in H. now rewrite (cut_upto _ _ _ rest H).
Qed.

Lemma disp_stmt_ok cls k t r rest :
  cls t = CStmt k -> stmt_ok k t r = true ->
  disp cls ((t :: r) ++ rest) 0 = IStmt k (t :: r) :: disp cls rest 0.
Proof.
  intros Hc Hj. unfold disp. cbn [app disp_gen]. rewrite Hc, (pull_ok _ _ _ _ Hj).
  f_equal. rewrite disp_skip. cbn [length]. rewrite Nat.sub_succ, Nat.sub_0_r, skipn_length_app. reflexivity.
Qed.

(* ------------------------------------------------------------------ statements of G *)
Definition kind_of (x : stmt) : kind :=
  match x with
  | SCharset _ => KCharset | SImport _ _ _ _ _ _ _ => KImport | SNamespace _ _ _ _ _ _ => KNamespace
  | SMedia _ _ _ _ _ _ => KMedia | SPage _ _ _ _ _ _ => KPage | SFontFace _ _ _ => KFontFace
  | SStyle _ _ => KRuleset | SUnknown _ _ _ _ => KUnknown | SComment _ => KRuleset
  end.

(* what the dispatch loop must produce for a statement: a comment item, or one statement of the right kind
   carrying exactly the tokens that were rendered for it *)
Definition stmt_item (lay : layout) (x : stmt) : item :=
  match x with
  | SComment text => IComment (T "COMMENT" text)
  | _ => IStmt (kind_of x) (r_stmt lay x)
  end.

Definition kind_eqb (a b : kind) : bool :=
  match a, b with
  | KCharset, KCharset | KImport, KImport | KNamespace, KNamespace | KVariables, KVariables
  | KFontFace, KFontFace | KMedia, KMedia | KPage, KPage | KUnknown, KUnknown | KRuleset, KRuleset
  | KDeclIdent, KDeclIdent | KDeclUnexpected, KDeclUnexpected | KDeclAt, KDeclAt => true
  | _, _ => false
  end.
Lemma kind_eqb_eq a b : kind_eqb a b = true -> a = b.
Proof. destruct a, b; simpl; intros H; try discriminate; reflexivity. Qed.

Definition cls_is (c : tclass) (k : kind) : bool := match c with CStmt k' => kind_eqb k' k | _ => false end.
Lemma cls_is_eq c k : cls_is c k = true -> c = CStmt k.
Proof. destruct c; simpl; intros H; try discriminate. apply kind_eqb_eq in H. now subst. Qed.

(* the decidable side condition for one statement under dispatch table cls *)
Definition stmt_delimited (cls : tok -> tclass) (lay : layout) (x : stmt) : bool :=
  match x with
  | SComment _ => true
  | _ => match r_stmt lay x with
         | t :: r => cls_is (cls t) (kind_of x) && stmt_ok (kind_of x) t r
         | [] => false
         end
  end.

(* whitespace between statements is skipped by both dispatch tables *)
Definition skips_S (cls : tok -> tclass) : Prop := forall v, cls (T "S" v) = CSkip.
Lemma cls_sheet_S : skips_S cls_sheet. Proof. intros v; reflexivity. Qed.
Lemma cls_media_S : skips_S cls_media. Proof. intros v; reflexivity. Qed.
Definition comments_kept (cls : tok -> tclass) : Prop := forall v, cls (T "COMMENT" v) = CComment.
Lemma cls_sheet_C : comments_kept cls_sheet. Proof. intros v; reflexivity. Qed.
Lemma cls_media_C : comments_kept cls_media. Proof. intros v; reflexivity. Qed.

Lemma disp_skip_tok cls t rest : cls t = CSkip -> disp cls (t :: rest) 0 = disp cls rest 0.
Proof. intros H. unfold disp. cbn [disp_gen]. now rewrite H. Qed.

Lemma disp_gws cls lay g rest : skips_S cls -> disp cls (gws lay g ++ rest) 0 = disp cls rest 0.
Proof.
  intros HS. unfold gws, gap_ws. destruct (Nat.modulo (lk lay g) 3) as [|[|n]]; cbn [app].
  - reflexivity.
  - apply disp_skip_tok, HS.
  - apply disp_skip_tok, HS.
Qed.

Lemma disp_one cls lay x rest :
  comments_kept cls -> stmt_delimited cls lay x = true ->
  disp cls (r_stmt lay x ++ rest) 0 = stmt_item lay x :: disp cls rest 0.
Proof.
  intros HC H.
  assert (forall t r, r_stmt lay x = t :: r -> cls_is (cls t) (kind_of x) && stmt_ok (kind_of x) t r = true ->
                      disp cls (r_stmt lay x ++ rest) 0 = IStmt (kind_of x) (r_stmt lay x) :: disp cls rest 0) as Hgen.
  { intros t r E Hb. apply andb_true_iff in Hb as [Hb1 Hb2]. apply cls_is_eq in Hb1. rewrite E.
    now apply disp_stmt_ok. }
  destruct x; unfold stmt_delimited in H; cbn [stmt_item];
    try (destruct (r_stmt lay _) as [|t r] eqn:E in H; [discriminate|]; eapply Hgen; [exact E|exact H]).
  (* SComment *)
  cbn [r_stmt app]. unfold disp. cbn [disp_gen]. now rewrite HC.
Qed.

(* ---- a list of statements with their trailing whitespace gaps, as rendered at top level and inside @media *)
Lemma disp_stmts cls lay (l : sheet) rest :
  skips_S cls -> comments_kept cls ->
  forallb (fun p => stmt_delimited cls lay (fst p)) l = true ->
  disp cls (r_stmts lay l ++ rest) 0 = map (fun p => stmt_item lay (fst p)) l ++ disp cls rest 0.
Proof.
  intros HS HC. induction l as [|[x g] l IH]; intros H; [reflexivity|].
  cbn [forallb fst] in H. apply andb_true_iff in H as [H1 H2].
  cbn [r_stmts map fst]. rewrite <- !app_assoc, (disp_one _ _ _ _ HC H1), (disp_gws _ _ _ _ HS), (IH H2).
  reflexivity.
Qed.

Definition sheet_items (sh : sheet) (lay : layout) : list item := map (fun p => stmt_item lay (fst p)) sh.
Definition delimited_top (sh : sheet) (lay : layout) : bool :=
  forallb (fun p => stmt_delimited cls_sheet lay (fst p)) sh.

Lemma skeleton_faithful_lemma sh lay :
  delimited_top sh lay = true -> skeleton (render sh lay ++ [eof_tok]) = sheet_items sh lay.
Proof.
  intros H. unfold skeleton, render, sheet_items.
  rewrite (disp_stmts cls_sheet lay sh [eof_tok] cls_sheet_S cls_sheet_C H).
  replace (disp cls_sheet [eof_tok] 0) with (@nil item) by reflexivity. now rewrite app_nil_r.
Qed.

Lemma skeleton_count_lemma sh lay :
  delimited_top sh lay = true -> length (skeleton (render sh lay ++ [eof_tok])) = length sh.
Proof. intros H. rewrite (skeleton_faithful_lemma _ _ H). unfold sheet_items. now rewrite map_length. Qed.

(* ================================================================== inside the statements *)
Definition mdBS := mode_of FBlockStart None.
Definition mdBE := mode_of FBlockEnd None.
Definition mdMQ := mode_of FMQEnd None.
Definition mdME := mode_of FMediaEnd None.
Definition mdLS := mode_of FListSep None.
Definition mdPN := mode_of FPropName None.
Definition mdPV := mode_of FPropValue None.
Definition mdPP := mode_of FPropPriority None.

Lemma separate_end_snoc (h : list tok) e : separate_end (h ++ [e]) = (h, Some e).
Proof.
  unfold separate_end. destruct (h ++ [e]) as [|x r] eqn:E; [destruct h; discriminate|].
  rewrite <- E. rewrite removelast_last. f_equal. f_equal.
  assert (last r x = last (x :: r) x) as -> by (destruct r; reflexivity).
  rewrite <- E. apply last_last.
Qed.

Lemma upto_none fl ts : upto fl None ts = upto_loop (mode_of fl None) (c0 (mode_of fl None)) ts.
Proof. reflexivity. Qed.

Lemma upto_loop_all md c run : closed md c run = true -> upto_loop md c run = (run, []).
Proof.
  intros H. pose proof (upto_closed_prefix md run c [] H) as P. rewrite app_nil_r in P. rewrite P.
  cbn [upto_loop]. now rewrite app_nil_r.
Qed.

Lemma disp_stmt_end cls k t r :
  cls t = CStmt k -> closed (kmd k) (start_count (0, 0, 0) t) r = true -> disp cls (t :: r) 0 = [IStmt k (t :: r)].
Proof.
  intros Hc H. destruct (kmode_facts k) as (Hws & Hmq & Hc0).
  unfold disp. cbn [disp_gen]. rewrite Hc. unfold pull. destruct (kmode k) as [fl ws] eqn:Ek. simpl in Hws; subst ws.
  unfold upto, upto_md. pose proof (mode_of_kmd k t) as Hm. rewrite Ek in Hm. simpl in Hm. rewrite Hm, Hc0.
  rewrite (upto_loop_all _ _ _ H). f_equal. rewrite disp_skip. cbn [length]. rewrite Nat.sub_succ, Nat.sub_0_r.
  rewrite skipn_all. reflexivity.
Qed.

(* ------------------------------------------------------------------ @media (cssmediarule.py) *)
Lemma media_body_eq lay (body : list (stmt * nat)) :
  (fix go (l : list (stmt * nat)) : list tok :=
     match l with [] => [] | (y, g) :: r => r_stmt lay y ++ gws lay g ++ go r end) body = r_stmts lay body.
Proof. induction body as [|[y g] r IH]; [reflexivity|]. cbn [r_stmts]. now rewrite IH. Qed.

Definition media_head (lay : layout) (g0 : nat) (media : mlist) (g1 : nat) : list tok :=
  greq lay g0 ++ r_mlist lay true media ++ gopt lay g1.
Definition media_rules (lay : layout) (g2 : nat) (body : list (stmt * nat)) : list tok :=
  gws lay g2 ++ r_stmts lay body.

Lemma r_media_shape lay gk g0 media g1 g2 body :
  r_stmt lay (SMedia gk g0 media g1 g2 body) =
  at_tok lay gk (s "@media") :: (media_head lay g0 media g1 ++ [ch "{"]) ++ (media_rules lay g2 body ++ [ch "}"]).
Proof.
  cbn [r_stmt]. rewrite media_body_eq. unfold media_head, media_rules. f_equal.
  repeat (rewrite <- app_assoc; cbn [app]). reflexivity.
Qed.

Definition media_ok (lay : layout) (g0 : nat) (media : mlist) (g1 g2 : nat) (body : list (stmt * nat)) : bool :=
  cut_ok mdMQ (c0 mdMQ) (media_head lay g0 media g1 ++ [ch "{"]) &&
  cut_ok mdME (c0 mdME) (media_rules lay g2 body ++ [ch "}"]) &&
  forallb (fun p => stmt_delimited cls_media lay (fst p)) body.

(* the @media handler, given the tokens behind the MEDIA_SYM token: the media query run up to '{', the rule run up
   to the matching '}', nothing trailing, and the inner dispatch sees one item per inner statement, in order *)
Lemma media_faithful_lemma lay gk g0 media g1 g2 body :
  media_ok lay g0 media g1 g2 body = true ->
  media_split (tl (r_stmt lay (SMedia gk g0 media g1 g2 body))) =
  mkMP (media_head lay g0 media g1 ++ [ch "{"]) [] (media_rules lay g2 body ++ [ch "}"]) None
       (Some (map (fun p => stmt_item lay (fst p)) body)).
Proof.
  intros H. unfold media_ok in H. apply andb_true_iff in H as [H H3]. apply andb_true_iff in H as [H1 H2].
  rewrite r_media_shape. cbn [tl]. unfold media_split.
  rewrite upto_none. fold mdMQ. rewrite (cut_upto _ _ _ _ H1).
  rewrite separate_end_snoc. cbn [snd]. cbv beta iota.
  replace (tyis (ch "{") "STRING") with false by reflexivity. cbv iota.
  replace (eqs (val (ch "{")) (s "{")) with true by reflexivity. cbn [negb]. cbv iota.
  rewrite upto_none. fold mdME.
  rewrite <- (app_nil_r (media_rules lay g2 body ++ [ch "}"])) at 1. rewrite (cut_upto _ _ _ _ H2).
  cbn [hd_error]. rewrite separate_end_snoc.
  replace (is_eof (ch "}")) with false by reflexivity.
  replace (eqs (val (ch "}")) (s "}")) with true by reflexivity. cbn [orb andb].
  f_equal. f_equal. unfold media_inner, media_rules.
  rewrite <- (app_nil_r (gws lay g2 ++ r_stmts lay body)), <- app_assoc, (disp_gws _ _ _ _ cls_media_S).
  rewrite (disp_stmts cls_media lay body [] cls_media_S cls_media_C H3). now rewrite app_nil_r.
Qed.

(* ------------------------------------------------------------------ declaration blocks (cssstyledeclaration.py) *)
Definition gap_items (g : list tok) : list item :=
  flat_map (fun t => if tyis t "COMMENT" then [IComment t] else []) g.

Lemma disp_gopt lay g rest : disp cls_decl (gopt lay g ++ rest) 0 = gap_items (gopt lay g) ++ disp cls_decl rest 0.
Proof.
  unfold gopt, gap_opt. destruct (Nat.modulo (lk lay g) 7) as [|[|[|[|[|[|n]]]]]]; reflexivity.
Qed.

Definition has_semi (lay : layout) (semi : bool) (glast : nat) (r : list (decl * nat * nat)) : bool :=
  match r with [] => semi || Nat.odd (lk lay glast) | _ => true end.

(* one item per declaration: the run from the property name up to and including its ';' (or up to the end of the
   block for a last declaration without ';'); comments between declarations are items of their own, in place *)
Fixpoint decls_items (lay : layout) (semi : bool) (glast : nat) (l : list (decl * nat * nat)) : list item :=
  match l with
  | [] => []
  | (d, ga, gb) :: r =>
      if has_semi lay semi glast r
      then IStmt KDeclIdent (r_decl lay d ++ gopt lay ga ++ [ch ";"]) :: gap_items (gopt lay gb) ++ decls_items lay semi glast r
      else IStmt KDeclIdent (r_decl lay d ++ gopt lay ga) :: decls_items lay semi glast r
  end.
Definition block_items (lay : layout) (semi : bool) (b : dblock) : list item :=
  gap_items (gopt lay (b_g0 b)) ++ decls_items lay semi (b_last b) (b_decls b).

Definition decl_run_ok (lay : layout) (d : decl) (ga : nat) (semi : bool) : bool :=
  match r_decl lay d ++ gopt lay ga ++ (if semi then [ch ";"] else []) with
  | t :: r => if semi then stmt_ok KDeclIdent t r else closed (kmd KDeclIdent) (start_count (0, 0, 0) t) r
  | [] => false
  end.
Fixpoint decls_ok (lay : layout) (semi : bool) (glast : nat) (l : list (decl * nat * nat)) : bool :=
  match l with
  | [] => true
  | (d, ga, gb) :: r => decl_run_ok lay d ga (has_semi lay semi glast r) && decls_ok lay semi glast r
  end.

Lemma r_decl_head lay d : exists r, r_decl lay d = T "IDENT" (d_name d) :: r.
Proof. unfold r_decl. eexists. reflexivity. Qed.

Lemma cls_decl_ident v : cls_decl (T "IDENT" v) = CStmt KDeclIdent.
Proof. reflexivity. Qed.

Lemma r_decls_shape lay semi glast d ga gb r :
  r_decls lay semi glast ((d, ga, gb) :: r) =
  if has_semi lay semi glast r
  then (r_decl lay d ++ gopt lay ga ++ [ch ";"]) ++ gopt lay gb ++ r_decls lay semi glast r
  else (r_decl lay d ++ gopt lay ga) ++ r_decls lay semi glast r.
Proof.
  cbn [r_decls]. unfold has_semi. destruct r as [|p r'].
  - destruct (semi || Nat.odd (lk lay glast)); repeat (rewrite <- app_assoc; cbn [app]); reflexivity.
  - repeat (rewrite <- app_assoc; cbn [app]). reflexivity.
Qed.

Lemma disp_decls lay semi glast l :
  decls_ok lay semi glast l = true -> disp cls_decl (r_decls lay semi glast l) 0 = decls_items lay semi glast l.
Proof.
  induction l as [|[[d ga] gb] r IH]; intros H; [reflexivity|].
  cbn [decls_ok] in H. apply andb_true_iff in H as [H1 H2].
  rewrite r_decls_shape. cbn [decls_items].
  destruct (r_decl_head lay d) as [rd Hd]. unfold decl_run_ok in H1.
  destruct (has_semi lay semi glast r) eqn:Es.
  - rewrite Hd in *. cbn [app] in H1.
    change ((T "IDENT" (d_name d) :: rd) ++ gopt lay ga ++ [ch ";"])
      with (T "IDENT" (d_name d) :: (rd ++ gopt lay ga ++ [ch ";"])).
    rewrite (disp_stmt_ok cls_decl KDeclIdent _ _ _ (cls_decl_ident _) H1), disp_gopt, (IH H2). reflexivity.
  - assert (r = []) as -> by (destruct r; [reflexivity|discriminate]).
    rewrite Hd in *. cbn [app] in H1. rewrite app_nil_r in H1. cbn [r_decls decls_items]. rewrite app_nil_r.
    change ((T "IDENT" (d_name d) :: rd) ++ gopt lay ga) with (T "IDENT" (d_name d) :: (rd ++ gopt lay ga)).
    rewrite (disp_stmt_end cls_decl KDeclIdent _ _ (cls_decl_ident _) H1). reflexivity.
Qed.

Definition block_ok (lay : layout) (semi : bool) (b : dblock) : bool := decls_ok lay semi (b_last b) (b_decls b).

Lemma decl_block_faithful_lemma lay semi b :
  block_ok lay semi b = true -> decl_block (r_block_body lay semi b) = block_items lay semi b.
Proof.
  intros H. unfold decl_block, r_block_body, block_items. rewrite disp_gopt. now rewrite (disp_decls _ _ _ _ H).
Qed.

(* ------------------------------------------------------------------ rule sets (cssstylerule.py) *)
Definition style_ok (lay : layout) (sels : list Selector.selector) (b : dblock) : bool :=
  cut_ok mdBS (c0 mdBS) (r_sels sels ++ [ch "{"]) &&
  cut_ok mdBE (c0 mdBE) (r_block_body lay false b ++ [ch "}"]) &&
  match r_sels sels with t0 :: _ => negb (starts (s "@") (val t0)) | [] => false end &&
  block_ok lay false b.

Lemma r_style_shape lay sels b :
  r_stmt lay (SStyle sels b) = (r_sels sels ++ [ch "{"]) ++ (r_block_body lay false b ++ [ch "}"]).
Proof. cbn [r_stmt]. unfold r_block. rewrite <- !app_assoc. reflexivity. Qed.

(* the rule set is split at the first top-level '{' into the selector tokens and the declaration tokens up to the
   matching '}', nothing trails, and the declaration parser sees one item per declaration *)
Lemma ruleset_faithful_lemma lay sels b :
  style_ok lay sels b = true ->
  ruleset_split (r_stmt lay (SStyle sels b)) =
  mkRS (r_sels sels ++ [ch "{"]) (r_block_body lay false b ++ [ch "}"]) None (Some (block_items lay false b)).
Proof.
  intros H. unfold style_ok in H. apply andb_true_iff in H as [H H4]. apply andb_true_iff in H as [H H3].
  apply andb_true_iff in H as [H1 H2].
  rewrite r_style_shape. unfold ruleset_split.
  rewrite upto_none. fold mdBS. rewrite (cut_upto _ _ _ _ H1).
  rewrite upto_none. fold mdBE.
  rewrite <- (app_nil_r (r_block_body lay false b ++ [ch "}"])) at 1. rewrite (cut_upto _ _ _ _ H2).
  cbn [hd_error]. rewrite separate_end_snoc.
  replace (is_eof (ch "}")) with false by reflexivity.
  replace (eqs (val (ch "}")) (s "}")) with true by reflexivity.
  rewrite (decl_block_faithful_lemma _ _ _ H4).
  destruct (r_sels sels) as [|t0 r0] eqn:E; [discriminate|]. cbn [app]. now rewrite H3.
Qed.

(* ------------------------------------------------------------------ selector groups (selectorlist.py:191-207) *)
Fixpoint sel_split (fuel : nat) (ts : list tok) : list (list tok) :=
  match fuel with
  | O => []
  | S f =>
    match upto FListSep None ts with
    | ([], _) => []
    | (run, rest) =>
        match separate_end run with
        | (b, Some e) => if eqs (val e) (s ",") then b else run
        | (_, None) => run
        end :: sel_split f rest
    end
  end.

Definition last_is_comma (l : list tok) : bool :=
  match separate_end l with (_, Some e) => eqs (val e) (s ",") | _ => false end.
Definition sel_ok (x : Selector.selector) : bool :=
  closed mdLS (c0 mdLS) (r_selector x) && negb (last_is_comma (r_selector x)) &&
  match r_selector x with [] => false | _ => true end &&
  cut_ok mdLS (c0 mdLS) (r_selector x ++ [ch ","]).

Lemma r_sels_cons x y r : r_sels (x :: y :: r) = (r_selector x ++ [ch ","]) ++ r_sels (y :: r).
Proof. cbn [r_sels]. rewrite <- app_assoc. reflexivity. Qed.

(* the selector tokens are split at the top-level commas into exactly the selectors that were written *)
Lemma sel_split_lemma (sels : list Selector.selector) :
  sels <> [] -> forallb sel_ok sels = true ->
  forall fuel, (length sels < fuel)%nat -> sel_split fuel (r_sels sels) = map r_selector sels.
Proof.
  induction sels as [|x r IH]; intros Hne H fuel Hf; [congruence|].
  cbn [forallb] in H. apply andb_true_iff in H as [Hx Hr].
  unfold sel_ok in Hx. apply andb_true_iff in Hx as [Hx H4]. apply andb_true_iff in Hx as [Hx H3].
  apply andb_true_iff in Hx as [H1 H2]. apply negb_true_iff in H2.
  destruct fuel as [|f]; [cbn [length] in Hf; lia|].
  destruct r as [|y r'].
  - cbn [r_sels map sel_split]. rewrite upto_none. fold mdLS. rewrite (upto_loop_all _ _ _ H1).
    destruct (r_selector x) as [|t0 r0] eqn:E; [discriminate|].
    unfold last_is_comma in H2.
    destruct (separate_end (t0 :: r0)) as [b0 [e|]] eqn:Es.
    + rewrite H2. destruct f; reflexivity.
    + destruct f; reflexivity.
  - rewrite r_sels_cons. cbn [map sel_split].
    rewrite upto_none. fold mdLS. rewrite (cut_upto _ _ _ _ H4).
    destruct (r_selector x ++ [ch ","]) as [|t0 r0] eqn:E; [destruct (r_selector x); discriminate|].
    rewrite <- E, separate_end_snoc. replace (eqs (val (ch ",")) (s ",")) with true by reflexivity.
    f_equal. apply IH; [discriminate|exact Hr|cbn [length] in *; lia].
Qed.

(* ------------------------------------------------------------------ one declaration (property.py:128-165) *)
Definition prop_split (ts : list tok) : option (list tok * list tok * list tok) :=
  let '(name, r1) := upto FPropName None ts in
  let '(value, r2) := upto FPropValue None r1 in
  let '(prio, _) := upto FPropPriority None r2 in
  match separate_end name with
  | (n, Some colon) =>
      if negb (eqs (val colon) (s ":")) then None
      else match n with
           | [] => None
           | _ => match separate_end value with
                  | (v, Some bang) => if eqs (val bang) (s "!") then Some (n, v, bang :: prio) else Some (n, value, prio)
                  | (_, None) => None
                  end
           end
  | (_, None) => None
  end.

Definition decl_name (lay : layout) (d : decl) : list tok := T "IDENT" (d_name d) :: gopt lay (d_g1 d).
Definition decl_value (lay : layout) (d : decl) (tail : list tok) : list tok :=
  gopt lay (d_g2 d) ++ r_value lay d ++ match d_imp d with Some _ => gopt lay (d_g3 d) | None => tail end.
Definition decl_prio (lay : layout) (d : decl) (tail : list tok) : list tok :=
  match d_imp d with
  | Some (ga, gb) => ch "!" :: gopt lay ga ++ T "IDENT" (cased lay gb (s "important")) :: tail
  | None => []
  end.

Definition last_is_bang (l : list tok) : bool :=
  match separate_end l with (_, Some e) => eqs (val e) (s "!") | _ => false end.
Definition decl_split_ok (lay : layout) (d : decl) (tail : list tok) : bool :=
  cut_ok mdPN (c0 mdPN) (decl_name lay d ++ [ch ":"]) &&
  match d_imp d with
  | Some (ga, gb) =>
      cut_ok mdPV (c0 mdPV) (decl_value lay d tail ++ [ch "!"]) &&
      closed mdPP (c0 mdPP) (gopt lay ga ++ T "IDENT" (cased lay gb (s "important")) :: tail)
  | None =>
      closed mdPV (c0 mdPV) (decl_value lay d tail) && negb (last_is_bang (decl_value lay d tail))
      && match decl_value lay d tail with [] => false | _ => true end
  end.

Lemma r_decl_shape lay d tail :
  r_decl lay d ++ tail =
  (decl_name lay d ++ [ch ":"]) ++
  match d_imp d with
  | Some (ga, gb) => (decl_value lay d tail ++ [ch "!"]) ++ gopt lay ga ++ T "IDENT" (cased lay gb (s "important")) :: tail
  | None => decl_value lay d tail
  end.
Proof.
  unfold r_decl, decl_name, decl_value, r_prio. destruct (d_imp d) as [[ga gb]|];
    repeat (rewrite <- app_assoc; cbn [app]); reflexivity.
Qed.

(* Property._setCssText splits a declaration into exactly the name tokens, the value run and the priority tokens
   that were rendered (the ':' dropped, the '!' moved to the priority) *)
Lemma prop_split_lemma lay d tail :
  decl_split_ok lay d tail = true ->
  prop_split (r_decl lay d ++ tail) = Some (decl_name lay d, decl_value lay d tail, decl_prio lay d tail).
Proof.
  intros H. unfold decl_split_ok in H. apply andb_true_iff in H as [H1 H].
  rewrite r_decl_shape. unfold prop_split. rewrite upto_none. fold mdPN. rewrite (cut_upto _ _ _ _ H1).
  rewrite separate_end_snoc. replace (eqs (val (ch ":")) (s ":")) with true by reflexivity. cbn [negb].
  unfold decl_prio. destruct (d_imp d) as [[ga gb]|] eqn:Ei.
  - apply andb_true_iff in H as [H2 H3].
    rewrite upto_none. fold mdPV. rewrite (cut_upto _ _ _ _ H2).
    rewrite upto_none. fold mdPP. rewrite (upto_loop_all _ _ _ H3).
    rewrite separate_end_snoc. replace (eqs (val (ch "!")) (s "!")) with true by reflexivity.
    unfold decl_name. reflexivity.
  - apply andb_true_iff in H as [H H4]. apply andb_true_iff in H as [H2 H3]. apply negb_true_iff in H3.
    rewrite upto_none. fold mdPV. rewrite (upto_loop_all _ _ _ H2).
    rewrite upto_none. cbn [upto_loop].
    unfold last_is_bang in H3. unfold decl_name.
    destruct (separate_end (decl_value lay d tail)) as [v [e|]] eqn:Es.
    + now rewrite H3.
    + destruct (decl_value lay d tail); [discriminate|discriminate].
Qed.

(* ================================================================== parseComments = False *)
(* With parseComments=False the tokenizer drops the COMMENT tokens (Tokenizer.loop, dc = false).  The skeleton of the
   comment-free token list is the skeleton of the full list with the comment items removed and the comment tokens
   filtered out of every statement run -- and nothing else changes.  For ALL token lists whose COMMENT tokens
   are comments (their value starts with the comment opener), no grammar involved.                           *)
Definition nc (t : tok) : bool := negb (tyis t "COMMENT").
Definition remove_comments (l : list item) : list item :=
  flat_map (fun i => match i with IComment _ => [] | IStmt k run => [IStmt k (filter nc run)] end) l.
Definition inert_comments (ts : list tok) : Prop :=
  forall t, In t ts -> tyis t "COMMENT" = true -> starts (s "/*") (val t) = true.

Lemma starts_shape v : starts (s "/*") v = true -> exists r, v = 47%N :: 42%N :: r.
Proof. intros H. apply starts_spec in H as [r ->]. exists r. reflexivity. Qed.

Lemma comment_neutral k c t :
  tyis t "COMMENT" = true -> starts (s "/*") (val t) = true ->
  is_eof t = false /\ bump c t = c /\ stops (kmd k) c t = false.
Proof.
  intros Hty Hv. destruct (starts_shape _ Hv) as [r Hr]. unfold tyis in Hty. apply eqs_true in Hty.
  destruct t as [y rw v l cl]. cbn [ty val] in *. subst y v. destruct c as [[br bk] pa].
  split; [reflexivity|split].
  - unfold bump, is_function. cbn [val ty]. reflexivity.
  - unfold stops, isendtok. cbn [val ty].
    destruct k; cbn; rewrite ?andb_false_r; reflexivity.
Qed.

Lemma inert_tail t r : inert_comments (t :: r) -> inert_comments r.
Proof. intros H x Hx. apply H. now right. Qed.

Lemma filter_nc_drop t l : tyis t "COMMENT" = true -> filter nc (t :: l) = filter nc l.
Proof. intros H. cbn [filter]. unfold nc at 1. now rewrite H. Qed.
Lemma filter_nc_keep t l : tyis t "COMMENT" = false -> filter nc (t :: l) = t :: filter nc l.
Proof. intros H. cbn [filter]. unfold nc at 1. now rewrite H. Qed.

Lemma upto_filter k ts : forall c,
  inert_comments ts ->
  upto_loop (kmd k) c (filter nc ts) =
  (let '(run, rest) := upto_loop (kmd k) c ts in (filter nc run, filter nc rest)).
Proof.
  induction ts as [|t r IH]; intros c Hi; [reflexivity|].
  destruct (tyis t "COMMENT") eqn:Ety.
  - rewrite (filter_nc_drop _ _ Ety).
    destruct (comment_neutral k c t Ety (Hi t (or_introl eq_refl) Ety)) as (He & Hb & Hs).
    cbn [upto_loop]. rewrite He, Hb, Hs. rewrite (IH c (inert_tail _ _ Hi)).
    destruct (upto_loop (kmd k) c r) as [run rest]. now rewrite (filter_nc_drop _ _ Ety).
  - rewrite (filter_nc_keep _ _ Ety). cbn [upto_loop]. destruct (is_eof t) eqn:Ee.
    + now rewrite (filter_nc_keep _ _ Ety).
    + destruct (stops (kmd k) (bump c t) t) eqn:Es.
      * now rewrite (filter_nc_keep _ _ Ety).
      * rewrite (IH _ (inert_tail _ _ Hi)). destruct (upto_loop (kmd k) (bump c t) r) as [run rest].
        now rewrite (filter_nc_keep _ _ Ety).
Qed.

Lemma disp_unfold cls t r k :
  cls t = CStmt k ->
  disp cls (t :: r) 0 =
  (let '(run, rest) := upto_loop (kmd k) (start_count (0, 0, 0) t) r in IStmt k (t :: run) :: disp cls rest 0).
Proof.
  intros Hc. destruct (kmode_facts k) as (Hws & Hmq & Hc0).
  unfold disp. cbn [disp_gen]. rewrite Hc. unfold pull. destruct (kmode k) as [fl ws] eqn:Ek. simpl in Hws; subst ws.
  unfold upto, upto_md. pose proof (mode_of_kmd k t) as Hm. rewrite Ek in Hm. simpl in Hm. rewrite Hm, Hc0.
  destruct (upto_loop (kmd k) (start_count (0, 0, 0) t) r) as [run rest] eqn:E.
  f_equal. rewrite disp_skip. cbn [length]. rewrite Nat.sub_succ, Nat.sub_0_r.
  destruct (upto_loop_partition _ _ _ _ _ E) as [Hp _]. rewrite <- Hp, skipn_length_app. reflexivity.
Qed.

Lemma cls_sheet_comment t : tyis t "COMMENT" = true -> cls_sheet t = CComment.
Proof.
  unfold tyis. intros H. apply eqs_true in H. destruct t as [y rw v l cl]. cbn [ty] in H. subst y. reflexivity.
Qed.
Lemma cls_sheet_noncomment t : tyis t "COMMENT" = false -> cls_sheet t <> CComment.
Proof.
  intros H. unfold cls_sheet. destruct (tyis t "S" || tyis t "CDO" || tyis t "CDC" || tyis t "EOF"); [discriminate|].
  rewrite H. destruct (at_kind t); discriminate.
Qed.

Lemma parsecomments_off_gen n : forall ts,
  (length ts <= n)%nat -> inert_comments ts ->
  disp cls_sheet (filter nc ts) 0 = remove_comments (disp cls_sheet ts 0).
Proof.
  induction n as [|n IH]; intros ts Hl Hi.
  - destruct ts; [reflexivity|simpl in Hl; lia].
  - destruct ts as [|t r]; [reflexivity|]. cbn [length] in Hl.
    destruct (tyis t "COMMENT") eqn:Ety.
    + rewrite (filter_nc_drop _ _ Ety).
      unfold disp at 2. cbn [disp_gen]. rewrite (cls_sheet_comment _ Ety). cbn [remove_comments flat_map app].
      apply IH; [lia|eapply inert_tail; eauto].
    + rewrite (filter_nc_keep _ _ Ety). destruct (cls_sheet t) as [| |k] eqn:Ec.
      * rewrite !disp_skip_tok by exact Ec. apply IH; [lia|eapply inert_tail; eauto].
      * exfalso. now apply (cls_sheet_noncomment _ Ety).
      * rewrite (disp_unfold _ _ _ _ Ec), (disp_unfold _ _ _ _ Ec), (upto_filter k r _ (inert_tail _ _ Hi)).
        destruct (upto_loop (kmd k) (start_count (0, 0, 0) t) r) as [run rest] eqn:E.
        destruct (upto_loop_partition _ _ _ _ _ E) as [Hp _].
        cbn [remove_comments flat_map app]. rewrite (filter_nc_keep _ _ Ety). f_equal.
        apply IH.
        -- assert (length r = length run + length rest)%nat by (rewrite <- Hp, app_length; reflexivity). lia.
        -- intros x Hx. apply Hi. right. rewrite <- Hp. apply in_or_app. now right.
Qed.

Lemma parsecomments_off_lemma ts :
  inert_comments ts -> skeleton (filter nc ts) = remove_comments (skeleton ts).
Proof. intros H. unfold skeleton. now apply (parsecomments_off_gen (length ts)). Qed.

(* ================================================================== the order machine (cssstylesheet.py:162-291)
   `expected` in 0..3 (None = 0): every handler returns the new value; @charset / @import / @namespace are refused
   (logged, not inserted) when `expected` has passed their slot.                                                  *)
Close Scope Z_scope.
Inductive okind := OS | OComment | OUnknown | OCharset | OImport | ONamespace | OBody.
Definition ostep (e : nat) (k : okind) : nat * bool :=          (* (new expected, rule kept) *)
  match k with
  | OS | OComment | OUnknown => (Nat.max 1 e, true)                 (* l.165, 171, 281 *)
  | OCharset => if Nat.ltb 0 e then (e, false) else (1, true)       (* l.180-186 *)
  | OImport => if Nat.ltb 1 e then (e, false) else (1, true)        (* l.195-200 *)
  | ONamespace => if Nat.ltb 2 e then (e, false) else (2, true)     (* l.209-223 *)
  | OBody => (3, true)                                              (* l.246, 254, 262, 289 *)
  end.
Fixpoint orun (e : nat) (evs : list okind) : list bool :=
  match evs with
  | [] => []
  | k :: r => let '(e', b) := ostep e k in b :: orun e' r
  end.
Definition okind_of (x : stmt) : okind :=
  match x with
  | SCharset _ => OCharset | SImport _ _ _ _ _ _ _ => OImport | SNamespace _ _ _ _ _ _ => ONamespace
  | SComment _ => OComment | SUnknown _ _ _ _ => OUnknown | _ => OBody
  end.
(* the handler calls the top-level loop makes for a rendered sheet: one per statement, one S call per whitespace gap *)
Definition events (sh : sheet) (lay : layout) : list okind :=
  flat_map (fun p => okind_of (fst p) :: match gws lay (snd p) with [] => [] | _ => [OS] end) sh.

Lemma orun_app e a b : orun e (a ++ b) = orun e a ++ orun (fold_left (fun e k => fst (ostep e k)) a e) b.
Proof.
  revert e. induction a as [|k a IH]; intros e; [reflexivity|].
  cbn [app orun fold_left]. destruct (ostep e k) as [e' bk] eqn:E. cbn [fst]. now rewrite IH.
Qed.

Lemma order_from_accepts lay : forall l e cur,
  Nat.max 1 e = cur -> (1 <= e)%nat -> ordered_from cur l = true ->
  forallb (fun b => b) (orun e (events l lay)) = true.
Proof.
  induction l as [|[x g] l IH]; intros e cur Hm He H; [reflexivity|].
  cbn [ordered_from] in H. unfold events. cbn [flat_map fst snd]. fold (events l lay).
  assert (forall e', (1 <= e')%nat -> Nat.max 1 e' = e') as Hmax by (intros; lia).
  assert (forall (e' : nat) (tail : list okind), (1 <= e')%nat ->
            forallb (fun b => b) (orun e' (events l lay)) = true ->
            forallb (fun b => b) (orun e' (match gws lay g with [] => [] | _ => [OS] end ++ events l lay)) = true) as Hgap.
  { intros e' _ He' Hr. destruct (gws lay g); [exact Hr|]. cbn [app orun ostep]. rewrite (Hmax _ He'). exact Hr. }
  destruct x; cbn [rank okind_of] in *; cbn [app orun ostep];
    try discriminate;
    try (apply andb_true_iff in H as [Hle H]; apply Nat.leb_le in Hle).
  - (* import *) assert (e = 1)%nat as -> by lia. replace (1 <? 1) with false by reflexivity. cbn [forallb andb].
    apply (Hgap 1%nat [] (le_n _)). eapply (IH 1%nat 1%nat); eauto.
  - (* namespace *)
    assert (Nat.ltb 2 e = false) as -> by (apply Nat.ltb_ge; lia). cbn [forallb andb].
    apply (Hgap 2%nat []); [lia|]. eapply (IH 2%nat 2%nat); eauto.
  - (* media *) cbn [forallb andb]. apply (Hgap 3%nat []); [lia|]. eapply (IH 3%nat 3%nat); eauto.
  - (* page *) cbn [forallb andb]. apply (Hgap 3%nat []); [lia|]. eapply (IH 3%nat 3%nat); eauto.
  - (* font-face *) cbn [forallb andb]. apply (Hgap 3%nat []); [lia|]. eapply (IH 3%nat 3%nat); eauto.
  - (* style *) cbn [forallb andb]. apply (Hgap 3%nat []); [lia|]. eapply (IH 3%nat 3%nat); eauto.
  - (* unknown *) cbn [forallb andb]. rewrite (Hmax _ He). apply (Hgap e []); [lia|].
    eapply (IH e (Nat.max cur 1)); eauto; lia.
  - (* comment *) cbn [forallb andb]. rewrite (Hmax _ He). apply (Hgap e []); [lia|].
    eapply (IH e (Nat.max cur 1)); eauto; lia.
Qed.

(* every rule of a well-ordered sheet is kept by the expected-state machine, whatever the layout *)
Lemma order_machine_accepts_lemma sh lay :
  WellOrdered sh -> forallb (fun b => b) (orun 0 (events sh lay)) = true.
Proof.
  unfold WellOrdered, well_ordered. intros H.
  destruct sh as [|[x g] l]; [reflexivity|].
  assert (forall e' : nat, (1 <= e')%nat -> Nat.max 1 e' = e') as Hmax by (intros; lia).
  assert (forall (e' : nat), (1 <= e')%nat ->
            forallb (fun b => b) (orun e' (events l lay)) = true ->
            forallb (fun b => b) (orun e' (match gws lay g with [] => [] | _ => [OS] end ++ events l lay)) = true) as Hgap.
  { intros e' He' Hr. destruct (gws lay g); [exact Hr|]. cbn [app orun ostep]. rewrite (Hmax _ He'). exact Hr. }
  destruct x; unfold events; cbn [flat_map fst snd]; fold (events l lay); cbn [app orun ostep okind_of];
    cbn [ordered_from rank] in H; try discriminate;
    try (apply andb_true_iff in H as [Hle H]; apply Nat.leb_le in Hle).
  - (* charset first *) cbn [Nat.ltb Nat.leb forallb andb]. apply (Hgap 1%nat (le_n _)).
    eapply (order_from_accepts lay l 1%nat 1%nat); eauto.
  - cbn [Nat.ltb Nat.leb forallb andb]. apply (Hgap 1%nat (le_n _)). eapply (order_from_accepts lay l 1%nat 1%nat); eauto.
  - cbn [Nat.ltb Nat.leb forallb andb]. apply (Hgap 2%nat); [lia|]. eapply (order_from_accepts lay l 2%nat 2%nat); eauto.
  - cbn [forallb andb]. apply (Hgap 3%nat); [lia|]. eapply (order_from_accepts lay l 3%nat 3%nat); eauto.
  - cbn [forallb andb]. apply (Hgap 3%nat); [lia|]. eapply (order_from_accepts lay l 3%nat 3%nat); eauto.
  - cbn [forallb andb]. apply (Hgap 3%nat); [lia|]. eapply (order_from_accepts lay l 3%nat 3%nat); eauto.
  - cbn [forallb andb]. apply (Hgap 3%nat); [lia|]. eapply (order_from_accepts lay l 3%nat 3%nat); eauto.
  - cbn [Nat.max forallb andb]. apply (Hgap 1%nat (le_n _)). eapply (order_from_accepts lay l 1%nat 1%nat); eauto.
  - cbn [Nat.max forallb andb]. apply (Hgap 1%nat (le_n _)). eapply (order_from_accepts lay l 1%nat 1%nat); eauto.
Qed.

(* ================================================================== the modelled layers composed (parse_faithful_partial)
   What the modelled part of the parser hands to the unmodelled handlers for one rule set:
   the token list of every selector of the group, and for every declaration its name tokens, value run and
   priority tokens; comments between declarations stay in place.                                          *)
Inductive ldecl :=
| LDecl (parts : option (list tok * list tok * list tok))
| LDeclComment (t : tok)
| LDeclOther (k : kind).

Definition drop_semi (run : list tok) : list tok :=                  (* cssstyledeclaration.py:312-313 *)
  match separate_end run with
  | (b, Some e) => if eqs (val e) (s ";") then b else run
  | (_, None) => run
  end.
Definition decl_layer (i : item) : ldecl :=
  match i with
  | IComment t => LDeclComment t
  | IStmt KDeclIdent run => LDecl (prop_split (drop_semi run))
  | IStmt k _ => LDeclOther k
  end.
Definition ruleset_layer (run : list tok) : option (list (list tok) * list ldecl) :=
  let p := ruleset_split run in
  match rs_decls p with
  | Some ds => Some (sel_split (S (length run)) (removelast (rs_selector p)), map decl_layer ds)
  | None => None
  end.

Definition gap_ldecls (g : list tok) : list ldecl :=
  flat_map (fun t => if tyis t "COMMENT" then [LDeclComment t] else []) g.
Lemma map_gap_items g : map decl_layer (gap_items g) = gap_ldecls g.
Proof.
  induction g as [|t g IH]; [reflexivity|]. unfold gap_items, gap_ldecls in *. cbn [flat_map].
  destruct (tyis t "COMMENT"); cbn [app map decl_layer]; now rewrite IH.
Qed.

Definition decl_parts (lay : layout) (d : decl) (ga : nat) : ldecl :=
  LDecl (Some (decl_name lay d, decl_value lay d (gopt lay ga), decl_prio lay d (gopt lay ga))).
Fixpoint decls_layers (lay : layout) (semi : bool) (glast : nat) (l : list (decl * nat * nat)) : list ldecl :=
  match l with
  | [] => []
  | (d, ga, gb) :: r =>
      decl_parts lay d ga :: (if has_semi lay semi glast r then gap_ldecls (gopt lay gb) else []) ++
      decls_layers lay semi glast r
  end.
Definition block_layers (lay : layout) (semi : bool) (b : dblock) : list ldecl :=
  gap_ldecls (gopt lay (b_g0 b)) ++ decls_layers lay semi (b_last b) (b_decls b).

Definition last_is_semi (l : list tok) : bool :=
  match separate_end l with (_, Some e) => eqs (val e) (s ";") | _ => false end.
Fixpoint decls_split_ok (lay : layout) (l : list (decl * nat * nat)) : bool :=
  match l with
  | [] => true
  | (d, ga, _) :: r =>
      decl_split_ok lay d (gopt lay ga) && negb (last_is_semi (r_decl lay d ++ gopt lay ga)) && decls_split_ok lay r
  end.

Lemma drop_semi_snoc run : drop_semi (run ++ [ch ";"]) = run.
Proof. unfold drop_semi. rewrite separate_end_snoc. reflexivity. Qed.
Lemma drop_semi_none run : last_is_semi run = false -> drop_semi run = run.
Proof.
  unfold drop_semi, last_is_semi. destruct (separate_end run) as [b [e|]]; [|reflexivity]. now intros ->.
Qed.

Lemma map_decls_items lay semi glast l :
  decls_split_ok lay l = true ->
  map decl_layer (decls_items lay semi glast l) = decls_layers lay semi glast l.
Proof.
  induction l as [|[[d ga] gb] r IH]; intros H; [reflexivity|].
  cbn [decls_split_ok] in H. apply andb_true_iff in H as [H H3]. apply andb_true_iff in H as [H1 H2].
  apply negb_true_iff in H2. cbn [decls_items decls_layers].
  destruct (has_semi lay semi glast r).
  - cbn [map decl_layer]. rewrite map_app, map_gap_items, (IH H3).
    replace (r_decl lay d ++ gopt lay ga ++ [ch ";"]) with ((r_decl lay d ++ gopt lay ga) ++ [ch ";"])
      by (now rewrite <- app_assoc).
    rewrite drop_semi_snoc, (prop_split_lemma _ _ _ H1). reflexivity.
  - cbn [map decl_layer app]. rewrite (IH H3), (drop_semi_none _ H2), (prop_split_lemma _ _ _ H1). reflexivity.
Qed.

Definition style_deep_ok (lay : layout) (sels : list Selector.selector) (b : dblock) : bool :=
  style_ok lay sels b && forallb sel_ok sels && match sels with [] => false | _ => true end &&
  decls_split_ok lay (b_decls b).

Lemma length_r_sels_lt (sels : list Selector.selector) (rest : list tok) :
  forallb sel_ok sels = true -> (length sels < S (length (r_sels sels ++ rest)))%nat.
Proof.
  induction sels as [|x r IH]; intros H; [cbn; lia|].
  cbn [forallb] in H. apply andb_true_iff in H as [Hx Hr]. specialize (IH Hr).
  unfold sel_ok in Hx. apply andb_true_iff in Hx as [Hx _]. apply andb_true_iff in Hx as [_ Hx].
  destruct r as [|y r'].
  - cbn [r_sels length]. destruct (r_selector x); [discriminate|]. cbn [app length]. lia.
  - rewrite r_sels_cons. rewrite !app_length in *. cbn [length] in *.
    destruct (r_selector x); [discriminate|]. cbn [length]. lia.
Qed.

(* a rendered rule set reaches the selector and the property handlers as exactly the selectors and the
   (name, value, priority) token runs that were written *)
Lemma ruleset_layer_lemma lay sels b :
  style_deep_ok lay sels b = true ->
  ruleset_layer (r_stmt lay (SStyle sels b)) = Some (map r_selector sels, block_layers lay false b).
Proof.
  intros H. unfold style_deep_ok in H. apply andb_true_iff in H as [H H4]. apply andb_true_iff in H as [H H3].
  apply andb_true_iff in H as [H1 H2].
  unfold ruleset_layer. rewrite (ruleset_faithful_lemma _ _ _ H1). cbn [rs_decls rs_selector].
  rewrite removelast_last. f_equal. f_equal.
  - apply sel_split_lemma; [destruct sels; [discriminate|discriminate]|exact H2|].
    rewrite r_style_shape, <- app_assoc. now apply length_r_sels_lt.
  - unfold block_items, block_layers. rewrite map_app, map_gap_items. f_equal. now apply map_decls_items.
Qed.

(* ================================================================== the decidable side condition of a derivation *)
Fixpoint stmt_deep_ok (lay : layout) (x : stmt) : bool :=
  match x with
  | SStyle sels b => style_deep_ok lay sels b
  | SMedia _ g0 media g1 g2 body =>
      media_ok lay g0 media g1 g2 body &&
      (fix go (l : list (stmt * nat)) : bool :=
         match l with [] => true | (y, _) :: r => stmt_deep_ok lay y && go r end) body
  | _ => true
  end.
(* every statement (at top level and inside @media) is one complete run for its handler, every rule set splits at its
   braces, every selector group at its commas, every declaration at ':' / '!' / ';' *)
Definition delimited (sh : sheet) (lay : layout) : bool :=
  delimited_top sh lay && forallb (fun p => stmt_deep_ok lay (fst p)) sh.
Definition Delimited (sh : sheet) (lay : layout) : Prop := delimited sh lay = true.

Lemma delimited_top_of sh lay : Delimited sh lay -> delimited_top sh lay = true.
Proof. unfold Delimited, delimited. intros H. now apply andb_true_iff in H as [H _]. Qed.

Lemma delimited_style sh lay sels b g :
  Delimited sh lay -> In (SStyle sels b, g) sh -> style_deep_ok lay sels b = true.
Proof.
  unfold Delimited, delimited. intros H Hin. apply andb_true_iff in H as [_ H].
  rewrite forallb_forall in H. exact (H _ Hin).
Qed.

Lemma delimited_media sh lay gk g0 media g1 g2 body g :
  Delimited sh lay -> In (SMedia gk g0 media g1 g2 body, g) sh -> media_ok lay g0 media g1 g2 body = true.
Proof.
  unfold Delimited, delimited. intros H Hin. apply andb_true_iff in H as [_ H].
  rewrite forallb_forall in H. specialize (H _ Hin). cbn [fst stmt_deep_ok] in H.
  now apply andb_true_iff in H as [H _].
Qed.

(* comments of a rendering are inert (needed by parsecomments_off): decidable as well *)
Definition inert_b (ts : list tok) : bool :=
  forallb (fun t => negb (tyis t "COMMENT") || starts (s "/*") (val t)) ts.
Lemma inert_b_sound ts : inert_b ts = true -> inert_comments ts.
Proof.
  unfold inert_b, inert_comments. rewrite forallb_forall. intros H t Hin Hty. specialize (H t Hin).
  rewrite Hty in H. exact H.
Qed.

(* ================================================================== a concrete derivation (non-vacuity) *)
Definition ex_sel : Selector.selector :=
  Selector.mkSel [] (Selector.mkCompound (Selector.HType Selector.NsDefault (s "a"))
                                         [([], Selector.SClass (s "b"))] None)
                 [(Selector.CChild [] [Selector.WS (s " ")],
                   Selector.mkCompound Selector.HNone [([], Selector.SHash (s "#i"))] None)]
                 [Selector.WS (s " ")].
Definition ex_decl : decl :=
  mkDecl (s "color") 0 1 (TmIdent (s "red"))
         [(SepSp 2, TmFunc (s "f") 3 (TmNum (mkNum 2 (s "1") (Some (s "50")))) [(1, 4, 5, TmStr 6 (s "x;}")); (2, 4, 5, TmIdent (s "b"))] 7);
          (SepSlash 8 9, TmCalc 10 11 (CtD (mkNum 0 (s "1") None) (s "px")) [(OAdd, 12, 13, CtP (mkNum 0 (s "2") None))] 14)]
         15 (Some (16, 17)).
Definition ex_decl2 : decl := mkDecl (s "Width") 18 19 (TmUrl 20 (s "a.png")) [] 21 None.
Definition ex_block : dblock := mkBlock 22 [(ex_decl, 23, 24); (ex_decl2, 25, 26)] 27.
Definition ex_mq : mquery := mkMQ 1 28 29 (Some (s "print")) [(30, 31, 32, mkMExpr 33 (s "min-width") 34 (Some (35, TmDim (mkNum 0 (s "10") None) (s "px"))) 36)].
Definition ex_sheet : sheet :=
  [(SCharset (s "utf-8"), 37);
   (SComment (s "/*c*/"), 38);
   (SImport 39 40 (FUrl 41) (s "a.css") (Some (42, [(0, 0, ex_mq)])) None 43, 44);
   (SNamespace 45 46 (Some (s "p", 47)) (FStr 48) (s "u:p") 49, 50);
   (SStyle [ex_sel; ex_sel] ex_block, 51);
   (SMedia 52 53 [(0, 0, ex_mq)] 54 55 [(SStyle [ex_sel] ex_block, 56); (SComment (s "/*d*/"), 57)], 58);
   (SUnknown (s "@foo") 59 [SoId (s "x"); SoParen [SoStr 60 (s "}")]] (Some [SoBlock [SoId (s "y")]]), 61)]%nat.
Definition ex_lay : layout :=
  [1; 2; 3; 4; 5; 6; 0; 1; 2; 3; 4; 5; 6; 0; 1; 2; 3; 4; 5; 6; 0; 1; 2; 3; 4; 5; 6; 0; 1; 2; 3; 4; 5; 6; 0; 1; 2; 3; 4; 5;
   6; 0; 1; 2; 3; 4; 5; 6; 0; 1; 2; 3; 4; 5; 6; 0; 1; 2; 3; 4; 5; 6]%nat.

Lemma ex_delimited : Delimited ex_sheet ex_lay.
Proof. vm_compute. reflexivity. Qed.
Lemma ex_delimited0 : Delimited ex_sheet [].
Proof. vm_compute. reflexivity. Qed.
Lemma ex_well_ordered : WellOrdered ex_sheet.
Proof. vm_compute. reflexivity. Qed.
Lemma ex_inert : inert_comments (render ex_sheet ex_lay).
Proof. apply inert_b_sound. vm_compute. reflexivity. Qed.
Lemma ex_tokenize_render : tokenize_render_ok ex_sheet ex_lay = true.
Proof. vm_compute. reflexivity. Qed.
Lemma ex_selectors : selectors_ok ex_sheet = true.
Proof. vm_compute. reflexivity. Qed.
Lemma ex_has_comment_tokens : existsb (fun t => tyis t "COMMENT") (render ex_sheet ex_lay) = true.
Proof. vm_compute. reflexivity. Qed.

(* ================================================================== parse_faithful_partial
   The parse is  build o skeleton o tokenize.  Tokenizer and skeleton are modelled; the rule objects' handlers
   are not, except for: the rule-set / selector-group / declaration splits (above), the selector machine (C16,
   machine_sel), and the normalisation of property name and priority.  The unmodelled handlers are Section
   variables with named hypotheses, each validated end to end by the harness on every generated derivation.   *)
Fixpoint depth (x : stmt) : nat :=
  match x with
  | SMedia _ _ _ _ _ body =>
      S ((fix go (l : list (stmt * nat)) : nat := match l with [] => 0 | (y, _) :: r => Nat.max (depth y) (go r) end) body)
  | _ => 0
  end.
Definition sheet_depth (sh : sheet) : nat := fold_right (fun p n => Nat.max (depth (fst p)) n) 0 sh.

(* property.py: name = normalized first token of the name run; priority = "important" if the priority run has it *)
Definition name_of (name : list tok) : str := match name with t :: _ => lower (val t) | [] => [] end.
Definition prio_of (prio : list tok) : str :=
  if existsb (fun t => tyis t "IDENT" && eqs (lower (val t)) (s "important")) prio then s "important" else [].

Definition m_value (d : decl) : js :=
  JL (m_term (d_first d) :: flat_map (fun p => m_sep (fst p) ++ [m_term (snd p)]) (d_more d)).

Section Unmodelled.
  Variable build_value : list tok -> js.            (* PropertyValue: value.py + prodparser.py *)
  Variable build_media : list tok -> js.            (* MediaList / MediaQuery *)
  Variable build_other : kind -> list tok -> js.    (* @charset, @import, @namespace, @page, @font-face, unknown at-rules *)
  Variable lay : layout.

  Hypothesis value_grammar_faithful :
    forall d ga, build_value (decl_value lay d (gopt lay ga)) = m_value d.
  Hypothesis media_grammar_faithful :
    forall g0 media g1, build_media (media_head lay g0 media g1 ++ [ch "{"]) = m_mlist media.
  Hypothesis simple_rules_faithful :
    forall ns x, match x with SStyle _ _ | SMedia _ _ _ _ _ _ | SComment _ => False | _ => True end ->
                 build_other (kind_of x) (r_stmt lay x) = m_stmt ns x.

  Definition build_decl (ld : ldecl) : option js :=
    match ld with
    | LDecl (Some (n, v, p)) => Some (tag "decl" [JS (name_of n); JS (prio_of p); build_value v])
    | LDecl None => Some (tag "dropped" [])
    | LDeclComment _ => None
    | LDeclOther _ => Some (tag "dropped" [])
    end.

  Fixpoint build_item (fuel : nat) (ns : ns_map) (i : item) : js :=
    match i with
    | IComment t => tag "comment" [JS (val t)]
    | IStmt KRuleset run =>
        match ruleset_layer run with
        | Some (sels, ds) => tag "style" [JL (map (machine_sel ns) sels); JL (somes (map build_decl ds))]
        | None => tag "dropped" []
        end
    | IStmt KMedia run =>
        match fuel with
        | O => tag "fuel" []
        | S f =>
            match mp_inner (media_split (tl run)) with
            | Some inner => tag "media" [build_media (mp_media (media_split (tl run))); JL (map (build_item f ns) inner)]
            | None => tag "dropped" []
            end
        end
    | IStmt k run => build_other k run
    end.

  Lemma prio_of_decl d tail :
    (forall t, In t tail -> tyis t "IDENT" = false) ->
    prio_of (decl_prio lay d tail) = match d_imp d with Some _ => s "important" | None => [] end.
  Proof.
    intros Ht. unfold decl_prio, prio_of. destruct (d_imp d) as [[ga gb]|]; [|reflexivity].
    cbn [existsb]. rewrite existsb_app. cbn [existsb].
    assert (eqs (lower (val (T "IDENT" (cased lay gb (s "important"))))) (s "important") = true) as ->.
    { unfold cased. destruct (Nat.odd (lk lay gb)); reflexivity. }
    replace (tyis (T "IDENT" (cased lay gb (s "important"))) "IDENT") with true by reflexivity.
    cbn [andb orb]. rewrite orb_true_r. reflexivity.
  Qed.

  Lemma gopt_no_ident g t : In t (gopt lay g) -> tyis t "IDENT" = false.
  Proof.
    unfold gopt, gap_opt. destruct (Nat.modulo (lk lay g) 7) as [|[|[|[|[|[|n]]]]]]; cbn [In]; intros H;
      repeat (destruct H as [<-|H]; [reflexivity|]); contradiction.
  Qed.

  Lemma somes_gap g : somes (map build_decl (gap_ldecls g)) = [].
  Proof.
    induction g as [|t g IH]; [reflexivity|]. unfold gap_ldecls in *. cbn [flat_map].
    destruct (tyis t "COMMENT"); cbn [app map build_decl somes]; exact IH.
  Qed.
  Lemma somes_app {A} (a b : list (option A)) : somes (a ++ b) = somes a ++ somes b.
  Proof. induction a as [|[x|] a IH]; cbn [app somes]; [reflexivity|now rewrite IH|exact IH]. Qed.

  Lemma build_decls_layers semi glast l :
    somes (map build_decl (decls_layers lay semi glast l)) = map (fun p => m_decl (fst (fst p))) l.
  Proof.
    induction l as [|[[d ga] gb] r IH]; [reflexivity|].
    cbn [decls_layers map fst]. rewrite map_app. cbn [somes build_decl decl_parts]. unfold decl_parts.
    cbn [build_decl somes]. rewrite somes_app, IH.
    assert (somes (map build_decl (if has_semi lay semi glast r then gap_ldecls (gopt lay gb) else [])) = []) as ->
      by (destruct (has_semi lay semi glast r); [apply somes_gap|reflexivity]).
    cbn [app]. f_equal. unfold m_decl. rewrite value_grammar_faithful, (prio_of_decl d _ (gopt_no_ident ga)).
    reflexivity.
  Qed.

  Lemma build_block b : somes (map build_decl (block_layers lay false b)) = map (fun p => m_decl (fst (fst p))) (b_decls b).
  Proof. unfold block_layers. rewrite map_app, somes_app, somes_gap. apply build_decls_layers. Qed.

  (* selector_accepts (C16): the modelled machine builds the specified selector object from the rendered tokens *)
  Definition SelectorsAccepted (ns : ns_map) (x : stmt) : Prop :=
    forall y, In y (stmt_selectors x) -> machine_sel ns (r_selector y) = m_selector ns y.

  Lemma stmt_selectors_media gk g0 media g1 g2 body y g z :
    In (y, g) body -> In z (stmt_selectors y) -> In z (stmt_selectors (SMedia gk g0 media g1 g2 body)).
  Proof.
    intros Hin Hz. cbn [stmt_selectors]. induction body as [|[y' g'] r IH]; [contradiction|].
    apply in_or_app. destruct Hin as [E|Hin]; [inversion E; subst; now left|right; now apply IH].
  Qed.

  Lemma media_inner_map (F : stmt -> js) (G : item -> js) (body : list (stmt * nat)) :
    (forall y g, In (y, g) body -> G (stmt_item lay y) = F y) ->
    map G (map (fun p => stmt_item lay (fst p)) body) =
    (fix go (l : list (stmt * nat)) : list js := match l with [] => [] | (y, _) :: r => F y :: go r end) body.
  Proof.
    induction body as [|[y g] r IH]; intros H; [reflexivity|].
    cbn [map fst]. f_equal; [apply (H y g); now left|]. apply IH. intros y' g' Hin. apply (H y' g'). now right.
  Qed.
  Lemma depth_in_body (body : list (stmt * nat)) y g :
    In (y, g) body ->
    depth y <= (fix go (l : list (stmt * nat)) : nat :=
                  match l with [] => 0 | (y, _) :: r => Nat.max (depth y) (go r) end) body.
  Proof.
    induction body as [|[y' g'] r IH]; [contradiction|].
    intros [E|Hin]; [inversion E; subst; lia|specialize (IH Hin); lia].
  Qed.
  Lemma deep_in_body (body : list (stmt * nat)) y g :
    (fix go (l : list (stmt * nat)) : bool :=
       match l with [] => true | (y, _) :: r => stmt_deep_ok lay y && go r end) body = true ->
    In (y, g) body -> stmt_deep_ok lay y = true.
  Proof.
    induction body as [|[y' g'] r IH]; [contradiction|].
    intros H [E|Hin]; apply andb_true_iff in H as [H1 H2]; [inversion E; subst; exact H1|now apply IH].
  Qed.

  Lemma build_stmt ns : forall fuel x,
    depth x <= fuel -> stmt_deep_ok lay x = true -> SelectorsAccepted ns x ->
    build_item fuel ns (stmt_item lay x) = m_stmt ns x.
  Proof.
    induction fuel as [|f IH]; intros x Hd Hok Hsel.
    - destruct x; try (cbn [depth] in Hd; lia);
        try (cbn [stmt_item build_item kind_of];
             match goal with |- _ = m_stmt _ ?x => exact (simple_rules_faithful ns x I) end).
      + (* style *) cbn [stmt_item build_item kind_of]. cbn [stmt_deep_ok] in Hok.
        rewrite (ruleset_layer_lemma _ _ _ Hok). cbn [m_stmt]. rewrite build_block, map_map. unfold m_block.
        f_equal. f_equal. f_equal. apply map_ext_in. intros y Hy. apply Hsel. exact Hy.
      + reflexivity.
    - destruct x;
        try (cbn [stmt_item build_item kind_of];
             match goal with |- _ = m_stmt _ ?x => exact (simple_rules_faithful ns x I) end).
      + (* media *)
        cbn [stmt_deep_ok] in Hok. apply andb_true_iff in Hok as [Hm Hin].
        cbn [stmt_item kind_of build_item]. rewrite (media_faithful_lemma _ _ _ _ _ _ _ Hm). cbn [mp_inner mp_media].
        rewrite media_grammar_faithful. cbn [m_stmt]. f_equal. f_equal. f_equal. f_equal.
        cbn [depth] in Hd. apply le_S_n in Hd.
        apply media_inner_map. intros y g Hy. apply IH.
        * pose proof (depth_in_body _ _ _ Hy). lia.
        * exact (deep_in_body _ _ _ Hin Hy).
        * intros z Hz. apply Hsel. eapply stmt_selectors_media; eauto.
      + (* style *) cbn [stmt_item build_item kind_of]. cbn [stmt_deep_ok] in Hok.
        rewrite (ruleset_layer_lemma _ _ _ Hok). cbn [m_stmt]. rewrite build_block, map_map. unfold m_block.
        f_equal. f_equal. f_equal. apply map_ext_in. intros y Hy. apply Hsel. exact Hy.
      + reflexivity.
  Qed.

  Lemma depth_le_sheet sh x g : In (x, g) sh -> depth x <= sheet_depth sh.
  Proof.
    induction sh as [|[y g'] r IH]; [contradiction|]. cbn [sheet_depth fold_right fst]. fold (sheet_depth r).
    intros [E|Hin]; [inversion E; subst; lia|specialize (IH Hin); lia].
  Qed.

  Lemma parse_faithful_partial_lemma sh :
    Delimited sh lay ->
    (forall x g, In (x, g) sh -> SelectorsAccepted (ns_of sh) x) ->
    JL (map (build_item (sheet_depth sh) (ns_of sh)) (skeleton (render sh lay ++ [eof_tok]))) = expected_model sh.
  Proof.
    intros Hd Hsel. rewrite (skeleton_faithful_lemma _ _ (delimited_top_of _ _ Hd)).
    unfold sheet_items, expected_model. rewrite map_map. f_equal. apply map_ext_in. intros [x g] Hin. cbn [fst].
    apply build_stmt.
    - eapply depth_le_sheet; eauto.
    - unfold Delimited, delimited in Hd. apply andb_true_iff in Hd as [_ Hd]. rewrite forallb_forall in Hd.
      exact (Hd _ Hin).
    - eapply Hsel; eauto.
  Qed.
End Unmodelled.

(* ================================================================== the boolean selector check implies the hypothesis *)
Lemma js_eqb_sound : forall f a b, js_eqb f a b = true -> a = b.
Proof.
  induction f as [|f IH]; intros a b H; [discriminate|].
  destruct a as [x|x|x], b as [y|y|y]; cbn [js_eqb] in H; try discriminate.
  - apply eqs_true in H. now subst.
  - apply N.eqb_eq in H. now subst.
  - f_equal. revert y H. induction x as [|p x IHx]; intros [|q y] H; try discriminate; [reflexivity|].
    apply andb_true_iff in H as [H1 H2]. f_equal; [now apply IH|now apply IHx].
Qed.

Lemma selectors_ok_accepted sh :
  selectors_ok sh = true -> forall x g, In (x, g) sh -> SelectorsAccepted (ns_of sh) x.
Proof.
  unfold selectors_ok, SelectorsAccepted. rewrite forallb_forall. intros H x g Hin y Hy.
  assert (In y (flat_map (fun p => stmt_selectors (fst p)) sh)) as Hy'.
  { apply in_flat_map. exists (x, g). split; [exact Hin|exact Hy]. }
  specialize (H y Hy'). unfold selector_ok in H. now apply js_eqb_sound in H.
Qed.
