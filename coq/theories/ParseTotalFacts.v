(* ParseTotalFacts.v -- proofs about the crash-site models of ParseTotal.v (C01). *)
From CssV Require Import Base Regex RegexFacts Gen.Productions Gen.TokTables Tokenizer TokenizerFacts
     Quote Gen.StrTokenValue Upto ParseTotal.
Local Open Scope nat_scope.

(* ================================================================== 1. what a match consumes
   m_sound (RegexFacts, frozen) bounds the *length* handed to the continuation; here the same
   induction shows that the continuation receives a *suffix* and that every consumed character
   belongs to the character set of the expression.                                              *)
Fixpoint cset (r : re) (x : N) : bool :=
  match r with
  | Eps | NotBehind _ | Ahead _ | NotAhead _ | Bos | Eos => false
  | Chr c => N.eqb x c
  | NotChr c => negb (N.eqb x c)
  | Any => negb (N.eqb x 10)
  | Cls neg rs => xorb neg (in_ranges x rs)
  | Cat a b | Alt a b => cset a x || cset b x
  | Rep a _ _ | LazyRep a _ _ => cset a x
  end.

Definition Spl {R} (P : N -> Prop) (ma : matcher R) : Prop :=
  forall p t k v, ma p t k = Some v ->
    exists p' t' c, k p' t' = Some v /\ t = c ++ t' /\ Forall P c.

Lemma Spl_weaken {R} (P Q : N -> Prop) (ma : matcher R) :
  (forall x, P x -> Q x) -> Spl P ma -> Spl Q ma.
Proof.
  intros HPQ H p t k v Hm. destruct (H p t k v Hm) as (p' & t' & c & Hk & Ht & Hc).
  exists p', t', c. repeat split; auto. eapply Forall_impl; eauto.
Qed.

Lemma rep_iter_split {R} (P : N -> Prop) (ma : matcher R) : Spl P ma ->
  forall fuel k lo hi p t v, rep_iter ma k fuel lo hi p t = Some v ->
    exists p' t' c, k p' t' = Some v /\ t = c ++ t' /\ Forall P c.
Proof.
  intros Hma fuel; induction fuel as [|f IH]; intros k lo hi p t v H; [discriminate|].
  cbn [rep_iter] in H.
  set (kk := fun (p0 : option N) (t' : str) =>
               if Nat.ltb (length t') (length t)
               then rep_iter ma k f (Nat.pred lo) (option_map Nat.pred hi) p0 t' else None) in H.
  assert (Hmore : forall v0, ma p t kk = Some v0 ->
            exists p' t' c, k p' t' = Some v0 /\ t = c ++ t' /\ Forall P c).
  { intros v0 H0. apply Hma in H0 as (p1 & t1 & c1 & Hk & Ht1 & Hc1). unfold kk in Hk.
    destruct (Nat.ltb (length t1) (length t)); [|discriminate].
    apply IH in Hk as (p2 & t2 & c2 & Hk2 & Ht2 & Hc2). exists p2, t2, (c1 ++ c2).
    split; [assumption|]. split; [subst; rewrite app_assoc; reflexivity|]. apply Forall_app; auto. }
  assert (Hstop : forall v0, k p t = Some v0 -> exists p' t' c, k p' t' = Some v0 /\ t = c ++ t' /\ Forall P c).
  { intros v0 H0. exists p, t, []. repeat split; auto. }
  destruct hi as [[|h]|].
  - destruct lo; [|discriminate]. apply Hstop; exact H.
  - destruct (ma p t kk) as [v0|] eqn:E.
    + inversion H; subst v0. apply Hmore; reflexivity.
    + destruct lo; [|discriminate]. apply Hstop; exact H.
  - destruct (ma p t kk) as [v0|] eqn:E.
    + inversion H; subst v0. apply Hmore; reflexivity.
    + destruct lo; [|discriminate]. apply Hstop; exact H.
Qed.

Lemma lazy_iter_split {R} (P : N -> Prop) (ma : matcher R) : Spl P ma ->
  forall fuel k lo hi p t v, lazy_iter ma k fuel lo hi p t = Some v ->
    exists p' t' c, k p' t' = Some v /\ t = c ++ t' /\ Forall P c.
Proof.
  intros Hma fuel; induction fuel as [|f IH]; intros k lo hi p t v H; [discriminate|].
  cbn [lazy_iter] in H.
  set (kk := fun (p0 : option N) (t' : str) =>
               if Nat.ltb (length t') (length t)
               then lazy_iter ma k f (Nat.pred lo) (option_map Nat.pred hi) p0 t' else None) in H.
  assert (Hmore : forall v0, match hi with Some O => None | _ => ma p t kk end = Some v0 ->
            exists p' t' c, k p' t' = Some v0 /\ t = c ++ t' /\ Forall P c).
  { intros v0 H0. assert (H1 : ma p t kk = Some v0) by (destruct hi as [[|]|]; congruence).
    apply Hma in H1 as (p1 & t1 & c1 & Hk & Ht1 & Hc1). unfold kk in Hk.
    destruct (Nat.ltb (length t1) (length t)); [|discriminate].
    apply IH in Hk as (p2 & t2 & c2 & Hk2 & Ht2 & Hc2). exists p2, t2, (c1 ++ c2).
    split; [assumption|]. split; [subst; rewrite app_assoc; reflexivity|]. apply Forall_app; auto. }
  destruct lo as [|lo].
  - destruct (k p t) as [v0|] eqn:E.
    + inversion H; subst. exists p, t, []. repeat split; auto.
    + apply Hmore; exact H.
  - apply Hmore; exact H.
Qed.

Lemma m_split {R} (r : re) : Spl (R:=R) (fun x => cset r x = true) (m r).
Proof.
  induction r as [|c|c| |neg rs|a IHa b IHb|a IHa b IHb|a IHa lo hi|a IHa lo hi|c|c|c| |];
    intros p t k v H; cbn [m] in H.
  - exists p, t, []. repeat split; auto.
  - destruct t as [|x t']; [discriminate|]. destruct (N.eqb x c) eqn:E; [|discriminate].
    exists (Some x), t', [x]. split; [assumption|]. split; [reflexivity|]. constructor; [cbn [cset]; exact E|constructor].
  - destruct t as [|x t']; [discriminate|]. destruct (N.eqb x c) eqn:E; [discriminate|].
    exists (Some x), t', [x]. split; [assumption|]. split; [reflexivity|]. constructor; [cbn [cset]; rewrite E; reflexivity|constructor].
  - destruct t as [|x t']; [discriminate|]. destruct (N.eqb x 10) eqn:E; [discriminate|].
    exists (Some x), t', [x]. split; [assumption|]. split; [reflexivity|]. constructor; [cbn [cset]; rewrite E; reflexivity|constructor].
  - destruct t as [|x t']; [discriminate|]. destruct (xorb neg (in_ranges x rs)) eqn:E; [|discriminate].
    exists (Some x), t', [x]. split; [assumption|]. split; [reflexivity|]. constructor; [cbn [cset]; exact E|constructor].
  - apply IHa in H as (p1 & t1 & c1 & H1 & T1 & C1). apply IHb in H1 as (p2 & t2 & c2 & H2 & T2 & C2).
    exists p2, t2, (c1 ++ c2). split; [assumption|]. split; [subst; rewrite app_assoc; reflexivity|].
    apply Forall_app; split; (eapply Forall_impl; [|eassumption]); cbn [cset]; intros x Hx; rewrite Hx;
      [reflexivity|apply orb_true_r].
  - destruct (m a p t k) as [v0|] eqn:E.
    + inversion H; subst v0. apply IHa in E as (p1 & t1 & c1 & H1 & T1 & C1).
      exists p1, t1, c1. repeat split; auto. eapply Forall_impl; [|eassumption]. cbn [cset].
      intros x Hx; rewrite Hx; reflexivity.
    + apply IHb in H as (p1 & t1 & c1 & H1 & T1 & C1).
      exists p1, t1, c1. repeat split; auto. eapply Forall_impl; [|eassumption]. cbn [cset].
      intros x Hx; rewrite Hx; apply orb_true_r.
  - exact (rep_iter_split _ _ IHa _ _ _ _ _ _ _ H).
  - exact (lazy_iter_split _ _ IHa _ _ _ _ _ _ _ H).
  - exists p, t, []. repeat split; auto.
    destruct p as [x|]; [destruct (N.eqb x c); [discriminate|]|]; assumption.
  - destruct t as [|x t']; [discriminate|]. destruct (N.eqb x c); [|discriminate].
    exists p, (x :: t'), []. repeat split; auto.
  - exists p, t, []. repeat split; auto.
    destruct t as [|x t']; [assumption|]. destruct (N.eqb x c); [discriminate|assumption].
  - destruct p; [discriminate|]. exists None, t, []. repeat split; auto.
  - exists p, t, []. repeat split; auto.
    destruct t as [|x [|y t']]; try discriminate; auto. destruct (N.eqb x 10); [assumption|discriminate].
Qed.

Lemma firstn_exact {A} (a b : list A) : firstn (length a) (a ++ b) = a.
Proof. induction a as [|x a IH]; simpl; [destruct b; reflexivity|]. rewrite IH. reflexivity. Qed.

Lemma length_app_sub {A} (c t' : list A) : (length (c ++ t') - length t' = length c)%nat.
Proof. rewrite app_length. lia. Qed.

(* the text matched by rmatch consists of characters of the expression's character set *)
Lemma rmatch_cset r b t n : rmatch r b t = Some n ->
  Forall (fun x => cset r x = true) (firstn n t) /\ (n <= length t)%nat.
Proof.
  unfold rmatch. intros H. apply m_split in H as (p' & t' & c & Hk & Ht & Hc).
  inversion Hk; subst. rewrite length_app_sub, firstn_exact. split; [exact Hc|]. rewrite app_length. lia.
Qed.

(* ================================================================== 2. STRING tokens are quoted *)
(* shape of the STRING / INVALID expressions, decided on the generated table *)
Definition quoted_re (r : re) : bool :=
  match r with
  | Alt (Cat (Chr a) (Cat _ (Chr b))) (Cat (Chr c) (Cat _ (Chr d))) =>
      N.eqb a 34 && N.eqb b 34 && N.eqb c 39 && N.eqb d 39
  | _ => false
  end.
Definition openq_re (r : re) : bool :=
  match r with
  | Alt (Cat (Chr a) _) (Cat (Chr c) _) => N.eqb a 34 && N.eqb c 39
  | _ => false
  end.
Definition prod_shape_ok (p : str * re) : bool :=
  if eqs (fst p) (s "STRING") then quoted_re (snd p)
  else if eqs (fst p) (s "INVALID") then openq_re (snd p)
  else true.

Lemma productions_shape : forallb prod_shape_ok productions = true.
Proof. vm_compute. reflexivity. Qed.

Lemma quoted_re_inv r : quoted_re r = true ->
  exists X Y, r = Alt (Cat (Chr 34) (Cat X (Chr 34))) (Cat (Chr 39) (Cat Y (Chr 39))).
Proof.
  intros H. unfold quoted_re in H.
  repeat match type of H with
         | match ?x with _ => _ end = true => destruct x; try discriminate
         end.
  repeat (apply andb_true_iff in H as [H ?]).
  repeat match goal with E : N.eqb _ _ = true |- _ => apply N.eqb_eq in E end. subst. eauto.
Qed.

Lemma openq_re_inv r : openq_re r = true ->
  exists X Y, r = Alt (Cat (Chr 34) X) (Cat (Chr 39) Y).
Proof.
  intros H. unfold openq_re in H.
  repeat match type of H with
         | match ?x with _ => _ end = true => destruct x; try discriminate
         end.
  repeat (apply andb_true_iff in H as [H ?]).
  repeat match goal with E : N.eqb _ _ = true |- _ => apply N.eqb_eq in E end. subst. eauto.
Qed.

Lemma open_branch q X b t n :
  m (Cat (Chr q) X) b t (fun _ t' => Some (length t - length t')) = Some n ->
  exists body, firstn n t = q :: body /\ (n <= length t)%nat.
Proof.
  intros H. cbn [m] in H. destruct t as [|x t1]; [discriminate|].
  destruct (N.eqb x q) eqn:E; [|discriminate]. apply N.eqb_eq in E. subst x.
  apply m_split in H as (p' & t' & c & Hk & Ht & _). subst t1.
  assert (Hn : n = length (q :: c)).
  { injection Hk as <-. simpl. rewrite ?app_length. simpl. destruct (length t'); lia. }
  subst n. exists c. change (q :: c ++ t') with ((q :: c) ++ t'). rewrite firstn_exact.
  split; [reflexivity|]. rewrite app_length. lia.
Qed.

Lemma quote_branch q X b t n :
  m (Cat (Chr q) (Cat X (Chr q))) b t (fun _ t' => Some (length t - length t')) = Some n ->
  exists body, firstn n t = q :: body ++ [q].
Proof.
  intros H. cbn [m] in H. destruct t as [|x t1]; [discriminate|].
  destruct (N.eqb x q) eqn:E; [|discriminate]. apply N.eqb_eq in E. subst x.
  apply m_split in H as (p' & t' & c & Hk & Ht & _). destruct t' as [|y t'']; [discriminate|].
  destruct (N.eqb y q) eqn:E2; [|discriminate]. apply N.eqb_eq in E2. subst y.
  subst t1.
  assert (Hn : n = length (q :: c ++ [q])).
  { injection Hk as <-. simpl. rewrite ?app_length. simpl. destruct (length t''); lia. }
  subst n. exists c.
  replace (q :: c ++ q :: t'') with ((q :: c ++ [q]) ++ t'')
    by (cbn [app]; rewrite <- app_assoc; reflexivity).
  apply firstn_exact.
Qed.

Lemma quoted_match r b t n : quoted_re r = true -> rmatch r b t = Some n -> quoted (firstn n t).
Proof.
  intros Hq H. apply quoted_re_inv in Hq as (X & Y & ->). unfold rmatch in H. cbn [m] in H.
  match type of H with match ?a with _ => _ end = _ => destruct a as [v0|] eqn:E end.
  - inversion H; subst v0. fold (@m nat) in E.
    change (m (Cat (Chr 34) (Cat X (Chr 34))) b t (fun _ t' => Some (length t - length t')) = Some n) in E.
    apply quote_branch in E as [body Hb]. exists 34%N, body. auto.
  - change (m (Cat (Chr 39) (Cat Y (Chr 39))) b t (fun _ t' => Some (length t - length t')) = Some n) in H.
    apply quote_branch in H as [body Hb]. exists 39%N, body. auto.
Qed.

Lemma openq_match r b t n : openq_re r = true -> rmatch r b t = Some n ->
  exists q body, (q = 34%N \/ q = 39%N) /\ firstn n t = q :: body.
Proof.
  intros Hq H. apply openq_re_inv in Hq as (X & Y & ->). unfold rmatch in H. cbn [m] in H.
  match type of H with match ?a with _ => _ end = _ => destruct a as [v0|] eqn:E end.
  - inversion H; subst v0.
    change (m (Cat (Chr 34) X) b t (fun _ t' => Some (length t - length t')) = Some n) in E.
    apply open_branch in E as (body & Hb & _). exists 34%N, body. auto.
  - change (m (Cat (Chr 39) Y) b t (fun _ t' => Some (length t - length t')) = Some n) in H.
    apply open_branch in H as (body & Hb & _). exists 39%N, body. auto.
Qed.

(* what try_prods can return under the name STRING *)
Lemma try_prods_string ps dc fs prev rest name found pu :
  forallb prod_shape_ok ps = true ->
  try_prods ps dc fs prev rest = Some (Step name found pu) ->
  name = s "STRING" -> quoted found.
Proof.
  induction ps as [|[nm r] ps IH]; intros Hs H Hn; [discriminate|].
  cbn [forallb] in Hs. apply andb_true_iff in Hs as [Hp Hs]. unfold prod_shape_ok in Hp. cbn [fst snd] in Hp.
  cbn [try_prods] in H.
  match type of H with (if ?b then _ else _) = _ => destruct b end.
  { inversion H; subst. discriminate. }
  destruct (rmatch r prev rest) as [n|] eqn:E; [|apply IH; assumption].
  match type of H with (if ?b then _ else _) = _ => destruct b; [apply IH; assumption|] end.
  match type of H with (if ?b then _ else _) = _ => destruct b eqn:Ei end.
  - (* INVALID reaching the end of the text: found ++ [found[0]] *)
    inversion H; subst. repeat (apply andb_true_iff in Ei as [Ei ?]).
    match goal with Hq : eqs nm (s "INVALID") = true |- _ => rename Hq into Hinv end.
    assert (Hnm : eqs nm (s "STRING") = false).
    { apply eqs_spec in Hinv. subst nm. reflexivity. }
    rewrite Hnm, Hinv in Hp.
    destruct (openq_match _ _ _ _ Hp E) as (q & body & Hq & Hf). rewrite Hf. cbn [hd].
    exists q, body. split; [exact Hq|reflexivity].
  - match type of H with (if ?b then _ else _) = _ => destruct b eqn:Eu end.
    + (* url( completion: the name is URI or FUNCTION *)
      repeat (apply andb_true_iff in Eu as [Eu ?]).
      match goal with Hq : eqs nm (s "FUNCTION") = true |- _ => apply eqs_spec in Hq; subst nm end.
      destruct (first_uri_end rest uri_ends); inversion H; subst; discriminate.
    + inversion H; subst. rewrite eqs_refl in Hp. eapply quoted_match; eauto.
Qed.

(* re.sub with a pattern that starts with a backslash keeps the first character and the last
   character of a text quoted by a character outside the pattern's character set               *)
Lemma sub_all_fuel_nil r f fuel prev : sub_all_fuel fuel r f prev [] = [].
Proof. destruct fuel; reflexivity. Qed.

Lemma sub_all_fuel_keep_last r' f q :
  q <> 92%N -> cset (Cat (Chr 92) r') q = false ->
  forall fuel prev t, exists t', sub_all_fuel fuel (Cat (Chr 92) r') f prev (t ++ [q]) = t' ++ [q].
Proof.
  intros Hq Hc fuel. induction fuel as [|fu IH]; intros prev t; [exists t; reflexivity|].
  destruct t as [|x t0].
  - cbn [app sub_all_fuel]. rewrite rmatch_bs_none by exact Hq. rewrite sub_all_fuel_nil. exists []. reflexivity.
  - cbn [app sub_all_fuel].
    destruct (rmatch (Cat (Chr 92) r') prev (x :: t0 ++ [q])) as [[|n]|] eqn:E.
    + destruct (IH (Some x) t0) as [t' Ht']. rewrite Ht'. exists (x :: t'). reflexivity.
    + destruct (rmatch_cset _ _ _ _ E) as [Hall Hle].
      assert (Hn : (S n <= length (x :: t0))%nat).
      { destruct (Nat.le_gt_cases (S n) (length (x :: t0))) as [|Hgt]; [assumption|exfalso].
        change (x :: t0 ++ [q]) with ((x :: t0) ++ [q]) in Hall, Hle. rewrite app_length in Hle. cbn [length] in Hle.
        assert (Hfull : S n = length ((x :: t0) ++ [q])) by (rewrite app_length; cbn [length] in *; lia).
        rewrite Hfull, firstn_all in Hall. apply Forall_app in Hall as [_ Hl]. inversion Hl; subst. congruence. }
      change (x :: t0 ++ [q]) with ((x :: t0) ++ [q]).
      rewrite skipn_app. replace (S n - length (x :: t0))%nat with O by lia.
      change (skipn 0 [q]) with [q].
      match goal with |- context[sub_all_fuel fu _ f ?pv (skipn (S n) (x :: t0) ++ [q])] =>
        destruct (IH pv (skipn (S n) (x :: t0))) as [t' Ht'] end.
      rewrite Ht'. eexists. rewrite app_assoc. reflexivity.
    + destruct (IH (Some x) t0) as [t' Ht']. rewrite Ht'. exists (x :: t'). reflexivity.
Qed.

Lemma sub_all_quoted r' f q body :
  q <> 92%N -> cset (Cat (Chr 92) r') q = false ->
  exists body', sub_all (Cat (Chr 92) r') f (q :: body ++ [q]) = q :: body' ++ [q].
Proof.
  intros Hq Hc. unfold sub_all. remember (length (q :: body ++ [q])) as fu eqn:Hfu. clear Hfu.
  cbn [sub_all_fuel]. rewrite rmatch_bs_none by exact Hq.
  destruct (sub_all_fuel_keep_last r' f q Hq Hc fu (Some q) body) as [t' Ht'].
  rewrite Ht'. exists t'. reflexivity.
Qed.

Lemma unicodesub_cset_quotes : cset re_unicodesub 34 = false /\ cset re_unicodesub 39 = false.
Proof. vm_compute. split; reflexivity. Qed.
Lemma cleanstring_cset_quotes : cset re_cleanstring 34 = false /\ cset re_cleanstring 39 = false.
Proof. vm_compute. split; reflexivity. Qed.

Lemma clean_unicodesub_quoted v : quoted v -> quoted (cleanstring (unicodesub v)).
Proof.
  intros (q & body & Hq & ->).
  assert (Hne : q <> 92%N) by (destruct Hq; subst; discriminate).
  assert (Hu : cset re_unicodesub q = false) by (destruct Hq; subst; apply unicodesub_cset_quotes).
  assert (Hcl : cset re_cleanstring q = false) by (destruct Hq; subst; apply cleanstring_cset_quotes).
  unfold unicodesub, cleanstring. unfold re_unicodesub in *. unfold re_cleanstring in *.
  match goal with |- context[sub_all (Cat (Chr 92) ?r1) ?f1 (q :: body ++ [q])] =>
    destruct (sub_all_quoted r1 f1 q body Hne Hu) as [b1 Hb1]; rewrite Hb1 end.
  match goal with |- context[sub_all (Cat (Chr 92) ?r2) ?f2 (q :: b1 ++ [q])] =>
    destruct (sub_all_quoted r2 f2 q b1 Hne Hcl) as [b2 Hb2]; rewrite Hb2 end.
  exists q, b2. auto.
Qed.

(* at-keyword symbols are never called STRING *)
Lemma atkeywords_not_string : forallb (fun p => negb (eqs (snd p) (s "STRING"))) atkeywords = true.
Proof. vm_compute. reflexivity. Qed.
Lemma assoc_str_not_string x tb sym :
  forallb (fun p => negb (eqs (snd p) (s "STRING"))) tb = true -> assoc_str x tb = Some sym -> sym <> s "STRING".
Proof.
  induction tb as [|[k v] tb IH]; intros Hf H; [discriminate|]. cbn [forallb snd] in Hf.
  apply andb_true_iff in Hf as [Hv Hf]. cbn [assoc_str] in H. destruct (eqs k x).
  - inversion H; subst. intros ->. rewrite eqs_refl in Hv. discriminate.
  - apply IH; assumption.
Qed.
Lemma string_is_resolved_clean : mem_str (s "STRING") resolved_types = true /\ mem_str (s "STRING") clean_types = true.
Proof. vm_compute. split; reflexivity. Qed.
Lemma charset_sym_not_string : charset_sym <> s "STRING".
Proof. vm_compute. discriminate. Qed.

Lemma finish_token_string name found after name' found' value :
  finish_token name found after = (name', found', value) -> name' = s "STRING" ->
  name = s "STRING" /\ value = cleanstring (unicodesub found).
Proof.
  unfold finish_token. intros H Hn.
  destruct (mem_str name resolved_types) eqn:Er.
  - injection H as <- <- <-. subst name. split; [reflexivity|].
    reflexivity.
  - destruct (eqs name (s "ATKEYWORD")) eqn:Ea.
    + exfalso. destruct (assoc_str (normalize_u found) atkeywords) as [sym|] eqn:Es.
      * injection H as <- <- <-. exact (assoc_str_not_string _ _ _ atkeywords_not_string Es Hn).
      * match type of H with (if ?b then _ else _) = _ => destruct b end; injection H as <- <- <-.
        -- exact (charset_sym_not_string Hn).
        -- discriminate.
    + exfalso. injection H as <- <- <-. subst name.
      destruct string_is_resolved_clean as [Hr _]. congruence.
Qed.

Lemma try_prods_false_comment ps dc fs prev rest name found :
  try_prods ps dc fs prev rest = Some (Step name found false) -> name = s "COMMENT".
Proof.
  induction ps as [|[nm r] ps IHp]; [discriminate|]. cbn [try_prods].
  match goal with |- (if ?b then _ else _) = _ -> _ => destruct b end; [intros H; injection H; auto|].
  destruct (rmatch r prev rest); [|exact IHp].
  repeat match goal with
         | |- (if ?b then _ else _) = _ -> _ => destruct b
         | |- match ?x with _ => _ end = _ -> _ => destruct x
         end; try exact IHp; intros H; discriminate.
Qed.

Lemma loop_strings_quoted fuel : forall dc fs prev rest l c toks,
  loop fuel dc fs prev rest l c = Some toks ->
  forall t, In t toks -> ty t = s "STRING" -> quoted (val t).
Proof.
  induction fuel as [|fu IH]; intros dc fs prev rest l c toks H t Ht Hty.
  - destruct rest; [|discriminate]. cbn [loop] in H. injection H as <-.
    destruct fs; simpl in Ht; [destruct Ht as [<-|[]]; discriminate|tauto].
  - destruct rest as [|ch rest1].
    { cbn [loop] in H. injection H as <-.
      destruct fs; simpl in Ht; [destruct Ht as [<-|[]]; discriminate|tauto]. }
    cbn [loop] in H. destruct (mem ch fastchars).
    + destruct (loop fu dc fs (Some ch) rest1 l (c + 1)%nat) as [ts|] eqn:E; [|discriminate].
      cbn [option_map] in H. injection H as <-. destruct Ht as [<-|Ht]; [discriminate|].
      eapply IH; eauto.
    + destruct (try_prods productions dc fs prev (ch :: rest1)) as [[name found pu]|] eqn:E; [|discriminate].
      destruct pu.
      * destruct (finish_token name found (skipn (length found) (ch :: rest1))) as [[name' found'] value] eqn:Ef.
        destruct (upd_pos l c found') as [l' c'].
        destruct (loop fu dc fs (last_opt prev found') (skipn (length found') (ch :: rest1)) l' c') as [ts|] eqn:El;
          [|discriminate].
        cbn [option_map] in H. injection H as <-.
        assert (Hhead : ty (mkTok name' found' value l c) = s "STRING" -> quoted value).
        { cbn [ty]. intros Hn. destruct (finish_token_string _ _ _ _ _ _ Ef Hn) as [Hname ->].
          apply clean_unicodesub_quoted. eapply try_prods_string; eauto using productions_shape. }
        match type of Ht with context[if ?b then _ else _] => destruct b end.
        -- destruct Ht as [<-|Ht]; [apply Hhead; exact Hty|eapply IH; eauto].
        -- eapply IH; eauto.
      * injection H as <-.
        apply try_prods_false_comment in E. subst name.
        destruct Ht as [<-|Ht]; [cbn [ty] in Hty; discriminate|].
        destruct fs; simpl in Ht; [destruct Ht as [<-|[]]; discriminate|tauto].
Qed.

Lemma bom_not_string : fst bom_production <> s "STRING".
Proof. vm_compute. discriminate. Qed.

(* every STRING token the tokenizer can emit -- plain, with escapes resolved and escaped newlines
   removed, or completed at the end of a full sheet -- starts and ends with its quote character *)
Theorem string_tokens_quoted_lemma : forall dc fs text toks,
  tokenize dc fs text = Some toks -> forall t, In t toks -> ty t = s "STRING" -> quoted (val t).
Proof.
  intros dc fs text toks H t Ht Hty.
  apply tokenize_split in H as (bom & cs & rest1 & prev1 & c1 & ts & -> & Hb & _ & _ & Hcs & Hl).
  apply in_app_or in Ht as [Ht|Ht].
  - exfalso. destruct Hb as [->|(b & -> & Hbt & _)]; [destruct Ht|].
    destruct Ht as [<-|[]]. rewrite Hty in Hbt. exact (bom_not_string (eq_sym Hbt)).
  - apply in_app_or in Ht as [Ht|Ht].
    + exfalso. destruct Hcs as [[-> _]|[-> _]]; [destruct Ht|].
      destruct Ht as [<-|[]]. cbn [ty] in Hty. exact (charset_sym_not_string Hty).
    + eapply loop_strings_quoted; eauto.
Qed.

(* ================================================================== 3. _stringtokenvalue *)
Lemma strval_quoted t : quoted (val t) -> exists v, strval (Some t) = Returned (Some v).
Proof.
  intros (q & body & _ & Hv). unfold strval, stringtokenvalue. rewrite Hv. cbn [py_index0]. eauto.
Qed.

Lemma strval_empty_raises t : val t = [] -> strval (Some t) = Raised IndexError.
Proof. intros Hv. unfold strval, stringtokenvalue. rewrite Hv. reflexivity. Qed.

Theorem stringtokenvalue_total_lemma : forall dc fs text toks,
  tokenize dc fs text = Some toks -> forall t, In t toks -> ty t = s "STRING" ->
  exists v, strval (Some t) = Returned (Some v).
Proof. intros. apply strval_quoted. eapply string_tokens_quoted_lemma; eauto. Qed.

(* ================================================================== 4. _tokensupto2 (Upto.v, C04's model)
   the two facts C01 needs: the run and the rest partition the generator's tokens, the start
   token heads the run.  (C04 proves the strong statements in UptoFacts.v.)                       *)
Lemma c01_upto_loop_partition md : forall c ts run rest,
  upto_loop md c ts = (run, rest) -> run ++ rest = ts.
Proof.
  intros c ts; revert c. induction ts as [|t r IH]; intros c run rest H; cbn [upto_loop] in H.
  - injection H as <- <-. reflexivity.
  - destruct (is_eof t); [injection H as <- <-; reflexivity|].
    destruct (stops md (bump c t) t); [injection H as <- <-; reflexivity|].
    destruct (upto_loop md (bump c t) r) as [run' rest'] eqn:E. injection H as <- <-.
    cbn [app]. f_equal. eapply IH; eauto.
Qed.

Lemma c01_upto_start_partition fl t r run rest :
  upto fl (Some t) r = (run, rest) -> exists run', run = t :: run' /\ run' ++ rest = r.
Proof.
  unfold upto, upto_md. destruct (upto_loop _ _ r) as [run' rest'] eqn:E. intros H. injection H as <- <-.
  exists run'. split; [reflexivity|]. eapply c01_upto_loop_partition; eauto.
Qed.

(* ================================================================== 5. the @charset handler *)
Definition tokinv (t : tok) : Prop := ty t = s "STRING" -> quoted (val t).

Lemma charset_rule_total_lemma : forall ts, Forall tokinv ts -> exists r, charset_rule ts = Returned r.
Proof.
  intros ts Hall. unfold charset_rule, charset_rule_gen.
  destruct ts as [|t1 r1]; cbn [nexttoken].
  - cbn [typ_is bind]. eauto.
  - destruct r1 as [|enct r2]; cbn [nexttoken].
    + cbn [typ_is bind]. eauto.
    + cbn [typ_is]. destruct (eqs (ty enct) (s "STRING")) eqn:E.
      * apply eqs_spec in E. inversion Hall as [|? ? _ Hr]; subst. inversion Hr as [|? ? He _]; subst.
        destruct (strval_quoted enct (He E)) as [v Hv]. rewrite Hv. cbn [bind].
        destruct (nexttoken r2) as [semi r3]. destruct (nexttoken r3) as [eoft r4]. eauto.
      * cbn [bind]. destruct (nexttoken r2) as [semi r3]. destruct (nexttoken r3) as [eoft r4]. eauto.
Qed.

(* the pinned code: '@charset ' alone -- the EOF token has an empty value *)
Lemma charset_rule_pinned_refuted_lemma :
  exists toks, tokenize true true (s "@charset ") = Some toks /\
               (forall t, In t toks -> tokinv t) /\
               charset_rule_pinned toks = Raised IndexError.
Proof.
  eexists. split; [vm_compute; reflexivity|]. split.
  - intros t [<-|[<-|[]]]; intros H; vm_compute in H; discriminate.
  - vm_compute. reflexivity.
Qed.

(* ================================================================== 6. colour function arguments *)
Section ColorFacts.
  Variable A : Type.
  Variable hls : A -> A -> A -> list A.
  Variable one : A.
  Hypothesis hls_three : forall h l sa, length (hls h l sa) = 3.

  (* "under the arities the colour productions accept": at most four components *)
  Lemma color_fn_total_lemma : forall f raw, length raw <= 4 ->
    exists r, color_fn A hls one f raw = Returned r.
  Proof.
    intros f raw Hlen. unfold color_fn, color_fn_gen.
    destruct raw as [|a [|b [|c [|d [|e rest]]]]]; cbn [length Nat.ltb Nat.leb andb]; eauto.
    - destruct (is_hsl f); cbn [bind].
      + pose proof (hls_three a c b) as H3. destruct (hls a c b) as [|x [|y [|z [|w l]]]]; try discriminate.
        cbn [app length Nat.ltb Nat.leb]. eauto.
      + cbn [app length Nat.ltb Nat.leb]. eauto.
    - destruct (is_hsl f); cbn [bind].
      + pose proof (hls_three a c b) as H3. destruct (hls a c b) as [|x [|y [|z [|w l]]]]; try discriminate.
        cbn [app length Nat.ltb Nat.leb]. eauto.
      + cbn [app length Nat.ltb Nat.leb]. eauto.
    - cbn [length] in Hlen. lia.
  Qed.
End ColorFacts.

Lemma color_fn_pinned_refuted_lemma :
  color_fn_pinned nat (fun _ _ _ => [0; 0; 0]) 1 Hsl [50; 50] = Raised IndexError /\
  color_fn_pinned nat (fun _ _ _ => [0; 0; 0]) 1 Rgb [1; 2] = Raised ValueError.
Proof. split; reflexivity. Qed.

(* ================================================================== 7. _parse *)
Section ParseFacts.
  Variable St : Type.
  Variable expects_eof : St -> bool.
  Variable set_eof : St -> St.
  Variable flag : St -> St.
  Variable add_unknown : St -> list tok -> St.
  Variable add_comment : St -> tok -> St.

  (* a callback returns, and leaves a suffix of the generator it was given *)
  Definition handler_ok (h : handler St) : Prop :=
    forall st t r, tokinv t -> Forall tokinv r ->
      exists st' r' pre, h st t r = Returned (st', r') /\ r = pre ++ r'.

  Notation dflts := (defaults St expects_eof set_eof flag add_unknown add_comment).
  Notation ploop := (parse_loop St expects_eof set_eof flag add_unknown add_comment).

  Lemma defaults_ok name h : dflts true name = Some h -> handler_ok h.
  Proof.
    unfold defaults. intros H.
    destruct (eqs name (s "ATKEYWORD")).
    { injection H as <-. intros st t r _ _. unfold default_atkeyword.
      destruct (negb (expects_eof st)).
      - destruct (upto FDefault (Some t) r) as [run rest] eqn:E.
        apply c01_upto_start_partition in E as (run' & -> & <-). eauto.
      - exists (flag st), r, []. split; reflexivity. }
    destruct (eqs name (s "COMMENT")).
    { injection H as <-. intros st t r _ _. unfold default_comment. cbn [negb]. rewrite andb_false_r.
      eexists _, r, []. split; reflexivity. }
    destruct (eqs name (s "S")).
    { injection H as <-. intros st t r _ _. unfold default_s. cbn [negb]. rewrite andb_false_r.
      eexists _, r, []. split; reflexivity. }
    destruct (eqs name (s "EOF")); [|discriminate].
    injection H as <-. intros st t r _ _. exists (set_eof st), r, []. split; reflexivity.
  Qed.

  Lemma parse_loop_total_lemma prods dflt :
    (forall name h, prods name = Some h -> handler_ok h) ->
    (forall h, dflt = Some h -> handler_ok h) ->
    forall fuel st ts, length ts <= fuel -> Forall tokinv ts ->
      exists st', ploop fuel true prods dflt st ts = Returned st'.
  Proof.
    intros Hp Hd fuel. induction fuel as [|f IH]; intros st ts Hlen Hall.
    - destruct ts; [cbn; eauto|cbn [length] in Hlen; lia].
    - destruct ts as [|t r]; [cbn; eauto|]. cbn [parse_loop].
      inversion Hall as [|? ? Ht Hr]; subst. cbn [length] in Hlen.
      destruct (lookup St expects_eof set_eof flag add_unknown add_comment true prods dflt (ty t)) as [h|] eqn:El.
      + assert (Hok : handler_ok h).
        { unfold lookup in El. destruct (prods (ty t)) as [h1|] eqn:E1.
          - injection El as <-. eapply Hp; eauto.
          - destruct (dflts true (ty t)) as [h2|] eqn:E2.
            + injection El as <-. eapply defaults_ok; eauto.
            + apply Hd; exact El. }
        destruct (Hok st t r Ht Hr) as (st' & r' & pre & Hh & Hpre). rewrite Hh. cbn [bind].
        apply IH.
        * subst r. rewrite app_length in Hlen. lia.
        * subst r. apply Forall_app in Hr as [_ Hr']. exact Hr'.
      + apply IH; [lia|exact Hr].
  Qed.

  (* the pinned default handler: an at-keyword after the expected end, caller passed no dict *)
  Lemma default_atkeyword_pinned_raises st t r :
    expects_eof st = true ->
    default_atkeyword St expects_eof flag add_unknown false st t r = Raised TypeError.
  Proof. intros H. unfold default_atkeyword. rewrite H. reflexivity. Qed.

  (* ---- top level *)
  Variable charset_commit : St -> charset_result -> St.
  Variable sheet_others : str -> option (handler St).
  Variable sheet_default : handler St.
  Variable style_prods : str -> option (handler St).
  Variable style_default : handler St.
  Variable st0 : St.

  Lemma charsetrule_ok : handler_ok (charsetrule St charset_commit true).
  Proof.
    intros st t r Ht Hr. unfold charsetrule.
    destruct (upto FDefault (Some t) r) as [run rest] eqn:E.
    apply c01_upto_start_partition in E as (run' & -> & <-).
    apply Forall_app in Hr as [Hrun _].
    destruct (charset_rule_total_lemma (t :: run')) as [res Hres]; [constructor; assumption|].
    fold charset_rule. rewrite Hres. cbn [bind]. eauto.
  Qed.

  (* the unmodelled callbacks: every rule handler of the sheet parser (importrule,
     namespacerule, fontfacerule, mediarule, pagerule, variablesrule, unknownrule, ruleset, CDO/CDC)
     and of the declaration parser (ident, char, unexpected) returns, and leaves a suffix of
     the token generator -- validated end to end by the malformed stream of harness/props/c01.py *)
  Definition handlers_total : Prop :=
    (forall name h, sheet_others name = Some h -> handler_ok h) /\ handler_ok sheet_default /\
    (forall name h, style_prods name = Some h -> handler_ok h) /\ handler_ok style_default.

  Notation poutcome := (parse_outcome St expects_eof set_eof flag add_unknown add_comment charset_commit
                                      sheet_others sheet_default style_prods style_default st0).

  (* F (kept visible):  for the real callbacks,  forall api dc text, exists st, parse_outcome api dc text = Returned st *)
  Definition parse_never_raises_statement : Prop :=
    forall api dc text, exists st, poutcome api dc text = Returned st.

  Theorem parse_never_raises_partial_lemma : handlers_total -> parse_never_raises_statement.
  Proof.
    intros (Hso & Hsd & Hyp & Hyd) api dc text. unfold parse_outcome, parse_outcome_gen.
    destruct (tokenize_total_lemma dc api text) as [toks Htk]. rewrite Htk.
    assert (Hall : Forall tokinv toks).
    { apply Forall_forall. intros t Ht Hty. eapply string_tokens_quoted_lemma; eauto. }
    destruct api.
    - apply parse_loop_total_lemma; auto.
      + intros name h. unfold sheet_prods. destruct (eqs name charset_sym).
        * intros H; injection H as <-. apply charsetrule_ok.
        * apply Hso.
      + intros h H; injection H as <-. exact Hsd.
    - apply parse_loop_total_lemma; auto.
      intros h H; injection H as <-. exact Hyd.
  Qed.
End ParseFacts.

(* the pinned code violates the statement even when every unmodelled callback is total:
   an instance with no other callbacks at all, text '@charset '                              *)
Lemma parse_never_raises_pinned_refuted_lemma :
  parse_outcome_pinned unit (fun _ => false) (fun x => x) (fun x => x) (fun x _ => x) (fun x _ => x)
                       (fun x _ => x) (fun _ => None) (fun st _ r => Returned (st, r))
                       (fun _ => None) (fun st _ r => Returned (st, r)) tt
                       true true (s "@charset ") = Raised IndexError.
Proof. vm_compute. reflexivity. Qed.

(* non-vacuity of handlers_total and of the theorem: the same instance, repaired code *)
Example parse_outcome_example :
  parse_outcome unit (fun _ => false) (fun x => x) (fun x => x) (fun x _ => x) (fun x _ => x)
                (fun x _ => x) (fun _ => None) (fun st _ r => Returned (st, r))
                (fun _ => None) (fun st _ r => Returned (st, r)) tt
                true true (s "@charset ") = Returned tt.
Proof. vm_compute. reflexivity. Qed.

Example handlers_total_example :
  handlers_total unit (fun _ => None) (fun st _ r => Returned (st, r)) (fun _ => None) (fun st _ r => Returned (st, r)).
Proof.
  unfold handlers_total. repeat split; try discriminate;
    intros st t r _ _; exists st, r, []; split; reflexivity.
Qed.

Example string_token_example :
  option_map (map (fun t => (ty t, val t))) (tokenize true true (s "a{b:""x\22 "))
  = Some [(s "IDENT", s "a"); (s "CHAR", s "{"); (s "IDENT", s "b"); (s "CHAR", s ":");
          (s "STRING", [34; 120; 34; 34]%N); (s "EOF", [])].
Proof. vm_compute. reflexivity. Qed.

(* ================================================================== 8. the number of tokens is linear
   (what IS provable about the time clause on the model: the tokenizer loop runs at most once
   per character, so at most length text + 2 tokens -- the +2: the EOF token and a zero-width BOM) *)
Lemma loop_count fuel : forall dc fs prev rest l c toks,
  loop fuel dc fs prev rest l c = Some toks -> length toks <= length rest + 1.
Proof.
  induction fuel as [|fu IH]; intros dc fs prev rest l c toks H.
  - destruct rest; [|discriminate]. cbn [loop] in H. injection H as <-. destruct fs; cbn; lia.
  - destruct rest as [|ch rest1].
    { cbn [loop] in H. injection H as <-. destruct fs; cbn; lia. }
    cbn [loop] in H. destruct (mem ch fastchars).
    + destruct (loop fu dc fs (Some ch) rest1 l (c + 1)) as [ts|] eqn:E; [|discriminate].
      cbn [option_map] in H. injection H as <-. apply IH in E. cbn [length]. lia.
    + destruct (try_prods productions dc fs prev (ch :: rest1)) as [[name found pu]|] eqn:E; [|discriminate].
      destruct pu.
      * destruct (finish_token name found (skipn (length found) (ch :: rest1))) as [[name' found'] value] eqn:Ef.
        destruct (upd_pos l c found') as [l' c'].
        destruct (loop fu dc fs (last_opt prev found') (skipn (length found') (ch :: rest1)) l' c') as [ts|] eqn:El;
          [|discriminate].
        cbn [option_map] in H. injection H as <-.
        apply try_prods_shape in E as [Hs _]; [|discriminate|apply prods_nonnullable]. specialize (Hs eq_refl).
        pose proof (finish_token_shape _ _ _ _ _ _ _ Hs Ef) as Hs'.
        assert (Hne : ch :: rest1 <> []) by discriminate.
        pose proof (fshape_progress _ _ _ Hne Hs') as Hp. apply IH in El.
        match goal with |- context[if ?b then _ else _] => destruct b end; cbn [length] in *; lia.
      * injection H as <-. destruct fs; cbn [length]; lia.
Qed.

Theorem tokenize_token_count_lemma : forall dc fs text toks,
  tokenize dc fs text = Some toks -> length toks <= length text + 2.
Proof.
  intros dc fs text toks H.
  apply tokenize_split in H as (bom & cs & rest1 & prev1 & c1 & ts & -> & Hb & Ht & _ & Hcs & Hl).
  apply loop_count in Hl. rewrite Ht, !app_length.
  assert (Hbl : length bom <= 1) by (destruct Hb as [->|(b & -> & _)]; cbn; lia).
  assert (Hcl : length cs <= length (concat (map raw cs))) by (destruct Hcs as [[-> _]|[-> _]]; cbn; lia).
  lia.
Qed.
