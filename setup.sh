#!/bin/bash
# offline build of the whole framework: regenerate Gen/*.v from /repo, full .vo build, OCaml drivers
cd "$(dirname "$0")"
export PYTHONPATH="${VERIF_REPO:-/repo}/src:$PWD" PYTHONHASHSEED=0 CSS_PARSER_VERIF=1 PYTHONDONTWRITEBYTECODE=1
exec /venv/bin/python -m harness.setup
