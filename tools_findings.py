"""merges known_findings.d/*.json into the single committed known_findings.json (the file the checks read);
the fragments stay as the per-property source the builders edit, lib.load_findings prefers the main file and
adds fragment entries whose id is missing there, so run this after any fragment edit"""
import json, glob
main = json.load(open('/verif/known_findings.json'))['findings']
own = [f for f in main if f['property'] == 'C08']          # the maintainer's own entries live in the main file
out, seen = [], set()
for f in own:
    out.append(f); seen.add(f['id'])
for p in sorted(glob.glob('/verif/known_findings.d/*.json')):
    for f in json.load(open(p))['findings']:
        if f['id'] in seen:
            continue
        seen.add(f['id']); out.append(f)
for f in out:
    if f.get('status') == 'fixed':
        f['line'] = 'fixed: property=%s %s %s' % (f['property'], f.get('commit', '?'), ' '.join(str(f.get('what', '')).split()))
out.sort(key=lambda f: (f['property'], f.get('status') != 'open', f['id']))
json.dump({'findings': out}, open('/verif/known_findings.json', 'w'), indent=1, ensure_ascii=False)
print(len(out), 'entries;', sum(1 for f in out if f.get('status') == 'open'), 'open;',
      sum(1 for f in out if f.get('status') == 'fixed'), 'fixed')
bad = [f['id'] for f in out if f.get('status') == 'open' and not (f.get('signature') and 'witness' in f)]
print('open entries without signature/witness:', bad)
