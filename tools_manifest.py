"""regenerates MANIFEST.json from harness/manifest_data.py (kept valid at all times)"""
import json, sys
sys.path.insert(0, '/verif')
from harness.manifest_data import CHECKS, NOT_APPLICABLE
props = [json.loads(l) for l in open('/verif/properties.jsonl')]
ids = [p['id'] for p in props]
checks = []
for pid in ids:
    if pid in CHECKS:
        c = CHECKS[pid]
        checks.append({
            "property_id": pid,
            "quick_cmd": "./check %s --tier quick" % pid,
            "thorough_cmd": "./check %s --tier thorough" % pid,
            "evidence_file": "/verif/evidence/%s.json" % pid,
            "replay_cmd_template": "./check %s --replay {path}" % pid,
            "engine": "coq-model+correspondence",
            "level_claimed": {"category": "proof", "text": c["text"], "design_ref": c.get("design_ref", "DESIGN.md section 6, " + pid)},
            "level_note": c["note"],
            "technique": c["technique"],
        })
na = [{"property_id": pid, "reason": NOT_APPLICABLE.get(pid, "check not built yet in this round; planned (DESIGN.md section 6)")}
      for pid in ids if pid not in CHECKS]
m = {
    "version": 1,
    "setup_cmd": "./setup.sh",
    "hooks": {"guard": "CSS_PARSER_VERIF", "enable": "export CSS_PARSER_VERIF=1 (done by ./check); no source hooks exist",
              "baseline_off_cmd": "cd /repo && env -u CSS_PARSER_VERIF /venv/bin/python -m pytest -ra -q -p no:cacheprovider --timeout=900 --continue-on-collection-errors",
              "source_commits": [], "add_only": True},
    "engines": [{"name": "coq-model+correspondence", "path": "/verif/check",
                 "serves_properties": [c["property_id"] for c in checks],
                 "kind_free_text": "Coq 8.16.1 models + theorems (coq/), translator-regenerated tables (translate/), extracted OCaml models run against the implementation (harness/)"},
                {"name": "prodparser-engine", "path": "/verif/check PP",
                 "serves_properties": ["C01", "C02", "C03", "C05", "C06", "C10"],
                 "kind_free_text": "auxiliary engine, not a property check: Coq interpreter model of css_parser.prodparser (ProdParser.parse, Sequence/Choice/Prod, stash) with the media/value production trees regenerated as data (translate/prodtrees.py), engine theorems in coq/props/PP.v (pparse_total, pparse_never_crashes, pparse_stash_discipline, media_query_accepts, media_list_spec, value_grammar_faithful_simple ...) and its own correspondence (`./check PP`, evidence/PP.json); exports bridge lemmas for hypotheses of C01/C02/C05/C06 (design_notes/PP.md)"}],
    "checks": checks,
    "not_applicable": na,
    "notes": "See DESIGN.md and CONVENTIONS.md. Every check regenerates Gen/*.v from /repo, rebuilds its Coq cone (full .vo), runs the correspondence and the property-level oracle against /repo's working tree.",
}
json.dump(m, open('/verif/MANIFEST.json', 'w'), indent=1)
print(len(checks), "checks;", len(na), "not claimed")
