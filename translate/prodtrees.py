"""prodparser.py (PreDef, Prod) / stylesheets/mediaquery.py / stylesheets/medialist.py / css/value.py
     ->  Gen/ProdTrees.v   (the production trees of the twelve grammars as CssV.ProdParser.ptree data)

Fail-closed symbolic evaluation of the *source AST* of the expressions that build the production objects
(Sequence(...) / Choice(...) / Prod(...) / PreDef.x(...) / the _XProd helpers of value.py).  Only the shapes
listed in `Ev.mcode`, `Ev.acode`, `Ev.call` are understood; everything else raises Refused with the grammar,
the path of productions and the source line.  Global names are resolved through the imported module (so the
interpreter decides what `normalize` or `Prod` is) and compared by identity with the objects the model knows.

After the symbolic pass the real classes are instantiated with ProdParser.parse replaced by a recorder, and the
real production objects are walked in parallel with the symbolic trees (structure, flags, names, store keys;
match / toSeq callbacks are additionally run on a sample of tokens).  Any difference refuses as well.

    python translate/prodtrees.py [--check]      --check: do everything but write no file
Writes Gen/ProdTrees.v and build/prodtrees.json {"gids": {...}, "refused": []}; on refusal (exit 2) the .v file is
left untouched and the sidecar carries the message in "refused".
"""
import ast
import json
import re
import sys
import types as pytypes
from pathlib import Path

from translate.common import Refused, emit, src, REPO, VERIF
from translate.regexlib import coq_str

HEXRE = r'^\#(?:[0-9abcdefABCDEF]{3}|[0-9abcdefABCDEF]{6})\Z'
PROD_PARAMS = ['self', 'name', 'match', 'optional', 'toSeq', 'toStore', 'stop', 'stopAndKeep',
               'stopIfNoMoreMatch', 'nextSor', 'mayEnd', 'storeToken', 'exception']
PARSE_PARAMS = ['self', 'text', 'name', 'productions', 'keepS', 'checkS', 'store', 'emptyOk', 'debug']

#            key (tree_<key>)     module        class            method           partof  post
GRAMMARS = [("MediaList",         "medialist",  "MediaList",     "_setMediaText", None,   "PostML"),
            ("MediaQuery",        "mediaquery", "MediaQuery",    "_setMediaText", False,  "PostMQ"),
            ("MediaQuery_partof", "mediaquery", "MediaQuery",    "_setMediaText", True,   "PostMQ"),
            ("PropertyValue",     "value",      "PropertyValue", "_setCssText",   None,   "PostPV"),
            ("Value",             "value",      "Value",         "_setCssText",   None,   "PostFirst"),
            ("ColorValue",        "value",      "ColorValue",    "_setCssText",   None,   "PostColor"),
            ("DimensionValue",    "value",      "DimensionValue", "_setCssText",  None,   "PostDim"),
            ("URIValue",          "value",      "URIValue",      "_setCssText",   None,   "PostFirst"),
            ("CSSFunction",       "value",      "CSSFunction",   "_setCssText",   None,   "PostOk"),
            ("MSValue",           "value",      "MSValue",       "_setCssText",   None,   "PostOk"),
            ("CSSCalc",           "value",      "CSSCalc",       "_setCssText",   None,   "PostOk"),
            ("CSSVariable",       "value",      "CSSVariable",   "_setCssText",   None,   "PostVar")]
GID = {g[0]: i for i, g in enumerate(GRAMMARS)}
MODFILES = {"prodparser": ("prodparser.py", "css_parser.prodparser"),
            "mediaquery": ("stylesheets/mediaquery.py", "css_parser.stylesheets.mediaquery"),
            "medialist": ("stylesheets/medialist.py", "css_parser.stylesheets.medialist"),
            "value": ("css/value.py", "css_parser.css.value")}


# ---------------------------------------------------------------------------------------------- values
class Mod:
    def __init__(self, key, rel, tree, rt):
        self.key, self.rel, self.tree, self.rt = key, rel, tree, rt


class Marker:
    """an object of the library the evaluator knows by identity"""
    def __init__(self, kind, arg=None):
        self.kind, self.arg = kind, arg

    def __repr__(self):
        return "<%s%s>" % (self.kind, "" if self.arg is None else " " + str(self.arg))


class SelfV:
    """`self` of the method under translation (also what the helpers receive as `parent`)"""
    def __init__(self, mod, clsname, partof):
        self.mod, self.clsname, self.partof = mod, clsname, partof
        self.rtcls = getattr(mod.rt, clsname)


class StrList:
    def __init__(self, items):
        self.items = items


class FuncV:                      # module-level function / PreDef staticmethod / method: evaluated by inlining
    def __init__(self, mod, fn, selfv=None, label=None):
        self.mod, self.fn, self.selfv, self.label = mod, fn, selfv, label or fn.name


class Closure:                    # lambda or local def, with the frame it was created in
    def __init__(self, node, frame):
        self.node, self.frame = node, frame


class Unknown:
    def __init__(self, desc):
        self.desc = desc


class PNode:
    def __init__(self, kind, **kw):
        self.kind = kind
        self.__dict__.update(kw)


def topt(t):
    if t.kind == "prod":
        return t.opt
    if t.kind == "seq":
        return t.lo == 0
    return t.oopt if t.oopt is not None else any(topt(c) for c in t.kids)


# ---------------------------------------------------------------------------------------------- scopes
def iter_scope(body):
    """nodes of a function body that belong to the function's own scope"""
    stack = list(reversed(body))
    while stack:
        n = stack.pop()
        yield n
        if isinstance(n, (ast.FunctionDef, ast.AsyncFunctionDef, ast.ClassDef, ast.Lambda)):
            continue
        stack.extend(reversed(list(ast.iter_child_nodes(n))))


def strip_doc(body):
    if body and isinstance(body[0], ast.Expr) and isinstance(body[0].value, ast.Constant) \
            and isinstance(body[0].value.value, str):
        return body[1:]
    return body


class Frame:
    def __init__(self, ev, mod, fn, params, parent, limit):
        self.mod, self.fn, self.params, self.parent, self.limit = mod, fn, params, parent, limit
        self.counts, self.binds, self.cache = {}, {}, {}
        if fn is None:
            return
        for n in iter_scope(fn.body):
            if isinstance(n, (ast.Global, ast.Nonlocal)):
                ev.refuse(n, "global/nonlocal statement in %s" % fn.name)
            names = []
            if isinstance(n, ast.Name) and isinstance(n.ctx, (ast.Store, ast.Del)):
                names = [n.id]
            elif isinstance(n, (ast.FunctionDef, ast.AsyncFunctionDef, ast.ClassDef)):
                names = [n.name]
            elif isinstance(n, (ast.Import, ast.ImportFrom)):
                names = [(a.asname or a.name).split(".")[0] for a in n.names]
            elif isinstance(n, ast.ExceptHandler) and n.name:
                names = [n.name]
            elif isinstance(n, (ast.MatchAs, ast.MatchStar)) and n.name:
                names = [n.name]
            for x in names:
                self.counts[x] = self.counts.get(x, 0) + 1
        for x in params:
            self.counts[x] = self.counts.get(x, 0) + 1
        for i, st in enumerate(fn.body):
            if isinstance(st, ast.Assign) and len(st.targets) == 1 and isinstance(st.targets[0], ast.Name):
                self.binds[st.targets[0].id] = (i, st)
            elif isinstance(st, ast.FunctionDef):
                self.binds[st.name] = (i, st)


# ---------------------------------------------------------------------------------------------- evaluator
class Ev:
    def __init__(self):
        import css_parser
        import css_parser.prodparser as PP
        import css_parser.helper as H
        import css_parser.cssproductions as CP
        import css_parser.css.colors as COL
        import css_parser.css.value as V
        import css_parser.stylesheets.mediaquery as MQ
        import css_parser.stylesheets.medialist as ML
        self.PP, self.H, self.CP, self.COL, self.V, self.MQ, self.ML = PP, H, CP, COL, V, MQ, ML
        self.mods = {}
        for key, (rel, modname) in MODFILES.items():
            rt = sys.modules[modname]
            want = (REPO / "src" / "css_parser" / rel).resolve()
            if Path(rt.__file__).resolve() != want:
                raise Refused("imported %s is %s, not %s (PYTHONPATH does not point at the translated tree)"
                              % (modname, rt.__file__, want))
            self.mods[key] = Mod(key, rel, ast.parse(src(rel)), rt)
        self.ctx = []            # [(label, lineno, relfile)]
        self.grammar = None
        self.used_color_keys = False
        self.classes = {}        # runtime class -> (modkey, clsname)
        for key, modkey, clsname, _m, _p, _post in GRAMMARS:
            self.classes[getattr(self.mods[modkey].rt, clsname)] = (modkey, clsname)
        self.known = {
            id(PP.Prod): Marker("Prod"), id(PP.Sequence): Marker("Sequence"), id(PP.Choice): Marker("Choice"),
            id(PP.PreDef): Marker("PreDef"), id(PP.ProdParser): Marker("ProdParser"),
            id(H.normalize): Marker("fn", "normalize"), id(H.pushtoken): Marker("fn", "pushtoken"),
            id(H.stringvalue): Marker("fn", "stringvalue"), id(H.urivalue): Marker("fn", "urivalue"),
            id(CP.CSSProductions): Marker("types"), id(COL.COLORS): Marker("colors"),
        }
        self.check_static()

    # ------------------------------------------------------------------ refusal with context
    def where(self, node, mod=None):
        path = " > ".join(c[0] for c in self.ctx) or "-"
        line = getattr(node, "lineno", None)
        rel = mod.rel if mod is not None else (self.ctx[-1][2] if self.ctx else "?")
        return "grammar %s: production %s (%s:%s)" % (self.grammar or "-", path, rel, line if line else "?")

    def refuse(self, node, msg, mod=None):
        raise Refused("%s: %s" % (self.where(node, mod), msg))

    class _Ctx:
        def __init__(self, ev, label, node, mod):
            self.ev, self.item = ev, (label, getattr(node, "lineno", 0), mod.rel)

        def __enter__(self):
            self.ev.ctx.append(self.item)

        def __exit__(self, et, e, tb):
            self.ev.ctx.pop()          # a Refused message was built from the full stack before unwinding
            return False

    def inctx(self, label, node, mod):
        return Ev._Ctx(self, label, node, mod)

    # ------------------------------------------------------------------ static facts checked once
    def check_static(self):
        PP, V = self.PP, self.V
        pm = self.mods["prodparser"]
        # signature and defaults of Prod.__init__
        init = self.find(pm, ["Prod", "__init__"])
        self.prod_defaults = self.signature(pm, init, PROD_PARAMS, "Prod.__init__")
        parse = self.find(pm, ["ProdParser", "parse"])
        self.parse_defaults = self.signature(pm, parse, PARSE_PARAMS, "ProdParser.parse")
        ppinit = self.find(pm, ["ProdParser", "__init__"])
        self.signature(pm, ppinit, ["self", "clear"], "ProdParser.__init__")
        # the two reHexcolor patterns, in the source and in the running interpreter
        pre = [st for st in self.find(pm, ["PreDef"]).body if isinstance(st, ast.Assign)
               and any(isinstance(t, ast.Name) and t.id == "reHexcolor" for t in st.targets)]
        vre = [st for st in self.mods["value"].tree.body if isinstance(st, ast.Assign)
               and any(isinstance(t, ast.Name) and t.id == "reHexcolor" for t in st.targets)]
        for what, sts, obj, mod in (("PreDef.reHexcolor", pre, PP.PreDef.reHexcolor, pm),
                                    ("value.reHexcolor", vre, V.reHexcolor, self.mods["value"])):
            if len(sts) != 1:
                raise Refused("%s: expected exactly one assignment in %s, found %d" % (what, mod.rel, len(sts)))
            c = sts[0].value
            ok = (isinstance(c, ast.Call) and isinstance(c.func, ast.Attribute) and c.func.attr == "compile"
                  and isinstance(c.func.value, ast.Name) and c.func.value.id == "re" and len(c.args) == 1
                  and not c.keywords and isinstance(c.args[0], ast.Constant) and c.args[0].value == HEXRE)
            if not ok or not isinstance(obj, re.Pattern) or obj.pattern != HEXRE or obj.flags != re.UNICODE:
                raise Refused("%s (%s:%d) is not re.compile(%r): MHexRe does not model it"
                              % (what, mod.rel, sts[0].lineno, HEXRE))
        if getattr(pm.rt, "re", None) is not re or getattr(self.mods["value"].rt, "re", None) is not re:
            raise Refused("`re` is not the re module")
        self.hexre_ids = {id(PP.PreDef.reHexcolor), id(V.reHexcolor)}
        # value.as_list must be the identity-or-list() helper
        fn = self.find(self.mods["value"], ["as_list"])
        want = ast.parse("def as_list(p):\n    if isinstance(p, list):\n        return p\n    return list(p)\n").body[0]
        if ast.dump(fn) != ast.dump(want):
            raise Refused("value.as_list (css/value.py:%d) is not the expected list() helper" % fn.lineno)
        self.known[id(V.as_list)] = Marker("fn", "as_list")
        if PP.PreDef.types is not self.CP.CSSProductions:
            raise Refused("PreDef.types is not CSSProductions")
        import css_parser
        self.known[id(css_parser.css.CSSComment)] = Marker("cls_opaque", "CSSComment")
        self.known[id(css_parser.css.CSSUnknownRule)] = Marker("cls_opaque", "CSSUnknownRule")

    def find(self, mod, path):
        node = mod.tree
        for name in path:
            hits = [n for n in node.body if isinstance(n, (ast.FunctionDef, ast.ClassDef)) and n.name == name]
            if len(hits) != 1:
                raise Refused("expected exactly one definition of %s in %s, found %d"
                              % (".".join(path), mod.rel, len(hits)))
            node = hits[0]
        return node

    def signature(self, mod, fn, names, what):
        a = fn.args
        if a.vararg or a.kwarg or a.kwonlyargs or a.posonlyargs or [x.arg for x in a.args] != names:
            raise Refused("%s (%s:%d): unexpected signature" % (what, mod.rel, fn.lineno))
        if fn.decorator_list:
            raise Refused("%s (%s:%d): decorated" % (what, mod.rel, fn.lineno))
        out = {}
        for arg, d in zip(a.args[len(a.args) - len(a.defaults):], a.defaults):
            if not isinstance(d, ast.Constant):
                raise Refused("%s (%s:%d): default of %s is not a constant" % (what, mod.rel, fn.lineno, arg.arg))
            out[arg.arg] = d.value
        return out

    # ------------------------------------------------------------------ names
    def classify(self, obj, desc):
        m = self.known.get(id(obj))
        if m is not None:
            return m
        if id(obj) in self.hexre_ids:
            return Marker("hexre")
        if isinstance(obj, pytypes.ModuleType):
            return Marker("module", obj)
        if isinstance(obj, type) and obj in self.classes:
            return Marker("class", obj)
        if isinstance(obj, pytypes.FunctionType):
            for mod in self.mods.values():
                if obj.__module__ == mod.rt.__name__ and obj.__qualname__ == obj.__name__:
                    hits = [n for n in mod.tree.body if isinstance(n, ast.FunctionDef) and n.name == obj.__name__]
                    if len(hits) == 1 and not hits[0].decorator_list \
                            and hits[0].lineno == obj.__code__.co_firstlineno:
                        return FuncV(mod, hits[0])
        if isinstance(obj, (str, bool, int)) or obj is None:
            return obj
        return Unknown("%s = %r" % (desc, type(obj).__name__))

    def lookup(self, name, frame, node):
        f = frame
        while f is not None:
            if name in f.params:
                if f.counts.get(name, 0) != 1:
                    self.refuse(node, "parameter `%s` of %s is reassigned" % (name, f.fn.name))
                return f.params[name]
            if name in f.counts:
                if f.counts[name] != 1 or name not in f.binds:
                    self.refuse(node, "local `%s` is not bound exactly once by a top-level `%s = ...` / def"
                                % (name, name))
                idx, st = f.binds[name]
                if idx >= f.limit:
                    self.refuse(node, "local `%s` is bound (line %d) after its use" % (name, st.lineno))
                if name not in f.cache:
                    if isinstance(st, ast.FunctionDef):
                        if st.decorator_list:
                            self.refuse(st, "decorated local function `%s`" % name)
                        f.cache[name] = Closure(st, f)
                    else:
                        old, f.limit = f.limit, idx
                        try:
                            with self.inctx(name, st, f.mod):
                                f.cache[name] = self.eval(st.value, f)
                        finally:
                            f.limit = old
                return f.cache[name]
            f = f.parent
        mod = frame.mod
        if not hasattr(mod.rt, name):
            self.refuse(node, "name `%s` is not a module-level name of %s" % (name, mod.rel))
        return self.classify(getattr(mod.rt, name), name)

    # ------------------------------------------------------------------ expressions
    def eval(self, node, frame):
        if isinstance(node, ast.Constant):
            if node.value is None or isinstance(node.value, (str, bool, int)):
                return node.value
            self.refuse(node, "constant %r" % (node.value,))
        if isinstance(node, ast.Name):
            return self.lookup(node.id, frame, node)
        if isinstance(node, ast.Lambda):
            return Closure(node, frame)
        if isinstance(node, ast.Attribute):
            return self.attr(self.eval(node.value, frame), node.attr, node)
        if isinstance(node, ast.Call):
            return self.call(node, frame)
        self.refuse(node, "expression `%s` is not understood" % ast.unparse(node)[:60])

    def attr(self, base, name, node):
        if isinstance(base, Marker):
            if base.kind == "module":
                if not hasattr(base.arg, name):
                    self.refuse(node, "module %s has no attribute %s" % (base.arg.__name__, name))
                return self.classify(getattr(base.arg, name), name)
            if base.kind == "PreDef":
                if name == "types":
                    return Marker("types")
                if name == "reHexcolor":
                    return Marker("hexre")
                pm = self.mods["prodparser"]
                cls = self.find(pm, ["PreDef"])
                hits = [n for n in cls.body if isinstance(n, ast.FunctionDef) and n.name == name]
                if len(hits) != 1:
                    self.refuse(node, "PreDef.%s: expected one definition, found %d" % (name, len(hits)))
                fn = hits[0]
                d = fn.decorator_list
                if len(d) != 1 or not isinstance(d[0], ast.Name) or d[0].id != "staticmethod":
                    self.refuse(node, "PreDef.%s (prodparser.py:%d) is not a plain @staticmethod" % (name, fn.lineno))
                rtf = self.PP.PreDef.__dict__.get(name)
                if not isinstance(rtf, staticmethod) or rtf.__func__.__code__.co_firstlineno != d[0].lineno:
                    self.refuse(node, "PreDef.%s: source and imported class disagree" % name)
                return FuncV(pm, fn, label="PreDef." + name)
            if base.kind == "types":
                v = getattr(self.CP.CSSProductions, name, None)
                if not isinstance(v, str) or v != name.replace("_", "-"):
                    self.refuse(node, "CSSProductions.%s is %r, not the token type name %r"
                                % (name, v, name.replace("_", "-")))
                return v
            if base.kind == "class":
                cls = base.arg
                if name == "_functionName":
                    return self.class_const(cls, name, node)
                if name == "COLORS" and getattr(cls, "COLORS", None) is self.COL.COLORS:
                    return Marker("colors")
            if base.kind == "colors" and name == "keys":
                return Marker("colors.keys")
            if base.kind == "hexre" and name == "match":
                return Marker("hexre.match")
        if isinstance(base, SelfV):
            cls = base.rtcls
            if name == "_partof" and base.partof is not None:
                return base.partof
            if name == "_prods" and getattr(cls, "_prods", None) is self.CP.CSSProductions:
                return Marker("types")
            if name == "COLORS" and getattr(cls, "COLORS", None) is self.COL.COLORS:
                return Marker("colors")
            if name == "MEDIA_TYPES":
                return self.media_types(base, node)
            if name == "_productions":
                mod, owner, fn = self.method(base.mod, base.clsname, name, node)
                rt = getattr(cls, name, None)
                if not isinstance(rt, pytypes.FunctionType) or rt.__code__.co_firstlineno != fn.lineno:
                    self.refuse(node, "%s.%s: source and imported class disagree" % (base.clsname, name))
                return FuncV(mod, fn, selfv=base, label="%s.%s" % (owner, name))
            if name == "type":
                return Unknown("self.type")
        self.refuse(node, "attribute `.%s` of %s is not understood" % (name, self.describe(base)))

    def describe(self, v):
        if isinstance(v, SelfV):
            return "self (%s)" % v.clsname
        if isinstance(v, Unknown):
            return v.desc
        if isinstance(v, PNode):
            return "a production"
        if isinstance(v, (Closure, FuncV)):
            return "a function"
        return repr(v)

    def classdef(self, mod, clsname, node):
        hits = [n for n in mod.tree.body if isinstance(n, ast.ClassDef) and n.name == clsname]
        if len(hits) != 1:
            self.refuse(node, "class %s: expected one definition in %s, found %d" % (clsname, mod.rel, len(hits)))
        return hits[0]

    def method(self, mod, clsname, name, node):
        """resolve a method along the single-inheritance chain of classes of the same module (source AST)"""
        seen = 0
        while True:
            cd = self.classdef(mod, clsname, node)
            hits = [n for n in cd.body if isinstance(n, ast.FunctionDef) and n.name == name]
            if len(hits) > 1 or any(h.decorator_list for h in hits):
                self.refuse(node, "%s.%s is defined twice or decorated" % (clsname, name))
            if hits:
                return mod, clsname, hits[0]
            if len(cd.bases) != 1 or not isinstance(cd.bases[0], ast.Name) or seen > 10:
                self.refuse(node, "cannot resolve method %s of class %s in the source" % (name, clsname))
            clsname = cd.bases[0].id
            seen += 1

    def class_const(self, cls, name, node):
        modkey, clsname = self.classes[cls]
        mod = self.mods[modkey]
        cd = self.classdef(mod, clsname, node)
        sts = [st for st in cd.body if isinstance(st, ast.Assign)
               and any(isinstance(t, ast.Name) and t.id == name for t in st.targets)]
        if len(sts) != 1 or not isinstance(sts[0].value, ast.Constant) or not isinstance(sts[0].value.value, str) \
                or cls.__dict__.get(name) != sts[0].value.value:
            self.refuse(node, "%s.%s is not a single string constant of the class body" % (clsname, name))
        return sts[0].value.value

    def media_types(self, selfv, node):
        cd = self.classdef(selfv.mod, selfv.clsname, node)
        sts = [st for st in cd.body if isinstance(st, ast.Assign)
               and any(isinstance(t, ast.Name) and t.id == "MEDIA_TYPES" for t in st.targets)]
        if len(sts) != 1 or not isinstance(sts[0].value, (ast.List, ast.Tuple)) or not all(
                isinstance(e, ast.Constant) and isinstance(e.value, str) for e in sts[0].value.elts):
            self.refuse(node, "%s.MEDIA_TYPES is not one list of string constants" % selfv.clsname)
        items = [e.value for e in sts[0].value.elts]
        if list(selfv.rtcls.MEDIA_TYPES) != items:
            self.refuse(node, "%s.MEDIA_TYPES: source and imported class disagree" % selfv.clsname)
        return StrList(items)

    # ------------------------------------------------------------------ calls
    def call(self, node, frame):
        for a in node.args:
            if isinstance(a, ast.Starred):
                self.refuse(node, "*args in a call")
        for k in node.keywords:
            if k.arg is None:
                self.refuse(node, "**kwargs in a call")
        f = self.eval(node.func, frame)
        if isinstance(f, Marker):
            if f.kind == "Prod":
                return self.mk_prod(node, frame)
            if f.kind == "Sequence":
                return self.mk_seq(node, frame)
            if f.kind == "Choice":
                return self.mk_cho(node, frame)
            if f.kind == "colors.keys" and not node.args and not node.keywords:
                return Marker("colors.keysview")
            if f.kind == "fn" and f.arg == "as_list" and len(node.args) == 1 and not node.keywords:
                a = self.eval(node.args[0], frame)
                if isinstance(a, Marker) and a.kind == "colors.keysview":
                    self.used_color_keys = True
                    return Marker("color_keys")
                if isinstance(a, StrList):
                    return a
        if isinstance(f, (FuncV, Closure)):
            args = [self.eval(a, frame) for a in node.args]
            kw = {}
            for k in node.keywords:
                if k.arg in kw:
                    self.refuse(node, "keyword %s repeated" % k.arg)
                kw[k.arg] = self.eval(k.value, frame)
            return self.apply(f, args, kw, node, frame.mod)
        self.refuse(node, "call of %s is not understood" % self.describe(f))

    def apply(self, f, args, kw, node, callmod):
        if isinstance(f, FuncV):
            fn, mod, parent, label = f.fn, f.mod, None, f.label
            if f.selfv is not None:
                args = [f.selfv] + args
        else:
            fn, mod, parent = f.node, f.frame.mod, f.frame
            if isinstance(fn, ast.Lambda):
                self.refuse(node, "call of a lambda as a production")
            label = fn.name + "()"
        with self.inctx(label, node, callmod):
            a = fn.args
            if a.vararg or a.kwarg or a.kwonlyargs or a.posonlyargs:
                self.refuse(fn, "%s has */**/keyword-only parameters" % label, mod)
            names = [x.arg for x in a.args]
            if len(args) > len(names):
                self.refuse(node, "too many arguments for %s" % label)
            params = dict(zip(names, args))
            for k, v in kw.items():
                if k not in names or k in params:
                    self.refuse(node, "unknown or repeated keyword `%s` for %s" % (k, label))
                params[k] = v
            defframe = parent if parent is not None else Frame(self, mod, None, {}, None, 0)
            for arg, d in zip(a.args[len(names) - len(a.defaults):], a.defaults):
                if arg.arg not in params:
                    params[arg.arg] = self.eval(d, defframe)
            for n in names:
                if n not in params:
                    self.refuse(node, "missing argument `%s` of %s" % (n, label))
            body = strip_doc(fn.body)
            if not body or not isinstance(body[-1], ast.Return) or body[-1].value is None:
                self.refuse(fn, "%s does not end in `return <expr>`" % label, mod)
            for st in body[:-1]:
                ok = isinstance(st, ast.FunctionDef) or (
                    isinstance(st, ast.Assign) and len(st.targets) == 1 and isinstance(st.targets[0], ast.Name))
                if not ok:
                    self.refuse(st, "statement `%s` in %s is not a simple binding" % (
                        ast.unparse(st).splitlines()[0][:50], label), mod)
            fr = Frame(self, mod, fn, params, parent, fn.body.index(body[-1]))
            with self.inctx("return", body[-1], mod):
                out = self.eval(body[-1].value, fr)
            self.check_aliasing(fr, body[:-1], mod)
            return out

    def check_aliasing(self, frame, stmts, mod):
        """the inlined locals must not be visible to any statement the evaluator did not interpret
        (an alias or a call could mutate the production objects between construction and parse)"""
        used = {id(frame.binds[n][1]) for n in frame.cache}
        for st in stmts:
            if id(st) in used:
                continue
            for n in ast.walk(st):
                if isinstance(n, ast.Name) and n.id in frame.cache:
                    self.refuse(n, "local `%s` (part of the productions) is also used by the uninterpreted "
                                "statement `%s`" % (n.id, ast.unparse(st).splitlines()[0][:50]), mod)

    def kids(self, node, frame, what):
        out = []
        for i, a in enumerate(node.args):
            v = self.eval(a, frame)
            if not isinstance(v, PNode):
                self.refuse(a, "child %d of %s is %s, not a production" % (i, what, self.describe(v)))
            out.append(v)
        return out

    def mk_seq(self, node, frame):
        with self.inctx("Sequence", node, frame.mod):
            kids = self.kids(node, frame, "Sequence")
            lo, hi = 1, 1
            for k in node.keywords:
                if k.arg != "minmax":
                    self.refuse(node, "Sequence option `%s`" % k.arg)
                lam = k.value
                a = lam.args if isinstance(lam, ast.Lambda) else None
                if a is None or a.args or a.vararg or a.kwarg or a.kwonlyargs or a.posonlyargs \
                        or not isinstance(lam.body, ast.Tuple) or len(lam.body.elts) != 2 \
                        or not all(isinstance(e, ast.Constant) for e in lam.body.elts):
                    self.refuse(k.value, "minmax is not `lambda: (<const>, <const>)`")
                lo, hi = (e.value for e in lam.body.elts)
                if type(lo) is not int or lo < 0 or not (hi is None or (type(hi) is int and hi >= 0)):
                    self.refuse(k.value, "minmax bounds (%r, %r)" % (lo, hi))
            return PNode("seq", kids=kids, lo=lo, hi=hi, line=node.lineno)

    def mk_cho(self, node, frame):
        with self.inctx("Choice", node, frame.mod):
            kids = self.kids(node, frame, "Choice")
            oopt = None
            for k in node.keywords:
                if k.arg != "optional":
                    self.refuse(node, "Choice option `%s`" % k.arg)
                oopt = self.eval(k.value, frame)
                if type(oopt) is not bool:
                    self.refuse(k.value, "Choice optional= is %s, not a bool constant" % self.describe(oopt))
            return PNode("cho", kids=kids, oopt=oopt, line=node.lineno)

    def mk_prod(self, node, frame):
        names = PROD_PARAMS[1:]
        label = "Prod"
        for n, a in list(zip(names, node.args)) + [(k.arg, k.value) for k in node.keywords]:
            if n == "name" and isinstance(a, ast.Constant):
                label = "Prod %r" % (a.value,)
        with self.inctx(label, node, frame.mod):
            raw = {}
            if len(node.args) > len(names):
                self.refuse(node, "too many arguments for Prod")
            for n, a in zip(names, node.args):
                raw[n] = a
            for k in node.keywords:
                if k.arg not in names or k.arg in raw:
                    self.refuse(k.value, "unknown or repeated keyword `%s` of Prod" % k.arg)
                raw[k.arg] = k.value
        with self.inctx(label, node, frame.mod):
            val = {}
            for n in names:
                if n in raw:
                    val[n] = self.eval(raw[n], frame)
                elif n in self.prod_defaults:
                    val[n] = self.prod_defaults[n]
                else:
                    self.refuse(node, "Prod without `%s`" % n)
            if not isinstance(val["name"], str):
                self.refuse(node, "Prod name is %s, not a string constant" % self.describe(val["name"]))
            self.ctx[-1] = ("Prod %r" % val["name"],) + self.ctx[-1][1:]

            def flag(n, strings=False):
                v = val[n]
                if type(v) is bool or v is None or (strings and isinstance(v, str)):
                    return bool(v)
                self.refuse(raw.get(n, node), "%s= is %s, not a bool constant" % (n, self.describe(v)))
            if val["exception"] is not None:
                self.refuse(raw["exception"], "exception= is not modelled")
            st = val["toStore"]
            if not (st is None or (isinstance(st, str) and st)):
                self.refuse(raw.get("toStore", node), "toStore= is %s, not None or a non-empty string constant"
                            % self.describe(st))
            m = val["match"]
            if not isinstance(m, Closure) or not isinstance(m.node, ast.Lambda):
                self.refuse(raw["match"], "match= is %s, not a lambda" % self.describe(m))
            return PNode("prod", name=val["name"], mcode=self.mcode_of(m), opt=flag("optional"),
                         acode=self.acode_of(val["toSeq"], raw.get("toSeq", node)), store=st,
                         stop=flag("stop"), stopkeep=flag("stopAndKeep"), stopnm=flag("stopIfNoMoreMatch"),
                         nextsor=flag("nextSor", strings=True), mayend=flag("mayEnd"),
                         storetok=flag("storeToken"), line=node.lineno, rel=frame.mod.rel)

    # ------------------------------------------------------------------ match lambdas
    def two_params(self, clo, what):
        a = clo.node.args
        if a.vararg or a.kwarg or a.kwonlyargs or a.posonlyargs or a.defaults or len(a.args) != 2 \
                or a.args[0].arg == a.args[1].arg:
            self.refuse(clo.node, "%s lambda does not take exactly two plain parameters" % what, clo.frame.mod)
        return a.args[0].arg, a.args[1].arg

    def mcode_of(self, clo):
        t, v = self.two_params(clo, "match")
        with self.inctx("match", clo.node, clo.frame.mod):
            return self.mcode(clo.node.body, clo.frame, t, v)

    def strval(self, node, frame, t, v):
        """a string-valued operand (constant, bound string, types.X); None if it is something else"""
        for n in ast.walk(node):
            if isinstance(n, ast.Name) and n.id in (t, v):
                return None
        if isinstance(node, (ast.Constant, ast.Name, ast.Attribute)):
            x = self.eval(node, frame)
            return x if isinstance(x, str) else None
        return None

    def is_norm_v(self, node, frame, t, v):
        """normalize(v) / css_parser.helper.normalize(v)"""
        if isinstance(node, ast.Call) and len(node.args) == 1 and not node.keywords \
                and isinstance(node.args[0], ast.Name) and node.args[0].id == v:
            if any(isinstance(n, ast.Name) and n.id in (t, v) for n in ast.walk(node.func)):
                return False
            f = self.eval(node.func, frame)
            return isinstance(f, Marker) and f.kind == "fn" and f.arg == "normalize"
        return False

    def strs(self, node):
        if isinstance(node, (ast.Tuple, ast.List)) and all(
                isinstance(e, ast.Constant) and isinstance(e.value, str) for e in node.elts):
            return [e.value for e in node.elts]
        return None

    def mcode(self, e, frame, t, v):
        def bad(why="is not understood"):
            self.refuse(e, "match expression `%s` %s" % (" ".join(ast.unparse(e).split())[:70], why))
        if isinstance(e, ast.BoolOp):
            parts = [self.mcode(x, frame, t, v) for x in e.values]
            op = "MAnd" if isinstance(e.op, ast.And) else "MOr"
            out = parts[-1]
            for p in reversed(parts[:-1]):
                out = (op, p, out)
            return out
        if isinstance(e, ast.Compare):
            if len(e.ops) != 1:
                bad("(chained comparison)")
            op, l, r = e.ops[0], e.left, e.comparators[0]
            isname = lambda n, x: isinstance(n, ast.Name) and n.id == x   # noqa: E731
            if isinstance(op, (ast.Eq, ast.NotEq)):
                for a, b in ((l, r), (r, l)):
                    c = self.strval(b, frame, t, v)
                    if c is None:
                        continue
                    if isname(a, t) and isinstance(op, ast.Eq):
                        return ("MTy", c)
                    if isname(a, v):
                        return ("MVal", c) if isinstance(op, ast.Eq) else ("MValNe", c)
                    if self.is_norm_v(a, frame, t, v) and isinstance(op, ast.Eq):
                        return ("MNorm", c)
                bad()
            if isinstance(op, ast.In):
                lst = self.strs(r)
                if isname(l, t) and lst is not None:
                    return ("MTyIn", lst)
                if isname(l, v) and lst is not None:
                    return ("MValIn", lst)
                if isname(l, v) and isinstance(r, ast.Constant) and isinstance(r.value, str):
                    return ("MValSubstr", r.value)
                if self.is_norm_v(l, frame, t, v):
                    if lst is not None:
                        return ("MNormIn", lst)
                    if not any(isinstance(n, ast.Name) and n.id in (t, v) for n in ast.walk(r)) \
                            and isinstance(r, (ast.Attribute, ast.Call, ast.Name)):
                        x = self.eval(r, frame)
                        if isinstance(x, StrList):
                            return ("MNormIn", list(x.items))
                        if isinstance(x, Marker) and x.kind == "color_keys":
                            return ("MNormIn", "color_keys")
                bad()
            bad()
        if isinstance(e, ast.Call) and isinstance(e.func, ast.Attribute) and len(e.args) == 1 and not e.keywords:
            f, a = e.func, e.args[0]
            if isinstance(f.value, ast.Name) and f.value.id == v and f.attr == "startswith" \
                    and isinstance(a, ast.Constant) and isinstance(a.value, str):
                return ("MValStarts", a.value)
            if f.attr == "match" and isinstance(a, ast.Name) and a.id == v \
                    and not any(isinstance(n, ast.Name) and n.id in (t, v) for n in ast.walk(f.value)):
                x = self.eval(f.value, frame)
                if isinstance(x, Marker) and x.kind == "hexre":
                    return ("MHexRe",)
            bad()
        bad()

    # ------------------------------------------------------------------ toSeq
    def acode_of(self, val, node):
        if val is None:
            return ("ADefault",)
        if val is False:
            return ("AFalse",)
        if not isinstance(val, Closure) or not isinstance(val.node, ast.Lambda):
            self.refuse(node, "toSeq= is %s, not None / False / a lambda" % self.describe(val))
        t, toks = self.two_params(val, "toSeq")
        frame, body = val.frame, val.node.body
        with self.inctx("toSeq", val.node, frame.mod):
            def bad():
                self.refuse(body, "toSeq result `%s` is not understood" % " ".join(ast.unparse(body).split())[:80])

            def sub(n, i):
                return isinstance(n, ast.Subscript) and isinstance(n.value, ast.Name) and n.value.id == t \
                    and isinstance(n.slice, ast.Constant) and n.slice.value == i and type(n.slice.value) is int

            def uses_params(n):
                return any(isinstance(x, ast.Name) and x.id in (t, toks) for x in ast.walk(n))
            if not isinstance(body, ast.Tuple) or len(body.elts) != 2:
                bad()
            first, second = body.elts
            if sub(first, 0):
                label = None
            elif not uses_params(first) and isinstance(first, (ast.Constant, ast.Attribute, ast.Name)):
                label = self.eval(first, frame)
                if not isinstance(label, str):
                    bad()
            else:
                bad()
            if sub(second, 1):
                return ("ADefault",) if label is None else ("AConstTy", label)
            if not isinstance(second, ast.Call):
                bad()
            # t[1].lower()
            if isinstance(second.func, ast.Attribute) and sub(second.func.value, 1) and second.func.attr == "lower" \
                    and not second.args and not second.keywords and label is None:
                return ("ALower",)
            if uses_params(second.func):
                bad()
            f = self.eval(second.func, frame)
            plain = {"normalize": "ANorm", "stringvalue": "AStrVal", "urivalue": "AUriVal"}
            if isinstance(f, Marker) and f.kind == "fn" and f.arg in plain and label is None \
                    and len(second.args) == 1 and not second.keywords and sub(second.args[0], 1):
                return (plain[f.arg],)

            def is_pushtoken(n):
                if not (isinstance(n, ast.Call) and len(n.args) == 2 and not n.keywords
                        and isinstance(n.args[0], ast.Name) and n.args[0].id == t
                        and isinstance(n.args[1], ast.Name) and n.args[1].id == toks) or uses_params(n.func):
                    return False
                g = self.eval(n.func, frame)
                return isinstance(g, Marker) and g.kind == "fn" and g.arg == "pushtoken"
            # Cls(pushtoken(t, tokens), parent=...)
            if isinstance(f, Marker) and f.kind == "class" and len(second.args) == 1 and is_pushtoken(second.args[0]):
                modkey, clsname = self.classes[f.arg]
                kws = {k.arg: k.value for k in second.keywords}
                if clsname == "MediaQuery":
                    if set(kws) - {"_partof"} or None in kws:
                        bad()
                    po = self.eval(kws["_partof"], frame) if "_partof" in kws else False
                    if type(po) is not bool:
                        bad()
                    return ("ASub", label, GID["MediaQuery_partof" if po else "MediaQuery"])
                if set(kws) - {"parent"} or None in kws or clsname not in GID:
                    bad()
                return ("ASub", label, GID[clsname])
            # PreDef.comment: (t[0], css_parser.css.CSSComment([1], parentRule=parent))
            if isinstance(f, Marker) and f.kind == "cls_opaque" and f.arg == "CSSComment" and label is None \
                    and not uses_params(second):
                return ("AOpaque",)
            # PreDef.unknownrule: ('CSSUnknownRule', rule(pushtoken(t, tokens))) with the local def rule
            if isinstance(f, Closure) and isinstance(f.node, ast.FunctionDef) and label is not None \
                    and len(second.args) == 1 and not second.keywords and is_pushtoken(second.args[0]):
                return ("AOpaque",)
            bad()

    # ------------------------------------------------------------------ one grammar
    def grammar_tree(self, key, modkey, clsname, mname, partof):
        self.grammar = "%s (%s.%s)" % (key, clsname, mname)
        self.ctx = []
        mod = self.mods[modkey]
        top = ast.Module(body=[], type_ignores=[])
        selfv = SelfV(mod, clsname, partof)
        dmod, owner, fn = self.method(mod, clsname, mname, top)
        # the property that the constructor assigns to must call this very function
        prop = {"_setCssText": "cssText", "_setMediaText": "mediaText"}[mname]
        p = getattr(selfv.rtcls, prop, None)
        if not isinstance(p, property) or p.fset is None or p.fset.__code__.co_firstlineno != fn.lineno \
                or Path(p.fset.__code__.co_filename).resolve() != (REPO / "src" / "css_parser" / dmod.rel).resolve():
            self.refuse(fn, "property %s.%s is not set by %s.%s" % (clsname, prop, owner, mname), dmod)
        # def _setCssText(self, cssText): super(Cls, self)._setCssText(cssText)   -> the base class method
        for _ in range(5):
            body = strip_doc(fn.body)
            if len(body) == 1 and isinstance(body[0], ast.Expr) and isinstance(body[0].value, ast.Call):
                c = body[0].value
                f = c.func
                params = [a.arg for a in fn.args.args]
                if isinstance(f, ast.Attribute) and f.attr == mname and isinstance(f.value, ast.Call) \
                        and isinstance(f.value.func, ast.Name) and f.value.func.id == "super" \
                        and not hasattr(dmod.rt, "super") and len(params) == 2 \
                        and [ast.dump(a) for a in f.value.args] == [ast.dump(ast.Name(owner, ast.Load())),
                                                                    ast.dump(ast.Name(params[0], ast.Load()))] \
                        and not f.value.keywords and not c.keywords \
                        and [ast.dump(a) for a in c.args] == [ast.dump(ast.Name(params[1], ast.Load()))]:
                    cd = self.classdef(dmod, owner, fn)
                    if len(cd.bases) != 1 or not isinstance(cd.bases[0], ast.Name):
                        self.refuse(fn, "cannot follow super() of %s" % owner, dmod)
                    dmod, owner, fn = self.method(dmod, cd.bases[0].id, mname, fn)
                    continue
            break
        a = fn.args
        if a.vararg or a.kwarg or a.kwonlyargs or a.posonlyargs or a.defaults or len(a.args) != 2:
            self.refuse(fn, "%s.%s: unexpected signature" % (owner, mname), dmod)
        calls = []
        for n in iter_scope(fn.body):
            if isinstance(n, ast.Call) and isinstance(n.func, ast.Attribute) and n.func.attr == "parse":
                calls.append(n)
        if len(calls) != 1:
            self.refuse(fn, "%s.%s: expected exactly one `.parse(...)` call, found %d" % (owner, mname, len(calls)), dmod)
        call = calls[0]
        idx = [i for i, st in enumerate(fn.body) if isinstance(st, (ast.Assign, ast.Expr)) and st.value is call]
        if len(idx) != 1:
            self.refuse(call, "the parse call is not a top-level statement of %s.%s" % (owner, mname), dmod)
        k = idx[0]
        for st in fn.body[:k]:
            if not isinstance(st, (ast.Expr, ast.Assign, ast.FunctionDef, ast.If)) or any(
                    isinstance(n, (ast.Return, ast.Raise, ast.Yield, ast.YieldFrom, ast.Await))
                    for n in iter_scope([st])):
                self.refuse(st, "statement before the parse call may leave %s.%s" % (owner, mname), dmod)
        frame = Frame(self, dmod, fn, {a.args[0].arg: selfv, a.args[1].arg: Unknown("the text argument")}, None, k)
        with self.inctx("parse call", call, dmod):
            pp = call.func.value
            if not isinstance(pp, ast.Call) or pp.args or pp.keywords:
                self.refuse(call, "parse is not called on `ProdParser()` without arguments")
            m = self.eval(pp.func, frame)
            if not isinstance(m, Marker) or m.kind != "ProdParser":
                self.refuse(call, "parse is not called on `ProdParser()`")
            names = PARSE_PARAMS[1:]
            raw = {}
            if any(isinstance(x, ast.Starred) for x in call.args) or any(kw.arg is None for kw in call.keywords) \
                    or len(call.args) > len(names):
                self.refuse(call, "parse call with */** or too many arguments")
            for n, x in zip(names, call.args):
                raw[n] = x
            for kw in call.keywords:
                if kw.arg not in names or kw.arg in raw:
                    self.refuse(call, "unknown or repeated keyword `%s` of parse" % kw.arg)
                raw[kw.arg] = kw.value
            for n in ("text", "name", "productions"):
                if n not in raw:
                    self.refuse(call, "parse call without `%s`" % n)
            if not (isinstance(raw["text"], ast.Name) and raw["text"].id == a.args[1].arg):
                self.refuse(call, "parse is not called on the text parameter")
            if "store" in raw and not (isinstance(raw["store"], ast.Constant) and raw["store"].value is None):
                self.refuse(call, "parse called with store=")
            opts = {}
            for n in ("keepS", "checkS", "emptyOk"):
                if n in raw:
                    if not isinstance(raw[n], ast.Constant) or type(raw[n].value) is not bool:
                        self.refuse(raw[n], "%s= is not a bool constant" % n)
                    opts[n] = raw[n].value
                else:
                    opts[n] = self.parse_defaults[n]
                    if type(opts[n]) is not bool:
                        self.refuse(call, "default of %s is not a bool" % n)
            isconst = isinstance(raw["name"], ast.Constant) and isinstance(raw["name"].value, str)
            gname = raw["name"].value if isconst else clsname
            with self.inctx("productions", raw["productions"], dmod):
                tree = self.eval(raw["productions"], frame)
                if not isinstance(tree, PNode):
                    self.refuse(raw["productions"], "productions argument is %s" % self.describe(tree))
            self.check_aliasing(frame, fn.body[:k], dmod)
        self.grammar = None
        return tree, opts, gname, isconst


# ---------------------------------------------------------------------------------------------- emission
def cb(b):
    return "true" if b else "false"


def strlist(l):
    return "[" + "; ".join(coq_str(x) for x in l) + "]"


def coq_m(m):
    k = m[0]
    if k in ("MAnd", "MOr"):
        return "(%s %s %s)" % (k, coq_m(m[1]), coq_m(m[2]))
    if k == "MHexRe":
        return "MHexRe"
    if k in ("MTyIn", "MValIn", "MNormIn"):
        return "(%s %s)" % (k, m[1] if m[1] == "color_keys" else strlist(m[1]))
    return "(%s %s)" % (k, coq_str(m[1]))


def coq_a(a):
    if a[0] == "AConstTy":
        return "(AConstTy %s)" % coq_str(a[1])
    if a[0] == "ASub":
        return "(ASub %s %d%%nat)" % ("None" if a[1] is None else "(Some %s)" % coq_str(a[1]), a[2])
    return a[0]


def coq_t(t, ind):
    pad = " " * ind
    if t.kind == "prod":
        return "%sPProd (mkProd %s\n%s         %s\n%s         %s %s %s %s %s %s %s %s %s)" % (
            pad, coq_str(t.name), pad, coq_m(t.mcode), pad, cb(t.opt), coq_a(t.acode),
            "None" if t.store is None else "(Some %s)" % coq_str(t.store),
            cb(t.stop), cb(t.stopkeep), cb(t.stopnm), cb(t.nextsor), cb(t.mayend), cb(t.storetok))
    kids = ";\n".join(coq_t(c, ind + 4) for c in t.kids)
    if t.kind == "seq":
        tail = "%d%%nat %s" % (t.lo, "None" if t.hi is None else "(Some %d%%nat)" % t.hi)
        return "%sPSeq [\n%s\n%s  ] %s" % (pad, kids, pad, tail) if t.kids else "%sPSeq [] %s" % (pad, tail)
    tail = "None" if t.oopt is None else "(Some %s)" % cb(t.oopt)
    return "%sPCho [\n%s\n%s  ] %s" % (pad, kids, pad, tail) if t.kids else "%sPCho [] %s" % (pad, tail)


# ---------------------------------------------------------------------------------------------- runtime cross-check
SAMPLE_V = ["", ",", "/", "(", ")", "+", "-", "*", "*/", "+-", ";", ":", "a", "and", "AND", "a\\6e d", "only", "NOT",
            "print", "Print", "amzn-kf8", "foo", "red", "RED", "transparent", "rgb(", "RGBA(", "hsl(", "hsla(",
            "calc(", "CALC(", "var(", "VAR(", "#fff", "#ffff", "#abcdeF", "#abcdeg", "#fff\n", "alpha(", "Alpha(",
            "expression(", "xray(", "progid:DXImageTransform.Microsoft.Blur(", "progid:", "1px", "50%", "1", "url(x)",
            "'a'", "u+0-f", "1/2", "f(", "@x", " ", "/* c */"]
SAMPLE_TOK = ["Ab", "'a\\'B'", '"x"', "URL( 'A b' )", "url(a)", "U+0-F", "RGB(", "1PX", "1/2", ","]


def py_meval(m, t, v, ev):
    k = m[0]
    norm = ev.H.normalize
    if k == "MAnd":
        return py_meval(m[1], t, v, ev) and py_meval(m[2], t, v, ev)
    if k == "MOr":
        return py_meval(m[1], t, v, ev) or py_meval(m[2], t, v, ev)
    if k == "MTy":
        return t == m[1]
    if k == "MTyIn":
        return t in m[1]
    if k == "MVal":
        return v == m[1]
    if k == "MValNe":
        return v != m[1]
    if k == "MValIn":
        return v in m[1]
    if k == "MValSubstr":
        return m[1].find(v) >= 0
    if k == "MValStarts":
        return v[:len(m[1])] == m[1]
    if k == "MNorm":
        return norm(v) == m[1]
    if k == "MNormIn":
        return norm(v) in (list(ev.COL.COLORS.keys()) if m[1] == "color_keys" else m[1])
    if k == "MHexRe":
        return len(v) in (4, 7) and v[0] == "#" and all(c in "0123456789abcdefABCDEF" for c in v[1:])
    raise Refused("internal: mcode " + k)


def py_aplain(a, tok, ev):
    k = a[0]
    if k == "ADefault":
        return (tok[0], tok[1])
    if k == "ANorm":
        return (tok[0], ev.H.normalize(tok[1]))
    if k == "ALower":
        return (tok[0], tok[1].lower())
    if k == "AStrVal":
        return (tok[0], ev.H.stringvalue(tok[1]))
    if k == "AUriVal":
        return (tok[0], ev.H.urivalue(tok[1]))
    if k == "AConstTy":
        return (a[1], tok[1])
    return None


def compare(ev, key, sym, real, path):
    PP = ev.PP
    here = "%s%s" % (path, {"prod": "Prod %r" % getattr(sym, "name", None), "seq": "Sequence", "cho": "Choice"}[sym.kind])

    def differ(what):
        raise Refused("grammar %s: production %s (line %s): the objects built by the library differ from the "
                      "translated tree: %s" % (key, here, getattr(sym, "line", "?"), what))
    if sym.kind == "seq":
        if type(real) is not PP.Sequence:
            differ("real object is %s" % type(real).__name__)
        hi = None if real._max == sys.maxsize else real._max
        if (real._min, hi) != (sym.lo, sym.hi):
            differ("minmax real (%r, %r) / translated (%r, %r)" % (real._min, hi, sym.lo, sym.hi))
    elif sym.kind == "cho":
        if type(real) is not PP.Choice:
            differ("real object is %s" % type(real).__name__)
        if real.optional is not topt(sym):
            differ("optional real %r / translated %r" % (real.optional, topt(sym)))
    if sym.kind in ("seq", "cho"):
        if len(real._prods) != len(sym.kids):
            differ("%d / %d children" % (len(real._prods), len(sym.kids)))
        for i, (c, r) in enumerate(zip(sym.kids, real._prods)):
            compare(ev, key, c, r, here + "[%d] > " % i)
        return
    if type(real) is not PP.Prod:
        differ("real object is %s" % type(real).__name__)
    if real._name != sym.name:
        differ("name real %r" % (real._name,))
    for attr, mine, strict in (("optional", sym.opt, True), ("stop", sym.stop, True), ("stopAndKeep", sym.stopkeep, True),
                               ("stopIfNoMoreMatch", sym.stopnm, True), ("mayEnd", sym.mayend, True),
                               ("nextSor", sym.nextsor, False), ("storeToken", sym.storetok, False)):
        rv = getattr(real, attr)
        if strict and type(rv) is not bool:
            differ("%s real %r is not a bool" % (attr, rv))
        if bool(rv) != mine:
            differ("%s real %r / translated %r" % (attr, rv, mine))
    if real.exception is not None:
        differ("exception= set")
    # toStore
    if sym.store is None:
        if real.toStore is not None:
            differ("toStore real is set")
    else:
        if not callable(real.toStore):
            differ("toStore real %r" % (real.toStore,))
        d, x, y = {}, object(), object()
        real.toStore(d, x)
        if list(d.items()) != [(sym.store, x)]:
            differ("toStore does not store under %r" % sym.store)
        real.toStore(d, y)
        if d != {sym.store: [x, y]}:
            differ("toStore does not append under %r" % sym.store)
    # match on a sample of tokens
    tys = sorted({getattr(ev.CP.CSSProductions, n) for n in dir(ev.CP.CSSProductions)
                  if n.isupper() and isinstance(getattr(ev.CP.CSSProductions, n), str)} | {"ATKEYWORD", "X"})
    for t in tys:
        for v in SAMPLE_V:
            if bool(real.match(t, v)) != bool(py_meval(sym.mcode, t, v, ev)):
                differ("match(%r, %r) real %r" % (t, v, bool(real.match(t, v))))
    # toSeq
    a = sym.acode
    if a[0] == "AFalse":
        if real.toSeq is not False:
            differ("toSeq real is not False")
        return
    if not callable(real.toSeq):
        differ("toSeq real %r" % (real.toSeq,))
    if a[0] == "AOpaque":
        return
    if a[0] == "ASub":
        tok = ("IDENT", "x", 1, 1)
        try:
            lab, obj = real.toSeq(tok, iter([]))
        except Exception as e:
            differ("toSeq raised %s on the recording parser" % type(e).__name__)
        want = GRAMMARS[a[2]]
        cls = getattr(ev.mods[want[1]].rt, want[2])
        if lab != (tok[0] if a[1] is None else a[1]) or type(obj) is not cls:
            differ("toSeq real gives (%r, %s)" % (lab, type(obj).__name__))
        rec = ev.recorded[-1]
        if want[2] == "MediaQuery" and rec["partof"] is not want[4]:
            differ("toSeq real MediaQuery _partof=%r" % rec["partof"])
        return
    for v in SAMPLE_TOK:
        tok = ("TY", v, 1, 1)
        if real.toSeq(tok, iter([])) != py_aplain(a, tok, ev):
            differ("toSeq(%r) real %r" % (tok, real.toSeq(tok, iter([]))))


class Recorder:
    """instantiate the real classes with ProdParser.parse replaced by a recorder"""
    def __init__(self, ev):
        self.ev = ev

    def __enter__(self):
        import inspect
        ev, PP = self.ev, self.ev.PP
        ev.recorded = []
        self.orig = PP.ProdParser.parse

        def rec(pp, text, name, productions, **kw):
            obj = inspect.currentframe().f_back.f_locals.get("self")
            ev.recorded.append({"name": name, "prods": productions, "kw": kw, "cls": type(obj),
                                "partof": getattr(obj, "_partof", None)})
            return False, [], {}, None
        PP.ProdParser.parse = rec
        return self

    def __exit__(self, et, e, tb):
        self.ev.PP.ProdParser.parse = self.orig
        return False

    def build(self):
        ev, V, MQ, ML = self.ev, self.ev.V, self.ev.MQ, self.ev.ML
        makers = {"MediaList": lambda: ML.MediaList("print"),
                  "MediaQuery": lambda: MQ.MediaQuery("print"),
                  "MediaQuery_partof": lambda: MQ.MediaQuery(iter([("IDENT", "print", 1, 1)]), _partof=True),
                  "PropertyValue": lambda: V.PropertyValue("1px"), "Value": lambda: V.Value("a"),
                  "ColorValue": lambda: V.ColorValue("red"), "DimensionValue": lambda: V.DimensionValue("1px"),
                  "URIValue": lambda: V.URIValue("url(x)"), "CSSFunction": lambda: V.CSSFunction("f(1)"),
                  "MSValue": lambda: V.MSValue("alpha(x)"), "CSSCalc": lambda: V.CSSCalc("calc(1px)"),
                  "CSSVariable": lambda: V.CSSVariable("var(x)")}
        out = {}
        for key, modkey, clsname, _m, partof, _post in GRAMMARS:
            n0 = len(ev.recorded)
            try:
                makers[key]()
            except Exception:
                pass                      # the constructors report "no content" on the recorder's empty result
            got = ev.recorded[n0:]
            cls = getattr(ev.mods[modkey].rt, clsname)
            if len(got) != 1 or got[0]["cls"] is not cls or (partof is not None and got[0]["partof"] is not partof):
                raise Refused("grammar %s: instantiating %s did not call ProdParser().parse exactly once from "
                              "that class (%d calls)" % (key, clsname, len(got)))
            out[key] = got[0]
        return out


def crosscheck(ev, results):
    with Recorder(ev) as rec:
        real = rec.build()
        for key, (tree, opts, gname, isconst) in results.items():
            r = real[key]
            if isconst and r["name"] != gname:
                raise Refused("grammar %s: parse name real %r / translated %r" % (key, r["name"], gname))
            kw = dict(r["kw"])
            kw.pop("debug", None)
            ropts = {n: kw.pop(n, ev.parse_defaults[n]) for n in ("keepS", "checkS", "emptyOk")}
            if kw.pop("store", None) is not None or kw:
                raise Refused("grammar %s: real parse call has extra arguments %r" % (key, sorted(kw)))
            if ropts != opts:
                raise Refused("grammar %s: parse options real %r / translated %r" % (key, ropts, opts))
            compare(ev, key, tree, r["prods"], "")


# ---------------------------------------------------------------------------------------------- main
def main(write=True):
    ev = Ev()
    results = {}
    for key, modkey, clsname, mname, partof, _post in GRAMMARS:
        results[key] = ev.grammar_tree(key, modkey, clsname, mname, partof)
    crosscheck(ev, results)

    colors = list(ev.COL.COLORS.keys())
    if not all(isinstance(k, str) for k in colors):
        raise Refused("COLORS has non-string keys")
    body = ["Definition color_keys : list str :=\n  [%s]." % ";\n   ".join(
        "; ".join(coq_str(k) for k in colors[i:i + 6]) for i in range(0, len(colors), 6))]
    for key, _mk, _c, _m, _p, _post in GRAMMARS:
        body.append("Definition tree_%s : ptree :=\n%s." % (key, coq_t(results[key][0], 2)))
    rows = []
    for key, _mk, _c, _m, _p, post in GRAMMARS:
        _t, o, gname, _c = results[key]
        rows.append("mkGr %s tree_%s (mkOpts %s %s %s) %s" % (
            coq_str(gname), key, cb(o["keepS"]), cb(o["checkS"]), cb(o["emptyOk"]), post))
    body.append("Definition env_real : genv :=\n  [ " + ";\n    ".join(rows) + " ].")
    body.append("\n".join("Definition gid_%s : nat := %d%%nat." % (key, i) for key, i in GID.items()))
    if write:
        emit("ProdTrees", "\n\n".join(body),
             requires="From CssV Require Import Base Regex Tokenizer ProdParser.")
        out = VERIF / "build" / "prodtrees.json"
        out.parent.mkdir(parents=True, exist_ok=True)
        out.write_text(json.dumps({"gids": GID, "refused": []}, indent=1) + "\n")
    return results


if __name__ == "__main__":
    write = "--check" not in sys.argv[1:]
    try:
        main(write=write)
    except Refused as e:
        print("translator refused: %s" % e)
        if write:                      # Gen/ProdTrees.v is left untouched; the harness reads the refusal here
            sidecar = VERIF / "build" / "prodtrees.json"
            sidecar.parent.mkdir(parents=True, exist_ok=True)
            sidecar.write_text(json.dumps({"gids": GID, "refused": [str(e)]}, indent=1) + "\n")
        sys.exit(2)
