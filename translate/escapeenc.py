"""serialize._escapecss / do_CSSStyleSheet / do_CSSCharsetRule / helper.string / _codec3 prefix
   ->  Gen/EscapeConsts.v   (the constants the C13 model EscapeEnc.v is built from)

Fail-closed: the handler must have exactly the shape

    s = e.object[e.start:e.end]
    return ''.join([FMT % str(hex(ord(x)))[K:].upper() for x in s]), e.end

(FMT a raw '...%s...' literal, K an int constant, `.upper()` optional), be registered with
codecs.register_error(NAME, _escapecss), and do_CSSStyleSheet must end in
`return text.encode(encoding, NAME)` with the same NAME and take `encoding` from
`stylesheet.cssRules[0].encoding` with a constant default.  Anything else is refused."""
import ast
import sys

from translate.common import Refused, emit, src, find_func, one
from translate.regexlib import coq_str


def const_str(n, what):
    if isinstance(n, ast.Constant) and isinstance(n.value, str):
        return n.value
    raise Refused("%s: expected a string constant at line %d" % (what, getattr(n, "lineno", 0)))


def is_name(n, name):
    return isinstance(n, ast.Name) and n.id == name


def is_attr(n, base, attr):
    return isinstance(n, ast.Attribute) and n.attr == attr and is_name(n.value, base)


def handler(tree):
    fn = find_func(tree, ["_escapecss"])
    if [a.arg for a in fn.args.args] != ["e"]:
        raise Refused("_escapecss: unexpected signature")
    body = [st for st in fn.body if not (isinstance(st, ast.Expr) and isinstance(st.value, ast.Constant))]
    if len(body) != 2:
        raise Refused("_escapecss: expected 2 statements, found %d" % len(body))
    a, r = body
    # s = e.object[e.start:e.end]
    ok = (isinstance(a, ast.Assign) and len(a.targets) == 1 and is_name(a.targets[0], "s")
          and isinstance(a.value, ast.Subscript) and is_attr(a.value.value, "e", "object")
          and isinstance(a.value.slice, ast.Slice) and is_attr(a.value.slice.lower, "e", "start")
          and is_attr(a.value.slice.upper, "e", "end") and a.value.slice.step is None)
    if not ok:
        raise Refused("_escapecss: first statement is not `s = e.object[e.start:e.end]`")
    # return ''.join([...]), e.end
    if not (isinstance(r, ast.Return) and isinstance(r.value, ast.Tuple) and len(r.value.elts) == 2
            and is_attr(r.value.elts[1], "e", "end")):
        raise Refused("_escapecss: does not return (replacement, e.end)")
    j = r.value.elts[0]
    if not (isinstance(j, ast.Call) and isinstance(j.func, ast.Attribute) and j.func.attr == "join"
            and const_str(j.func.value, "join separator") == "" and len(j.args) == 1 and not j.keywords
            and isinstance(j.args[0], (ast.ListComp, ast.GeneratorExp))):
        raise Refused("_escapecss: replacement is not ''.join([... for x in s])")
    comp = j.args[0]
    g = one(comp.generators, "comprehension clause")
    if not (is_name(g.target, "x") and is_name(g.iter, "s") and not g.ifs):
        raise Refused("_escapecss: comprehension is not `for x in s`")
    elt = comp.elt
    if not (isinstance(elt, ast.BinOp) and isinstance(elt.op, ast.Mod)):
        raise Refused("_escapecss: element is not FMT % value")
    fmt = const_str(elt.left, "format string")
    if fmt.count("%") != 1 or "%s" not in fmt:
        raise Refused("_escapecss: format %r is not of the form PREFIX%%sSUFFIX" % fmt)
    pre, post = fmt.split("%s")
    v = elt.right
    upper = False
    if isinstance(v, ast.Call) and isinstance(v.func, ast.Attribute) and v.func.attr in ("upper", "lower") \
            and not v.args and not v.keywords:
        upper = v.func.attr == "upper"
        v = v.func.value
    # str(hex(ord(x)))[K:]   (str(...) optional)
    if not (isinstance(v, ast.Subscript) and isinstance(v.slice, ast.Slice) and v.slice.upper is None
            and v.slice.step is None and isinstance(v.slice.lower, ast.Constant)
            and isinstance(v.slice.lower.value, int) and v.slice.lower.value >= 0):
        raise Refused("_escapecss: hex value is not sliced [K:]")
    skip = v.slice.lower.value
    h = v.value
    if isinstance(h, ast.Call) and is_name(h.func, "str") and len(h.args) == 1:
        h = h.args[0]
    if not (isinstance(h, ast.Call) and is_name(h.func, "hex") and len(h.args) == 1
            and isinstance(h.args[0], ast.Call) and is_name(h.args[0].func, "ord")
            and len(h.args[0].args) == 1 and is_name(h.args[0].args[0], "x")):
        raise Refused("_escapecss: value is not hex(ord(x))")
    return pre, post, skip, upper


def registered_name(tree):
    calls = [n for n in ast.walk(tree) if isinstance(n, ast.Call) and isinstance(n.func, ast.Attribute)
             and n.func.attr == "register_error" and is_name(n.func.value, "codecs")]
    c = one(calls, "codecs.register_error call")
    if not (len(c.args) == 2 and is_name(c.args[1], "_escapecss")):
        raise Refused("register_error does not register _escapecss")
    return const_str(c.args[0], "error handler name")


def sheet_encode(tree):
    fn = find_func(tree, ["CSSSerializer", "do_CSSStyleSheet"])
    last = fn.body[-1]
    if not (isinstance(last, ast.Return) and isinstance(last.value, ast.Call)
            and is_attr(last.value.func, "text", "encode") and len(last.value.args) == 2
            and is_name(last.value.args[0], "encoding") and not last.value.keywords):
        raise Refused("do_CSSStyleSheet does not end in `return text.encode(encoding, <handler>)`")
    hname = const_str(last.value.args[1], "errors argument")
    # the try/except that picks the encoding (a try/finally around the rule loop is not it)
    tr = one((n for n in fn.body if isinstance(n, ast.Try) and n.handlers), "try/except statement in do_CSSStyleSheet")
    a = one(tr.body, "statement in the try body")
    ok = (isinstance(a, ast.Assign) and is_name(a.targets[0], "encoding") and isinstance(a.value, ast.Attribute)
          and a.value.attr == "encoding" and isinstance(a.value.value, ast.Subscript)
          and is_attr(a.value.value.value, "stylesheet", "cssRules")
          and isinstance(a.value.value.slice, ast.Constant) and a.value.value.slice.value == 0)
    if not ok:
        raise Refused("do_CSSStyleSheet: encoding is not taken from stylesheet.cssRules[0].encoding")
    h = one(tr.handlers, "except clause")
    d = one(h.body, "statement in the except body")
    if not (isinstance(d, ast.Assign) and is_name(d.targets[0], "encoding")):
        raise Refused("do_CSSStyleSheet: except body does not assign the default encoding")
    default = const_str(d.value, "default encoding")
    # text = self._linenumbers(self.prefs.lineSeparator.join(out))
    joins = [n for n in ast.walk(fn) if isinstance(n, ast.Assign) and is_name(n.targets[0], "text")]
    one(joins, "assignment to text")
    return hname, default


def charset_format(tree):
    fn = find_func(tree, ["CSSSerializer", "do_CSSCharsetRule"])
    rets = [n for n in ast.walk(fn) if isinstance(n, ast.Return) and isinstance(n.value, ast.BinOp)]
    r = one(rets, "formatted return in do_CSSCharsetRule")
    fmt = const_str(r.value.left, "charset format")
    v = r.value.right
    if not (isinstance(v, ast.Call) and is_attr(v.func, "helper", "string") and len(v.args) == 1
            and is_attr(v.args[0], "rule", "encoding")):
        raise Refused("do_CSSCharsetRule: value is not helper.string(rule.encoding)")
    if fmt.count("%") != 1 or "%s" not in fmt:
        raise Refused("do_CSSCharsetRule: format %r" % fmt)
    return fmt.split("%s")


def string_quote(tree):
    """helper.string: the final `return '"%s"' % value`"""
    fn = find_func(tree, ["string"])
    r = fn.body[-1]
    if not (isinstance(r, ast.Return) and isinstance(r.value, ast.BinOp) and is_name(r.value.right, "value")):
        raise Refused("helper.string does not end in `return FMT % value`")
    fmt = const_str(r.value.left, "helper.string format")
    a, b = fmt.split("%s")
    if a != b or len(a) != 1:
        raise Refused("helper.string: quote format %r" % fmt)
    # the characters the function rewrites before quoting (an encoding name must contain none of them)
    special = []
    for n in ast.walk(fn):
        if isinstance(n, ast.Call) and isinstance(n.func, ast.Attribute) and n.func.attr in ("replace", "endswith"):
            special.append(const_str(n.args[0], "helper.string special character"))
    return a, sorted(set(special))


def codec_prefix(tree):
    """the literal prefix detectencoding_str / detectencoding_unicode / _fixencoding look for"""
    vals = set()
    for name in ("detectencoding_str", "detectencoding_unicode", "_fixencoding"):
        fn = find_func(tree, [name])
        ps = [n for n in ast.walk(fn) if isinstance(n, ast.Assign) and is_name(n.targets[0], "prefix")]
        vals.add(const_str(one(ps, "prefix assignment in " + name).value, "prefix"))
    if len(vals) != 1:
        raise Refused("the codec functions use different prefixes: %r" % sorted(vals))
    return vals.pop()


def line_separator(tree):
    fn = find_func(tree, ["Preferences", "useDefaults"])
    a = one((n for n in ast.walk(fn) if isinstance(n, ast.Assign) and is_attr(n.targets[0], "self", "lineSeparator")),
            "self.lineSeparator assignment in useDefaults")
    ln = one((n for n in ast.walk(fn) if isinstance(n, ast.Assign) and is_attr(n.targets[0], "self", "lineNumbers")),
             "self.lineNumbers assignment in useDefaults")
    if not (isinstance(ln.value, ast.Constant) and ln.value.value is False):
        raise Refused("Preferences.useDefaults: lineNumbers is not False")
    return const_str(a.value, "lineSeparator")


def main():
    ser = ast.parse(src("serialize.py"))
    pre, post, skip, upper = handler(ser)
    name = registered_name(ser)
    hname, default = sheet_encode(ser)
    if hname != name:
        raise Refused("do_CSSStyleSheet encodes with errors=%r but the registered handler is %r" % (hname, name))
    cpre, cpost = charset_format(ser)
    quote, special = string_quote(ast.parse(src("helper.py")))
    prefix = codec_prefix(ast.parse(src("_codec3.py")))
    b = [
        "Definition esc_prefix : str := %s." % coq_str(pre),
        "Definition esc_suffix : str := %s." % coq_str(post),
        "Definition esc_hex_skip : nat := %d%%nat." % skip,
        "Definition esc_upper : bool := %s." % ("true" if upper else "false"),
        "Definition esc_handler_name : str := %s." % coq_str(name),
        "Definition default_encoding : str := %s." % coq_str(default),
        "Definition charset_fmt_pre : str := %s." % coq_str(cpre),
        "Definition charset_fmt_post : str := %s." % coq_str(cpost),
        "Definition string_quote : str := %s." % coq_str(quote),
        "Definition string_special : list str := [%s]." % "; ".join(coq_str(x) for x in special),
        "Definition line_separator : str := %s." % coq_str(line_separator(ser)),
        "Definition codec_charset_prefix : str := %s." % coq_str(prefix),
    ]
    emit("EscapeConsts", "\n\n".join(b))


if __name__ == "__main__":
    try:
        main()
    except Refused as e:
        print("translator refused: %s" % e)
        sys.exit(2)
