"""css/selector.py (Selector._setSelectorText)  ->  Gen/SelConsts.v

Regenerated on every run, fail-closed:
  * the `expected` string constants (simple_selector_sequence ... combinator) and the enum `exp` of every value the
    variable `expected` can take (initial value, every `return` of every handler, util's default 'EOF'),
  * for every handler, in source order, every test on `expected` ('x' in expected  -- a SUBSTRING test --,
    X == expected) as a function  T_<handler>_<i> : exp -> bool  computed with Python's own `in` / `==`,
    and every return as  R_<handler>_<i> : exp -> exp,
  * the dispatch dict  token type -> handler,
  * the literal tuples / strings of append()'s specificity bookkeeping and _pseudo's legacy pseudo-element names,
  * the two post-conditions on `expected`.
The hand-written model (coq/theories/Selector.v) uses these constants at the corresponding program points; the
shape (sequence of tests / returns per handler) is checked against SHAPES below, any difference is refused.
"""
import ast
import sys

from translate.common import Refused, emit, src, find_func, one, str_tuple
from translate.regexlib import coq_str

# sequence of T(est on expected) / R(eturn) per handler, in source order, that Selector.v was written against
SHAPES = {
    "_COMMENT": "R",
    "_S": "RTRR",
    "_universal": "TRRR",
    "_namespace_prefix": "TRTRR",
    "_pseudo": "TRRRRR",
    "_expression": "RR",
    "_attcombinator": "TRR",
    "_string": "TRRR",
    "_ident": "TRTRRRTTRR",
    "_class": "TRRR",
    "_hash": "TRRR",
    "_char": "TRRTRTRRTRRRTRTRRR",
    "_negation": "TRR",
    "_atkeyword": "R",
}
HANDLER_ORDER = list(SHAPES)


def ident(x):
    return "".join(c if c.isalnum() else "_" for c in x)


def main():
    tree = ast.parse(src("css/selector.py"))
    fn = find_func(tree, ["Selector", "_setSelectorText"])
    else_body = None
    for n in ast.walk(fn):
        if isinstance(n, ast.If) and n.orelse and any(
                isinstance(m, ast.FunctionDef) and m.name == "append" for m in n.orelse):
            else_body = n.orelse
    if else_body is None:
        raise Refused("cannot find the block defining append() in _setSelectorText")

    # ---- string constants: NAME = 'lit' | NAME = NAME + 'lit' | NAME = NAME + NAME
    consts = {}

    def ev(node):
        if isinstance(node, ast.Constant) and isinstance(node.value, str):
            return node.value
        if isinstance(node, ast.Name) and node.id in consts:
            return consts[node.id]
        if isinstance(node, ast.BinOp) and isinstance(node.op, ast.Add):
            return ev(node.left) + ev(node.right)
        raise Refused("line %d: not a string-constant expression" % node.lineno)

    def expname(node):
        if isinstance(node, ast.Name):
            return node.id
        if isinstance(node, ast.Constant):
            return ident(node.value)
        if isinstance(node, ast.BinOp):
            return expname(node.left) + "__" + expname(node.right)
        raise Refused("line %d: unexpected expression" % node.lineno)

    handlers = {}
    for st in else_body:
        if isinstance(st, ast.Assign) and len(st.targets) == 1 and isinstance(st.targets[0], ast.Name):
            name = st.targets[0].id
            if name in ("tokens", "tokenizer", "new", "newseq", "wellformed"):
                continue
            if name == "S":
                if ev(st.value) != " ":
                    raise Refused("S is not ' '")
                continue
            consts[name] = ev(st.value)
        elif isinstance(st, ast.FunctionDef):
            handlers[st.name] = st
    for h in SHAPES:
        if h not in handlers:
            raise Refused("handler %s not found" % h)
    extra = set(handlers) - set(SHAPES) - {"append"}
    if extra:
        raise Refused("unknown handlers %s" % sorted(extra))

    # ---- the _parse call: initial expected + dispatch dict
    call = one((n for st in else_body for n in ast.walk(st) if isinstance(n, ast.Call)
                and isinstance(n.func, ast.Attribute) and n.func.attr == "_parse"), "_parse call")
    kw = {k.arg: k.value for k in call.keywords}
    if set(kw) != {"expected", "seq", "tokenizer", "productions"}:
        raise Refused("_parse called with keywords %s" % sorted(kw))
    initial = kw["expected"]
    disp = []
    if not isinstance(kw["productions"], ast.Dict):
        raise Refused("productions is not a dict literal")
    for k, v in zip(kw["productions"].keys, kw["productions"].values):
        if not (isinstance(k, ast.Constant) and isinstance(v, ast.Name) and v.id in SHAPES):
            raise Refused("line %d: unexpected productions entry" % k.lineno)
        disp.append((k.value, v.id))
    # defaults added by util.Base2._adddefaultproductions
    utree = ast.parse(src("util.py"))
    dflt = find_func(utree, ["Base2", "_adddefaultproductions"])
    eof = find_func(dflt, ["EOF"])
    eofret = one((n for n in ast.walk(eof) if isinstance(n, ast.Return)), "return in default EOF production")
    eof_value = ev(eofret.value)
    dd = one((n for n in ast.walk(dflt) if isinstance(n, ast.Dict) and n.keys), "default productions dict")
    dkeys = [k.value for k in dd.keys]
    if sorted(dkeys) != ["ATKEYWORD", "COMMENT", "EOF", "S"]:
        raise Refused("default productions are %s" % dkeys)
    have = {k for k, _ in disp}
    for k in ("ATKEYWORD", "COMMENT", "S"):
        if k not in have:
            raise Refused("default production %s is not overridden by the selector machine" % k)
    if "EOF" in have:
        raise Refused("EOF overridden")

    # ---- events per handler in source order
    exps = {}       # string value -> constructor name
    order = []

    def reg(node):
        v = ev(node)
        if v not in exps:
            exps[v] = "E_" + expname(node)
            order.append(v)
        return exps[v]

    reg(initial)
    events = {}

    def is_expected(n):
        return isinstance(n, ast.Name) and n.id == "expected"

    def visit(node, out):
        if isinstance(node, ast.FunctionDef) and out.get("_entered"):
            raise Refused("line %d: nested function in a handler" % node.lineno)
        if isinstance(node, ast.FunctionDef):
            out["_entered"] = True
        if isinstance(node, ast.Compare) and len(node.ops) == 1:
            l, r, op = node.left, node.comparators[0], node.ops[0]
            if isinstance(op, ast.In) and is_expected(r):
                if not (isinstance(l, ast.Constant) and isinstance(l.value, str)):
                    raise Refused("line %d: `x in expected` with a non-literal x" % node.lineno)
                out["ev"].append(("T", "in", l.value, node.lineno))
                return
            if is_expected(l) or is_expected(r):
                other = r if is_expected(l) else l
                if not isinstance(op, ast.Eq):
                    raise Refused("line %d: unsupported comparison with expected" % node.lineno)
                out["ev"].append(("T", "eq", ev(other), node.lineno))
                return
        if isinstance(node, ast.Return):
            if node.value is None:
                raise Refused("line %d: bare return in a handler" % node.lineno)
            if is_expected(node.value):
                out["ev"].append(("R", "same", None, node.lineno))
            else:
                out["ev"].append(("R", "const", reg(node.value), node.lineno))
            return
        if is_expected(node) and isinstance(getattr(node, "ctx", None), (ast.Store, ast.Del)):
            raise Refused("line %d: expected is assigned inside a handler" % node.lineno)
        for c in ast.iter_child_nodes(node):
            visit(c, out)

    for h in HANDLER_ORDER:
        out = {"ev": []}
        visit(handlers[h], out)
        shape = "".join(e[0] for e in out["ev"])
        if shape != SHAPES[h]:
            raise Refused("handler %s has test/return shape %s, the model was written against %s"
                          % (h, shape, SHAPES[h]))
        events[h] = out["ev"]
    if eof_value not in exps:
        exps[eof_value] = "E_" + ident(eof_value)
        order.append(eof_value)

    # ---- post-conditions on expected (statements after the _parse call)
    post = []
    for st in else_body:
        if isinstance(st, ast.If) and isinstance(st.test, (ast.Compare, ast.BoolOp)):
            for n in ast.walk(st.test):
                if isinstance(n, ast.Compare) and len(n.ops) == 1 and isinstance(n.ops[0], ast.Eq) and (
                        is_expected(n.left) or is_expected(n.comparators[0])):
                    other = n.comparators[0] if is_expected(n.left) else n.left
                    post.append((ev(other), n.lineno))
    if len(post) != 2:
        raise Refused("expected 2 post-conditions on `expected`, found %d" % len(post))

    # ---- append(): specificity literals
    ap = handlers["append"]
    tups = [n for n in ast.walk(ap) if isinstance(n, ast.Compare) and len(n.ops) == 1 and isinstance(n.ops[0], ast.In)
            and isinstance(n.left, ast.Name) and n.left.id == "typ" and isinstance(n.comparators[0], ast.Tuple)]
    tv = [str_tuple(t.comparators[0]) for t in sorted(tups, key=lambda n: (n.lineno, n.col_offset))]
    if len(tv) != 3:
        raise Refused("append(): expected 3 `typ in (...)` tests, found %d" % len(tv))
    c_types, d_types, el_types = tv
    cmps = [n for n in ast.walk(ap) if isinstance(n, ast.Compare) and len(n.ops) == 1
            and isinstance(n.ops[0], (ast.Eq, ast.NotEq))]

    def lit_cmp(varname, opcls):
        res = []
        for n in cmps:
            l, r = n.left, n.comparators[0]
            for a, b in ((l, r), (r, l)):
                if isinstance(a, ast.Name) and a.id == varname and isinstance(b, ast.Constant) \
                        and isinstance(b.value, str) and isinstance(n.ops[0], opcls):
                    res.append((n.lineno, b.value))
        return [v for _, v in sorted(res)]
    typ_eq = lit_cmp("typ", ast.Eq)
    typ_ne = lit_cmp("typ", ast.NotEq)
    val_eq = lit_cmp("val", ast.Eq)
    val_ne = lit_cmp("val", ast.NotEq)
    pre_eq = lit_cmp("prefix", ast.Eq)
    if typ_eq != ["_PREFIX", "universal", "universal", "attribute-selector", "id"] or typ_ne != ["pseudo-class"] \
            or val_eq != ["["] or len(val_ne) != 1 or pre_eq != ["*", ""]:
        raise Refused("append(): literal comparisons changed: typ== %s typ!= %s val== %s val!= %s prefix== %s"
                      % (typ_eq, typ_ne, val_eq, val_ne, pre_eq))
    ends = [n for n in ast.walk(ap) if isinstance(n, ast.Call) and isinstance(n.func, ast.Attribute)
            and n.func.attr == "endswith"]
    if len(ends) != 1 or ev(ends[0].args[0]) != "-selector":
        raise Refused("append(): endswith test changed")
    # the counter index bumped in each of the three specificity branches
    bumps = []
    for n in ast.walk(ap):
        if isinstance(n, ast.AugAssign) and isinstance(n.op, ast.Add) and isinstance(n.target, ast.Subscript):
            idx = n.target.slice
            if not (isinstance(idx, ast.Constant) and isinstance(n.value, ast.Constant) and n.value.value == 1):
                raise Refused("line %d: unexpected counter update" % n.lineno)
            bumps.append((n.lineno, idx.value))
    bumps = [i for _, i in sorted(bumps)]
    if len(bumps) != 3:
        raise Refused("append(): expected 3 counter updates, found %d" % len(bumps))

    ps = handlers["_pseudo"]
    legacy = one((n for n in ast.walk(ps) if isinstance(n, ast.Compare) and isinstance(n.ops[0], ast.In)
                  and isinstance(n.comparators[0], ast.Tuple)), "legacy pseudo-element tuple")
    legacy = str_tuple(legacy.comparators[0])

    # ---- emit
    b = []
    for k, v in consts.items():
        b.append("Definition c_%s : str := %s." % (k, coq_str(v)))
    b.append("Inductive exp := " + " | ".join(exps[v] for v in order) + ".")
    b.append("Definition all_exp : list exp := [" + "; ".join(exps[v] for v in order) + "].")
    b.append("Definition exp_str (e : exp) : str :=\n  match e with\n" + "\n".join(
        "  | %s => %s" % (exps[v], coq_str(v)) for v in order) + "\n  end.")
    b.append("Definition E_initial : exp := %s." % exps[ev(initial)])

    def table(f):
        return "fun e => match e with " + " | ".join("%s => %s" % (exps[v], "true" if f(v) else "false")
                                                       for v in order) + " end"
    intests, eqtests = [], []
    for h in HANDLER_ORDER:
        ti = ri = 0
        for kind, sub, arg, line in events[h]:
            if kind == "T":
                nm = "T%s_%d" % (h, ti)
                ti += 1
                if sub == "in":
                    b.append("(* l.%d: %r in expected *)\nDefinition %s : exp -> bool :=\n  %s." % (
                        line, arg, nm, table(lambda v: arg in v)))
                    intests.append((arg, nm))
                else:
                    b.append("(* l.%d: %r == expected *)\nDefinition %s : exp -> bool :=\n  %s." % (
                        line, arg, nm, table(lambda v: arg == v)))
                    eqtests.append((arg, nm))
            else:
                nm = "R%s_%d" % (h, ri)
                ri += 1
                if sub == "same":
                    b.append("(* l.%d: return expected *)\nDefinition %s : exp -> exp := fun e => e." % (line, nm))
                else:
                    b.append("(* l.%d *)\nDefinition %s : exp -> exp := fun _ => %s." % (line, nm, arg))
    for i, (v, line) in enumerate(post):
        nm = "Tpost_%d" % i
        b.append("(* l.%d: expected == %r *)\nDefinition %s : exp -> bool :=\n  %s." % (
            line, v, nm, table(lambda x: x == v)))
        eqtests.append((v, nm))
    b.append("Definition in_tests : list (str * (exp -> bool)) :=\n  [%s]." % ";\n   ".join(
        "(%s, %s)" % (coq_str(a), n) for a, n in intests))
    b.append("Definition eq_tests : list (str * (exp -> bool)) :=\n  [%s]." % ";\n   ".join(
        "(%s, %s)" % (coq_str(a), n) for a, n in eqtests))
    b.append("Definition R_default_EOF : exp -> exp := fun _ => %s." % exps[eof_value])
    hs = sorted(set(h for _, h in disp))
    b.append("Inductive handler := " + " | ".join("H" + h for h in hs) + " | H_default_EOF.")
    b.append("Definition dispatch : list (str * handler) :=\n  [%s]." % ";\n   ".join(
        "(%s, H%s)" % (coq_str(k), h) for k, h in disp + [("EOF", "_default_EOF")]))
    b.append("Definition legacy_pseudo_elements : list str := [%s]." % "; ".join(coq_str(x) for x in legacy))
    b.append("Definition spec_b_type : str := %s." % coq_str("id"))
    b.append("Definition spec_c_val : str := %s." % coq_str(val_eq[0]))
    b.append("Definition spec_c_types : list str := [%s]." % "; ".join(coq_str(x) for x in c_types))
    b.append("Definition spec_c_except_type : str := %s." % coq_str(typ_ne[0]))
    b.append("Definition spec_c_except_val : str := %s." % coq_str(val_ne[0]))
    b.append("Definition spec_d_types : list str := [%s]." % "; ".join(coq_str(x) for x in d_types))
    b.append("Definition element_types : list str := [%s]." % "; ".join(coq_str(x) for x in el_types))
    b.append("(* index of new['specificity'] bumped in the id / class-attrib-pseudo / type branch *)\n"
             "Definition spec_bump_index : list nat := [%s]." % "; ".join("%d%%nat" % i for i in bumps))
    emit("SelConsts", "\n\n".join(b), requires="From CssV Require Import Base.")


if __name__ == "__main__":
    try:
        main()
    except Refused as e:
        print("translator refused: %s" % e)
        sys.exit(2)
