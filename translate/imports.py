"""util._readUrl / CSSImportRule._setHref / resolveImports / urllib tables  ->  Gen/Import.v   (property C20)

Regenerated from /repo's current working tree on every run, fail-closed:
  * the enctype ladder of _readUrl (nested if/elif over overrideEncoding, httpEncoding, explicit, parentEncoding)
    becomes the Gallina function `ladder`;
  * the acceptance test of the fetcher's return value, the decode try/except and the return statements are
    compared with fixed shapes (anything else is refused);
  * of _setHref: the exception tuple of the `except`, the exception raised for `cssText is None`, whether the
    urljoin call is inside the `try`, the enctype -> (encodingOverride, encoding) split, the positions of the
    hrefFound assignments;
  * of insertRule: the retry `rule.href = rule.href` for unloaded imports;
  * of resolveImports: whether a fresh target inherits the sheet's fetcher, the rule kinds that may be wrapped
    into @media;
  * of CSSCharsetRule.__init__: whether `_encoding` is initialised before the validating setter runs;
  * from the interpreter: the subclass table of the exception classes involved, urllib's uses_relative/uses_netloc.
"""
import ast
import builtins
import sys
import urllib.parse

from translate.common import Refused, emit, src, find_func
from translate.regexlib import coq_str

EXN = ["OSError", "ValueError", "LookupError", "UnicodeError", "UnicodeDecodeError", "AttributeError", "TypeError",
       "RuntimeError", "RecursionError", "KeyError", "IndexError", "Exception"]


def dump(n):
    return ast.dump(n, annotate_fields=False)


def expect(node, text, what):
    got = ast.unparse(node)
    if got != text:
        raise Refused("%s: expected `%s`, found `%s` (line %d)" % (what, text, got, getattr(node, "lineno", 0)))


def exn_class(name, where):
    cls = getattr(builtins, name, None)
    if not (isinstance(cls, type) and issubclass(cls, BaseException)):
        raise Refused("%s: %s is not a builtin exception" % (where, name))
    if cls.__name__ not in EXN:
        raise Refused("%s: exception class %s outside the modelled set" % (where, cls.__name__))
    return "E_" + cls.__name__


def handler_names(h, where):
    t = h.type
    elts = t.elts if isinstance(t, ast.Tuple) else [t]
    if not all(isinstance(e, ast.Name) for e in elts):
        raise Refused(where + ": except clause is not a tuple of names")
    return [e.id for e in elts]


# ------------------------------------------------------------------ _readUrl
LADDER_VARS = {"overrideEncoding": ("override", "truthy"), "httpEncoding": ("http", "truthy"),
               "explicit": ("explicit", "id"), "parentEncoding": ("parent", "truthy")}
ENC_NAMES = {"overrideEncoding": "override", "httpEncoding": "http", "contentEncoding": "content_enc",
             "parentEncoding": "parent"}


def ladder_block(stmts, detect_seen):
    """statement list -> Coq term of type N * enc"""
    stmts = list(stmts)
    if stmts and isinstance(stmts[0], ast.If) and ast.unparse(stmts[0].test) == "isinstance(content, text_type)":
        d = stmts.pop(0)
        expect(d.body[0], "contentEncoding, explicit = codec.detectencoding_unicode(content)", "detection (text)")
        expect(d.orelse[0], "contentEncoding, explicit = codec.detectencoding_str(content)", "detection (bytes)")
        if len(d.body) != 1 or len(d.orelse) != 1:
            raise Refused("detection statement has extra code")
        detect_seen.append(True)
    if len(stmts) == 1 and isinstance(stmts[0], ast.If):
        i = stmts[0]
        if not (isinstance(i.test, ast.Name) and i.test.id in LADDER_VARS):
            raise Refused("ladder condition `%s` not understood (line %d)" % (ast.unparse(i.test), i.lineno))
        v, kind = LADDER_VARS[i.test.id]
        if v in ("explicit", "parent") and not detect_seen:
            raise Refused("`%s` tested before the detection statement" % i.test.id)
        cond = v if kind == "id" else "truthy %s" % v
        if not i.orelse:
            raise Refused("ladder `if` without else (line %d)" % i.lineno)
        return "(if %s then %s else %s)" % (cond, ladder_block(i.body, detect_seen), ladder_block(i.orelse, detect_seen))
    if len(stmts) == 2 and all(isinstance(a, ast.Assign) and len(a.targets) == 1 and isinstance(a.targets[0], ast.Name)
                               for a in stmts):
        d = {a.targets[0].id: a.value for a in stmts}
        if set(d) != {"enctype", "encoding"}:
            raise Refused("ladder leaf assigns %s" % sorted(d))
        et, en = d["enctype"], d["encoding"]
        if not (isinstance(et, ast.Constant) and isinstance(et.value, int) and 0 <= et.value < 100):
            raise Refused("enctype is not a small int constant")
        if isinstance(en, ast.Name) and en.id in ENC_NAMES:
            if en.id == "contentEncoding" and not detect_seen:
                raise Refused("contentEncoding used before detection")
            e = ENC_NAMES[en.id]
        elif isinstance(en, ast.Constant) and isinstance(en.value, str):
            e = "Some %s" % coq_str(en.value)
        else:
            raise Refused("encoding assigned from `%s`" % ast.unparse(en))
        return "(%d%%N, %s)" % (et.value, e)
    raise Refused("ladder block not understood at line %d: %s" % (stmts[0].lineno if stmts else 0,
                                                                  "; ".join(ast.unparse(x)[:60] for x in stmts)))


def readurl(out):
    fn = find_func(ast.parse(src("util.py")), ["_readUrl"])
    if [a.arg for a in fn.args.args] != ["url", "fetcher", "overrideEncoding", "parentEncoding"]:
        raise Refused("_readUrl signature changed")
    body = [x for x in fn.body if not (isinstance(x, ast.Expr) and isinstance(x.value, ast.Constant))]
    if len(body) != 4:
        raise Refused("_readUrl: expected 4 top-level statements, found %d" % len(body))
    expect(body[0], "enctype = None", "_readUrl stmt 1")
    expect(body[1], "if not fetcher:\n    fetcher = _defaultFetcher", "_readUrl default fetcher")
    expect(body[2], "r = fetcher(url)", "_readUrl fetch call")
    main = body[3]
    if not isinstance(main, ast.If):
        raise Refused("_readUrl: 4th statement is not the acceptance `if`")
    # a 2-sequence (encoding label: None or str, content: text or bytes); every other result is "nothing read"
    expect(main.test, "isinstance(r, (tuple, list)) and len(r) == 2 and isinstance(r[1], (text_type, bytes, bytearray, "
                      "memoryview)) and (r[0] is None or isinstance(r[0], string_type))",
           "acceptance test of the fetcher result")
    if len(main.orelse) != 1:
        raise Refused("_readUrl: else branch")
    expect(main.orelse[0], "return (None, None, None)", "_readUrl else branch")
    mb = main.body
    if len(mb) != 4:
        raise Refused("_readUrl: accepted branch has %d statements" % len(mb))
    expect(mb[0], "httpEncoding, content = r", "unpacking of the fetcher result")
    seen = []
    out.append("Definition ladder (override http : enc) (explicit : bool) (content_enc parent : enc) : N * enc :=\n  %s."
               % ladder_block([mb[1]], seen))
    if not seen:
        raise Refused("ladder never calls the detection functions")
    dec = mb[2]
    if not (isinstance(dec, ast.If) and ast.unparse(dec.test) == "isinstance(content, text_type)"):
        raise Refused("_readUrl: text/bytes split not found")
    expect(dec.body[0], "decodedCssText = content", "text content is passed through")
    if len(dec.body) != 1 or len(dec.orelse) != 1 or not isinstance(dec.orelse[0], ast.Try):
        raise Refused("_readUrl: decode branch")
    outer = dec.orelse[0]
    if len(outer.handlers) != 1 or outer.orelse or outer.finalbody or len(outer.body) != 1 \
            or not isinstance(outer.body[0], ast.Try):
        raise Refused("_readUrl: decode try shape")
    inner = outer.body[0]
    expect(inner.body[0], "decodedCssText = codecs.lookup('css')[1](content, encoding=encoding)[0]", "decode call")
    if len(inner.handlers) != 1 or handler_names(inner.handlers[0], "inner decode try") != ["AttributeError"]:
        raise Refused("_readUrl: inner decode handler")
    names = handler_names(outer.handlers[0], "decode try")
    hb = outer.handlers[0].body
    expect(hb[-1], "decodedCssText = None", "decode failure result")
    for st in hb[:-1]:
        if not ast.unparse(st).startswith("log.warn("):
            raise Refused("decode handler does more than log")
    out.append("Definition decode_caught : list exn := [%s]." % "; ".join(exn_class(n, "decode try") for n in names))
    expect(mb[3], "return (encoding, enctype, decodedCssText)", "_readUrl result")


# ------------------------------------------------------------------ _setHref
def cmp_term(test):
    """comparison over enctype -> Coq bool term"""
    if isinstance(test, ast.Compare):
        items = [test.left] + list(test.comparators)
        terms = []
        for a, op, b in zip(items, test.ops, items[1:]):
            def t(x):
                if isinstance(x, ast.Name) and x.id == "enctype":
                    return "enctype"
                if isinstance(x, ast.Constant) and isinstance(x.value, int) and x.value >= 0:
                    return "%d%%N" % x.value
                raise Refused("enctype test operand `%s`" % ast.unparse(x))
            f = {ast.Eq: "N.eqb", ast.Lt: "N.ltb", ast.LtE: "N.leb"}.get(type(op))
            if f is None:
                raise Refused("enctype test operator in `%s`" % ast.unparse(test))
            terms.append("%s %s %s" % (f, t(a), t(b)))
        return " && ".join("(%s)" % x for x in terms)
    raise Refused("enctype test `%s`" % ast.unparse(test))


def split_block(stmts):
    if len(stmts) == 1 and isinstance(stmts[0], ast.If):
        i = stmts[0]
        return "(if %s then %s else %s)" % (cmp_term(i.test), split_block(i.body),
                                            split_block(i.orelse) if i.orelse else "(None, None)")
    if len(stmts) == 1 and isinstance(stmts[0], ast.Assign):
        u = ast.unparse(stmts[0])
        if u == "encodingOverride = usedEncoding":
            return "(used, None)"
        if u == "encoding = usedEncoding":
            return "(None, used)"
    raise Refused("enctype split not understood: %s" % "; ".join(ast.unparse(x) for x in stmts))


def writes_self(node):
    """statements below `node` that modify the rule: assignment to an attribute of self, del, self._setSeq(...),
    self._commitHref(...)"""
    out = []
    for n in ast.walk(node):
        if isinstance(n, (ast.Assign, ast.AugAssign, ast.AnnAssign)):
            targets = n.targets if isinstance(n, ast.Assign) else [n.target]
            for tg in targets:
                for x in ast.walk(tg):
                    if isinstance(x, ast.Attribute) and isinstance(x.value, ast.Name) and x.value.id == "self":
                        out.append(n)
        elif isinstance(n, ast.Delete):
            out.append(n)
        elif isinstance(n, ast.Call) and isinstance(n.func, ast.Attribute) and isinstance(n.func.value, ast.Name) \
                and n.func.value.id == "self" and n.func.attr in ("_setSeq", "_commitHref", "_setMedia"):
            out.append(n)
    return out


def nodoc(body):
    return [x for x in body if not (isinstance(x, ast.Expr) and isinstance(x.value, ast.Constant))]


def sethref(out):
    tree = ast.parse(src("css/cssimportrule.py"))
    # _setHref = load, then commit
    sh = find_func(tree, ["CSSImportRule", "_setHref"])
    if [ast.unparse(x) for x in nodoc(sh.body)] != ["importedSheet, hrefFound = self._loadImport(href, self.media, self.name)",
                                                    "self._commitHref(href, importedSheet, hrefFound)"]:
        raise Refused("_setHref is not exactly `_loadImport` followed by `_commitHref`: %r"
                      % [ast.unparse(x) for x in nodoc(sh.body)])
    # _commitHref: plain writes
    ch = find_func(tree, ["CSSImportRule", "_commitHref"])
    if [a.arg for a in ch.args.args] != ["self", "href", "importedSheet", "hrefFound"]:
        raise Refused("_commitHref signature")
    cb = nodoc(ch.body)
    cu = [ast.unparse(x) for x in cb]
    if len(cb) != 4 or cu[0] != "self._href = href" or not isinstance(cb[1], ast.For) \
            or cu[2:] != ["self.hrefFound = hrefFound", "self._styleSheet = importedSheet"]:
        raise Refused("_commitHref: expected href, seq update, hrefFound, styleSheet; found %r" % cu)
    for n in ast.walk(ch):
        if isinstance(n, (ast.Try, ast.Raise, ast.Return, ast.While)):
            raise Refused("_commitHref: control flow (line %d)" % n.lineno)
    # _setCssText: the sheet is loaded before the rule is modified, committed after
    sc = find_func(tree, ["CSSImportRule", "_setCssText"])
    loads = [n for n in ast.walk(sc) if isinstance(n, ast.Call) and ast.unparse(n.func) == "self._loadImport"]
    commits = [n for n in ast.walk(sc) if isinstance(n, ast.Call) and ast.unparse(n.func) == "self._commitHref"]
    if len(loads) != 1 or len(commits) != 1:
        raise Refused("_setCssText: expected one _loadImport and one _commitHref call")
    if ast.unparse(loads[0]) != "self._loadImport(new['href'], newmedia, new['name'])" or \
            ast.unparse(commits[0]) != "self._commitHref(new['href'], importedSheet, hrefFound)":
        raise Refused("_setCssText: arguments of _loadImport / _commitHref")
    early = [w for w in writes_self(sc) if w.lineno <= loads[0].lineno and w is not loads[0]]
    if early:
        raise Refused("_setCssText modifies the rule (line %d) before the imported sheet is loaded (line %d)"
                      % (early[0].lineno, loads[0].lineno))
    if commits[0].lineno < loads[0].lineno:
        raise Refused("_setCssText commits before it loads")
    # _loadImport: the load itself; does not touch the rule
    fn = find_func(tree, ["CSSImportRule", "_loadImport"])
    if [a.arg for a in fn.args.args] != ["self", "href", "media", "title"]:
        raise Refused("_loadImport signature")
    w = writes_self(fn)
    if w:
        raise Refused("_loadImport modifies the rule (line %d)" % w[0].lineno)
    tries = [n for n in ast.walk(fn) if isinstance(n, ast.Try)]
    if len(tries) != 1:
        raise Refused("_loadImport: expected one try statement")
    tr = tries[0]
    if len(tr.handlers) != 1 or tr.finalbody:
        raise Refused("_loadImport: try shape")
    names = handler_names(tr.handlers[0], "_loadImport")
    out.append("Definition caught_names : list str := [%s]." % "; ".join(coq_str(n) for n in names))
    out.append("Definition caught : list exn := [%s]." % "; ".join(exn_class(n, "_loadImport except") for n in names))
    for st in tr.handlers[0].body:
        u = ast.unparse(st)
        if not u.startswith("self._log.warn(") or "neverraise=True" not in u:
            raise Refused("_loadImport: handler does more than a never-raising warning: " + u[:80])
    if len(tr.orelse) != 1:
        raise Refused("_loadImport: else branch of the try")
    expect(tr.orelse[0], "hrefFound = True", "_loadImport success flag")
    body_ = nodoc(fn.body)
    top = [ast.unparse(x) for x in body_]
    if len(body_) != 4 or top[0] != "importedSheet = css_parser.css.CSSStyleSheet(media=media, ownerRule=self, title=title)" \
            or top[1] != "hrefFound = False" or not isinstance(body_[2], ast.If) or top[3] != "return (importedSheet, hrefFound)":
        raise Refused("_loadImport: expected new sheet, hrefFound = False, the load, return; found %r" % [x[:60] for x in top])
    g = body_[2]
    if g.orelse:
        raise Refused("_loadImport: else branch of the load condition")
    expect(g.test, "href and self.parentStyleSheet", "_loadImport load condition")
    join = "fullhref = urljoin(parentHref, href)"
    pre = [ast.unparse(x) for x in g.body if x is not tr]
    inside = [ast.unparse(x) for x in tr.body]
    if join in pre and g.body.index(tr) > pre.index(join):
        guarded = False
    elif join in inside:
        guarded = True
    else:
        raise Refused("_loadImport: urljoin call not found")
    if not any(x.startswith("if parentHref is None:") for x in pre + inside):
        raise Refused("_loadImport: cwd fallback for a missing parent href not found")
    out.append("Definition join_guarded : bool := %s." % ("true" if guarded else "false"))
    body = [x for x in tr.body if ast.unparse(x) != join and not ast.unparse(x).startswith(("parentHref =", "if parentHref is None"))]
    # optional guard against import cycles: walk the chain sheet -> ownerRule -> parentStyleSheet and refuse to load a
    # URL that one of the importing sheets has
    guard_exn = None
    gi = [i for i, x in enumerate(body) if isinstance(x, ast.While)]
    if gi:
        if len(gi) != 1 or gi[0] != 1 or not guarded or ast.unparse(body[0]) != "sheet = self.parentStyleSheet":
            raise Refused("_loadImport: a loop at an unexpected place in the try body")
        if [ast.unparse(x) for x in tr.body].index(join) > [ast.unparse(x) for x in tr.body].index("sheet = self.parentStyleSheet"):
            raise Refused("_loadImport: cycle guard before the urljoin call")
        w = body[1]
        if ast.unparse(w.test) != "sheet is not None" or w.orelse or len(w.body) != 3:
            raise Refused("_loadImport: cycle guard loop not understood")
        c = w.body[0]
        if not (isinstance(c, ast.If) and ast.unparse(c.test) == "sheet.href == fullhref" and not c.orelse and len(c.body) == 1
                and isinstance(c.body[0], ast.Raise) and isinstance(c.body[0].exc, ast.Call)
                and isinstance(c.body[0].exc.func, ast.Name)):
            raise Refused("_loadImport: cycle guard test not understood")
        expect(w.body[1], "owner = sheet.ownerRule", "cycle guard step 1")
        expect(w.body[2], "sheet = owner.parentStyleSheet if owner is not None else None", "cycle guard step 2")
        guard_exn = exn_class(c.body[0].exc.func.id, "cycle guard")
        body = body[2:]
    elif any(ast.unparse(x) == "sheet = self.parentStyleSheet" for x in body):
        raise Refused("_loadImport: half a cycle guard")
    out.append("Definition cycle_guard : bool := %s.   (* _setHref refuses a URL that a sheet of the import chain has *)"
               % ("true" if guard_exn else "false"))
    out.append("Definition raised_on_cycle : exn := %s." % (guard_exn or "E_OSError"))
    shapes = [ast.unparse(x) for x in body]
    want = ["usedEncoding, enctype, cssText = self.parentStyleSheet._resolveImport(fullhref)", None,
            "encodingOverride, encoding = (None, None)", None, "importedSheet._href = fullhref",
            "importedSheet._setFetcher(self.parentStyleSheet._fetcher)",
            "importedSheet._setCssTextWithEncodingOverride(cssText, encodingOverride=encodingOverride, encoding=encoding)"]
    if len(shapes) != len(want):
        raise Refused("_loadImport: try body has %d statements: %r" % (len(shapes), shapes))
    for s_, w in zip(shapes, want):
        if w is not None and s_ != w:
            raise Refused("_loadImport: expected `%s`, found `%s`" % (w, s_))
    none_if = body[1]
    if not (isinstance(none_if, ast.If) and ast.unparse(none_if.test) == "cssText is None" and len(none_if.body) == 1
            and isinstance(none_if.body[0], ast.Raise) and isinstance(none_if.body[0].exc, ast.Call)
            and isinstance(none_if.body[0].exc.func, ast.Name) and not none_if.orelse):
        raise Refused("_loadImport: `if cssText is None: raise ...` not found")
    out.append("Definition raised_on_none : exn := %s." % exn_class(none_if.body[0].exc.func.id, "raise for missing text"))
    out.append("Definition split_enc (enctype : N) (used : enc) : enc * enc :=   (* (encodingOverride, encoding) *)\n  %s."
               % split_block([body[3]]))


def stylesheet(out):
    tree = ast.parse(src("css/cssstylesheet.py"))
    ins = find_func(tree, ["CSSStyleSheet", "insertRule"])
    tail = [ast.unparse(x) for x in ins.body[-3:]]
    want = ["rule._parentStyleSheet = self",
            "if rule.IMPORT_RULE == rule.type and (not rule.hrefFound):\n    rule.href = rule.href", "return index"]
    if tail != want:
        raise Refused("insertRule: tail is %r" % tail)
    ri = find_func(tree, ["CSSStyleSheet", "_resolveImport"])
    body = [x for x in ri.body if not (isinstance(x, ast.Expr) and isinstance(x.value, ast.Constant))]
    want = ("try:\n    parentEncoding = self.__newEncoding\nexcept AttributeError:\n    try:\n        "
            "parentEncoding = self._cssRules[0].encoding\n    except (IndexError, AttributeError):\n        "
            "parentEncoding = None")
    if len(body) != 2:
        raise Refused("_resolveImport: statements")
    expect(body[0], want, "_resolveImport parent encoding")
    expect(body[1], "return _readUrl(url, fetcher=self._fetcher, overrideEncoding=self.__encodingOverride, "
                    "parentEncoding=parentEncoding)", "_resolveImport call")
    se = find_func(tree, ["CSSStyleSheet", "_setCssTextWithEncodingOverride"])
    body = [ast.unparse(x) for x in se.body if not (isinstance(x, ast.Expr) and isinstance(x.value, ast.Constant))]
    want = ["if encodingOverride:\n    self.__encodingOverride = encodingOverride",
            "if encoding:\n    self.__newEncoding = encoding",
            "self.cssText = cssText",
            "if encodingOverride:\n    self.encoding = self.__encodingOverride\n    self.__encodingOverride = None\n"
            "elif encoding:\n    self.encoding = encoding\n    try:\n        del self.__newEncoding\n"
            "    except AttributeError:\n        pass"]
    if body != want:
        raise Refused("_setCssTextWithEncodingOverride changed: %r" % body)
    cs = find_func(ast.parse(src("css/csscharsetrule.py")), ["CSSCharsetRule", "__init__"])
    stm = [ast.unparse(x) for x in cs.body]
    setter = "if encoding:\n    self.encoding = encoding\nelse:\n    self._encoding = None"
    if setter in stm:
        pre = "self._encoding = None" in stm[:stm.index(setter)]
    elif "self._encoding = None" in stm and "if encoding:\n    self.encoding = encoding" in stm:
        pre = stm.index("self._encoding = None") < stm.index("if encoding:\n    self.encoding = encoding")
    else:
        raise Refused("CSSCharsetRule.__init__: encoding initialisation not understood")
    out.append("Definition charset_init_safe : bool := %s.   "
               "(* CSSCharsetRule(encoding=<unknown>) leaves a rule that is not well-formed instead of one without _encoding *)"
               % ("true" if pre else "false"))


def resolve(out):
    fn = find_func(ast.parse(src("__init__.py")), ["resolveImports"])
    first = [x for x in fn.body if isinstance(x, ast.If)]
    if not first or ast.unparse(first[0].test) != "not target":
        raise Refused("resolveImports: `if not target` not found")
    blk = [ast.unparse(x) for x in first[0].body]
    if not blk or not blk[0].startswith("target = css.CSSStyleSheet(href=sheet.href"):
        raise Refused("resolveImports: construction of the target")
    rest = blk[1:]
    if rest == []:
        inh = False
    elif rest == ["target._setFetcher(sheet._fetcher)"]:
        inh = True
    else:
        raise Refused("resolveImports: unexpected statements after creating the target: %r" % rest)
    out.append("Definition resolve_inherits_fetcher : bool := %s." % ("true" if inh else "false"))
    tests = [n for n in ast.walk(fn) if isinstance(n, ast.Compare) and len(n.ops) == 1 and isinstance(n.ops[0], ast.NotIn)
             and ast.unparse(n.left) == "r.type" and isinstance(n.comparators[0], ast.Tuple)]
    if len(tests) != 1:
        raise Refused("resolveImports: kind test of the @media wrapping")
    kinds = []
    for e in tests[0].comparators[0].elts:
        u = ast.unparse(e)
        if not u.startswith("r."):
            raise Refused("resolveImports: kind `%s`" % u)
        kinds.append(u[2:])
    known = {"COMMENT": "K_COMMENT", "STYLE_RULE": "K_STYLE", "IMPORT_RULE": "K_IMPORT"}
    for k in kinds:
        if k not in known:
            raise Refused("resolveImports: wrapping allows kind %s which the model does not know" % k)
    out.append("Inductive kind := K_COMMENT | K_STYLE | K_IMPORT | K_MEDIA | K_NAMESPACE | K_CHARSET.")
    out.append("Definition wrap_allowed : list kind := [%s]." % "; ".join(known[k] for k in kinds))
    loop = [x for x in fn.body if isinstance(x, ast.For)]
    if len(loop) != 1 or ast.unparse(loop[0].iter) != "sheet.cssRules":
        raise Refused("resolveImports: main loop")
    u = ast.unparse(loop[0])
    for need in ("if rule.type == rule.CHARSET_RULE:\n        pass", "if rule.hrefFound:",
                 "importedSheet = resolveImports(rule.styleSheet)", "except xml.dom.HierarchyRequestErr as e:",
                 "if rule.media.mediaText == 'all':\n                    mediaproxy = None",
                 "mediaproxy = css.CSSMediaRule(rule.media.mediaText)",
                 "for r in importedSheet:\n                    if mediaproxy:\n                        mediaproxy.add(r)\n"
                 "                    else:\n                        target.add(r)",
                 "if mediaproxy:\n                    target.add(mediaproxy)"):
        if need not in u:
            raise Refused("resolveImports: expected fragment not found: %r" % need)


def tables(out):
    names = EXN
    out.append("Inductive exn := %s." % " | ".join("E_" + n for n in names))
    rows = []
    for a in names:
        sup = [b for b in names if issubclass(getattr(builtins, a), getattr(builtins, b))]
        rows.append("  | E_%s => [%s]" % (a, "; ".join("E_" + b for b in sup)))
    out.append("Definition exn_id (e : exn) : N :=\n  match e with\n%s\n  end." % "\n".join(
        "  | E_%s => %d%%N" % (n, i) for i, n in enumerate(names)))
    out.append("Definition exn_name (e : exn) : str :=\n  match e with\n%s\n  end." % "\n".join(
        "  | E_%s => %s" % (n, coq_str(n)) for n in names))
    out.append("Definition all_exn : list exn := [%s]." % "; ".join("E_" + n for n in names))
    out.append("(* issubclass table of the running interpreter *)\nDefinition bases (e : exn) : list exn :=\n  match e with\n%s\n  end."
               % "\n".join(rows))
    for nm in ("uses_relative", "uses_netloc"):
        out.append("Definition %s : list str := [%s]." % (nm, "; ".join(coq_str(x) for x in getattr(urllib.parse, nm))))


def main():
    out = ["Definition enc := option str.          (* None, or a Python str; '' is falsy *)",
           "Definition truthy (e : enc) : bool := match e with Some (_ :: _) => true | _ => false end."]
    tables(out)
    readurl(out)
    sethref(out)
    stylesheet(out)
    resolve(out)
    # urljoin: its control flow is modelled by hand (Imports.urljoin); pin the text of the function
    uj = find_func(ast.parse(src("util.py")), ["urljoin"])
    import hashlib
    out.append("Definition urljoin_source_sha : str := %s." % coq_str(hashlib.sha256(dump(uj).encode()).hexdigest()[:16]))
    emit("Import", "\n\n".join(out), requires="From CssV Require Import Base.")


if __name__ == "__main__":
    try:
        main()
    except Refused as e:
        print("translator refused: %s" % e)
        sys.exit(2)
