"""helper.string / helper.stringvalue / util.Base._stringtokenvalue  ->  Gen/Quote.v      (C03)

Fail-closed translator (Python ast -> Gallina) for the straight-line string functions of the quoting
round trip.  Every accepted construct has ONE fixed reading in coq/theories/Quote.v; anything else
raises Refused, the check then reports the tie as broken instead of proving theorems about a stale file.

  Python                                        Gallina
  --------------------------------------------  ---------------------------------------------------------
  str literal                                   list of code points
  x + y                                         x ++ y
  x.replace(a, b)                               py_replace x a b        refused unless `a` is syntactically
                                                non-empty (a non-empty literal, or a `+` with such an operand)
  x.endswith(y)                                 py_endswith x y
  x[a:-b]  x[a:]  x[:-b]  (int constants >= 0)  py_slice_nn a b x
  NAME[0]   (NAME a str variable)               hoisted in front of the statement:
                                                match py_index0 NAME with Crash => Crash | Ok c => ... [c] ... end
  'pre%spost' % x  (one %s, no other %)         pre ++ x ++ post
  NAME = expr                                   let NAME := expr in ...
  if c: NAME = expr        (no else)            let NAME := if c then expr else NAME in ...
  if token: <block> else: <block>  (token : an optional tokenizer token)
                                                match token with Some t => ... | None => ... end
  token[1]   (inside the `if token:` branch)    val t
  return expr / return None                     the value (wrapped in Ok / Some as the signature demands)
  docstring                                     ignored
  anything else (loops, try, calls, attribute access, other operators, other subscripts)   REFUSED
"""
import ast
import sys

from translate.common import Refused, emit, src, find_func
from translate.regexlib import coq_str

# name in the source -> (path, Coq name, parameters with kinds, return kind)
#   kinds: str | opttoken ; return: str (total) | res_str | res_optstr
TARGETS = [
    ("helper.py", ["stringvalue"], "hstringvalue", [("string", "str")], "res_str"),
    ("util.py", ["Base", "_stringtokenvalue"], "stringtokenvalue", [("token", "opttoken")], "res_optstr"),
]


def lit(v):
    if v == "":
        return "[]"
    if all(32 <= ord(c) < 127 and c not in '"\\' for c in v) and v:
        return coq_str(v)
    return "[" + "; ".join("%d%%N" % ord(c) for c in v) + "]"


class Fn:
    def __init__(self, node, coqname, params, ret):
        self.node, self.coqname, self.params, self.ret = node, coqname, params, ret
        self.kinds = {}
        self.n = 0

    def bad(self, node, why):
        raise Refused("%s: line %d: %s (%s)" % (self.node.name, getattr(node, "lineno", 0), why, ast.dump(node)[:160]))

    def var(self, name):
        return "v_" + name

    # ------------------------------------------------------------------ expressions (all of kind str, or bool)
    def nonempty(self, e):
        if isinstance(e, ast.Constant) and isinstance(e.value, str):
            return len(e.value) > 0
        if isinstance(e, ast.BinOp) and isinstance(e.op, ast.Add):
            return self.nonempty(e.left) or self.nonempty(e.right)
        if self.is_index0(e):
            return True
        return False

    def is_index0(self, e):
        return (isinstance(e, ast.Subscript) and isinstance(e.value, ast.Name) and isinstance(e.slice, ast.Constant)
                and e.slice.value == 0 and type(e.slice.value) is int and self.kinds.get(e.value.id) == "str")

    def indexes(self, e):
        """names X for which X[0] occurs in e, in evaluation order, without duplicates"""
        out = []
        for n in ast.walk(e):
            if self.is_index0(n) and n.value.id not in out:
                out.append(n.value.id)
        return out

    def sexpr(self, e, hoisted):
        if isinstance(e, ast.Constant):
            if isinstance(e.value, str):
                return lit(e.value)
            self.bad(e, "constant that is not a str")
        if isinstance(e, ast.Name):
            if self.kinds.get(e.id) != "str":
                self.bad(e, "name is not a str variable here")
            return self.var(e.id)
        if self.is_index0(e):
            return "[%s]" % hoisted[e.value.id]
        if isinstance(e, ast.Subscript):
            if isinstance(e.value, ast.Name) and self.kinds.get(e.value.id) == "token" and \
                    isinstance(e.slice, ast.Constant) and e.slice.value == 1 and type(e.slice.value) is int:
                return "(val %s)" % self.var(e.value.id)
            sl = e.slice
            if isinstance(sl, ast.Slice) and sl.step is None:
                lo, hi = sl.lower, sl.upper
                a = 0
                if lo is not None:
                    if not (isinstance(lo, ast.Constant) and type(lo.value) is int and lo.value >= 0):
                        self.bad(e, "slice lower bound is not a constant >= 0")
                    a = lo.value
                b = 0
                if hi is not None:
                    if isinstance(hi, ast.UnaryOp) and isinstance(hi.op, ast.USub) and isinstance(hi.operand, ast.Constant) \
                            and type(hi.operand.value) is int and hi.operand.value > 0:
                        b = hi.operand.value
                    else:
                        self.bad(e, "slice upper bound is not a negative constant")
                return "(py_slice_nn %d %d %s)" % (a, b, self.sexpr(e.value, hoisted))
            self.bad(e, "subscript")
        if isinstance(e, ast.BinOp) and isinstance(e.op, ast.Add):
            return "(%s ++ %s)" % (self.sexpr(e.left, hoisted), self.sexpr(e.right, hoisted))
        if isinstance(e, ast.BinOp) and isinstance(e.op, ast.Mod):
            if not (isinstance(e.left, ast.Constant) and isinstance(e.left.value, str)):
                self.bad(e, "% with a non-constant format")
            fmt = e.left.value
            if fmt.count("%") != 1 or fmt.count("%s") != 1:
                self.bad(e, "format is not exactly one %s")
            pre, post = fmt.split("%s")
            if isinstance(e.right, ast.Tuple):
                self.bad(e, "% with a tuple")
            return "(%s ++ %s ++ %s)" % (lit(pre), self.sexpr(e.right, hoisted), lit(post))
        if isinstance(e, ast.Call) and isinstance(e.func, ast.Attribute) and not e.keywords:
            m = e.func.attr
            if m == "replace" and len(e.args) == 2:
                if not self.nonempty(e.args[0]):
                    self.bad(e, "replace() with a possibly empty pattern")
                return "(py_replace %s %s %s)" % (self.sexpr(e.func.value, hoisted), self.sexpr(e.args[0], hoisted),
                                                  self.sexpr(e.args[1], hoisted))
        self.bad(e, "expression outside the accepted subset")

    def bexpr(self, e, hoisted):
        if isinstance(e, ast.Call) and isinstance(e.func, ast.Attribute) and not e.keywords and \
                e.func.attr == "endswith" and len(e.args) == 1:
            return "(py_endswith %s %s)" % (self.sexpr(e.func.value, hoisted), self.sexpr(e.args[0], hoisted))
        self.bad(e, "condition outside the accepted subset")

    # ------------------------------------------------------------------ statements
    def hoist(self, exprs, k):
        """wrap k(hoisted) in the index matches needed by exprs; total functions must not index"""
        names = []
        for e in exprs:
            for nm in self.indexes(e):
                if nm not in names:
                    names.append(nm)
        if names and self.ret == "str":
            self.bad(exprs[0], "indexing in a function declared total")
        hoisted = {}
        for nm in names:
            self.n += 1
            hoisted[nm] = "c%d" % self.n
        body = k(hoisted)
        for nm in reversed(names):
            body = "match py_index0 %s with Crash => Crash | Ok %s =>\n  %s end" % (self.var(nm), hoisted[nm], body)
        return body

    def wrap_ret(self, term, none=False):
        if self.ret == "str":
            if none:
                raise Refused("return None in a total str function")
            return term
        if self.ret == "res_str":
            if none:
                raise Refused("return None in a str function")
            return "Ok %s" % term
        return "Ok None" if none else "Ok (Some %s)" % term

    def block(self, stmts):
        if not stmts:
            raise Refused("%s: control reaches the end without return" % self.node.name)
        st, rest = stmts[0], stmts[1:]
        if isinstance(st, ast.Expr) and isinstance(st.value, ast.Constant) and isinstance(st.value.value, str):
            return self.block(rest)                                                    # docstring
        if isinstance(st, ast.Return):
            if rest:
                self.bad(st, "code after return")
            if st.value is None or (isinstance(st.value, ast.Constant) and st.value.value is None):
                return self.wrap_ret(None, none=True)
            return self.hoist([st.value], lambda h: self.wrap_ret(self.sexpr(st.value, h)))
        if isinstance(st, ast.Assign):
            if len(st.targets) != 1 or not isinstance(st.targets[0], ast.Name):
                self.bad(st, "assignment target")
            nm = st.targets[0].id

            def k(h):
                term = self.sexpr(st.value, h)
                self.kinds[nm] = "str"
                return "let %s := %s in\n  %s" % (self.var(nm), term, self.block(rest))
            return self.hoist([st.value], k)
        if isinstance(st, ast.If):
            # `if token:` on an optional token
            if isinstance(st.test, ast.Name) and self.kinds.get(st.test.id) == "opttoken":
                if rest:
                    self.bad(st, "code after if/else on a token")
                nm = st.test.id
                self.kinds[nm] = "token"
                a = self.block(st.body)
                self.kinds[nm] = "none"
                b = self.block(st.orelse)
                self.kinds[nm] = "opttoken"
                return "match %s with\n  | Some %s =>\n  %s\n  | None =>\n  %s\n  end" % (self.var(nm), self.var(nm), a, b)
            # `if cond: NAME = expr`
            if not st.orelse and len(st.body) == 1 and isinstance(st.body[0], ast.Assign) and \
                    len(st.body[0].targets) == 1 and isinstance(st.body[0].targets[0], ast.Name) and \
                    self.kinds.get(st.body[0].targets[0].id) == "str":
                nm = st.body[0].targets[0].id

                def k(h):
                    c = self.bexpr(st.test, h)
                    e = self.sexpr(st.body[0].value, h)
                    return "let %s := if %s then %s else %s in\n  %s" % (self.var(nm), c, e, self.var(nm), self.block(rest))
                return self.hoist([st.test, st.body[0].value], k)
            self.bad(st, "if statement outside the accepted shapes")
        self.bad(st, "statement outside the accepted subset")

    def emit(self):
        node = self.node
        args = [a.arg for a in node.args.args]
        if args and args[0] == "self":
            args = args[1:]
        if node.args.vararg or node.args.kwarg or node.args.kwonlyargs or node.args.defaults or node.decorator_list:
            self.bad(node, "signature")
        if args != [p for p, _ in self.params]:
            self.bad(node, "parameters are %r, expected %r" % (args, [p for p, _ in self.params]))
        for p, k in self.params:
            self.kinds[p] = k
        body = self.block(node.body)
        ty = {"str": "str", "opttoken": "option tok"}
        rt = {"str": "str", "res_str": "res str", "res_optstr": "res (option str)"}[self.ret]
        return "Definition %s %s : %s :=\n  %s." % (
            self.coqname, " ".join("(%s : %s)" % (self.var(p), ty[k]) for p, k in self.params), rt, body)


# ---------------------------------------------------------------------------------------------- helper.string
# helper.string is a loop (a three-state scanner, see its source); it is modelled by the fixed Gallina text below
# (hstring_loop) and tied to the source in two ways: the SHAPE of the function (its AST with every str constant
# replaced by a hole, docstring removed) must be the pinned one - otherwise generation is refused - and every str
# constant is taken from the source into the generated definitions, so a changed literal changes Gen/Quote.v and the
# theorems are re-checked against it.  The loop model itself is compared with the implementation by the check.
STRING_SHAPE = "de3c3281b4cd1232"
STRING_MODEL = """
Fixpoint str_assoc (c : N) (tb : list (N * str)) : str :=
  match tb with [] => [c] | (k, v) :: r => if N.eqb k c then v else str_assoc c r end.
(* the final out.append of the loop body: the escaped quote, a newline escape of _string_newlines, or c itself *)
Definition str_plain (c : N) : str := if N.eqb c str_quote then str_quote_esc else str_assoc c str_newlines.
Inductive sstate := SN | S1 | S2.   (* state 0 / 1 / 2 of the loop *)
(* linecontinuation=False: the string inside url() (helper.uri); the newline test of the loop is False *)
Fixpoint hstring_loop (st : sstate) (v : str) : str :=
  match v with
  | [] => match st with SN => [] | S1 => str_end1 | S2 => str_end2 end
  | c :: r =>
    match st with
    | S1 => if N.eqb c str_bs then str_s1_first ++ hstring_loop S2 r
            else (if mem c str_hexdigits then str_s1_hex else str_s1_else) ++ str_plain c ++ hstring_loop SN r
    | S2 => if N.eqb c str_bs then str_s2_first ++ hstring_loop S1 r
            else (if mem c str_hexdigits then str_s2_hex else str_s2_else) ++ str_plain c ++ hstring_loop SN r
    | SN => if N.eqb c str_bs then hstring_loop S1 r else str_plain c ++ hstring_loop SN r
    end
  end.
(* linecontinuation=True (the default): STRING tokens *)
Definition str_isnl (c : N) : bool := mem c (map fst str_newlines).      (* c in _string_newlines *)
Fixpoint hstringc_loop (st : sstate) (v : str) : str :=
  match v with
  | [] => match st with SN => [] | S1 => str_end1 | S2 => str_end2 end
  | c :: r =>
    match st with
    | S1 => if N.eqb c str_bs then str_s1_first ++ hstringc_loop S2 r
            else (if mem c str_hexdigits then str_s1_hex else if str_isnl c then str_s1_nl else str_s1_else)
                 ++ str_plain c ++ hstringc_loop SN r
    | S2 => if N.eqb c str_bs then str_s2_first ++ hstringc_loop S1 r
            else (if mem c str_hexdigits then str_s2_hex else if str_isnl c then str_s2_nl else str_s2_else)
                 ++ str_plain c ++ hstringc_loop SN r
    | SN => if N.eqb c str_bs then hstringc_loop S1 r else str_plain c ++ hstringc_loop SN r
    end
  end.
Definition hstring (v_value : str) : str := str_fmt_pre ++ hstringc_loop SN v_value ++ str_fmt_post.
Definition hstring_uri (v_value : str) : str := str_fmt_pre ++ hstring_loop SN v_value ++ str_fmt_post.
"""


class _Holes(ast.NodeTransformer):
    def visit_Constant(self, n):
        if isinstance(n.value, str):
            return ast.copy_location(ast.Constant(value="<str>"), n)
        return n


def string_loop(tree):
    import hashlib
    fn = find_func(tree, ["string"])
    if [a.arg for a in fn.args.args] != ["value", "linecontinuation"] or len(fn.args.defaults) != 1 or \
            not (isinstance(fn.args.defaults[0], ast.Constant) and fn.args.defaults[0].value is True):
        raise Refused("helper.string: signature is not (value, linecontinuation=True)")
    body = list(fn.body)
    if body and isinstance(body[0], ast.Expr) and isinstance(body[0].value, ast.Constant) and isinstance(body[0].value.value, str):
        body = body[1:]
    consts = []
    for b in body:
        for n in ast.walk(b):
            if isinstance(n, ast.Constant) and isinstance(n.value, str):
                consts.append((n.lineno, n.col_offset, n.value))
    consts = [v for _, _, v in sorted(consts)]
    shape = hashlib.sha256("".join(ast.dump(_Holes().visit(ast.parse(ast.unparse(b)))) for b in body).encode()).hexdigest()[:16]
    if shape != STRING_SHAPE:
        raise Refused("helper.string: the statement shape changed (%s, pinned %s): the hand-written loop model "
                      "hstring_loop no longer describes the code" % (shape, STRING_SHAPE))
    if len(consts) != 17:
        raise Refused("helper.string: %d string constants, expected 17" % len(consts))
    (t1, f1, h1, n1, e1, t2, f2, h2, n2, e2, t0, qe, q, end1, end2, fmt, joiner) = consts
    if not (t1 == t2 == t0 and len(t0) == 1):
        raise Refused("helper.string: the three backslash tests differ")
    if len(q) != 1 or joiner != "" or fmt.count("%s") != 1 or fmt.count("%") != 1:
        raise Refused("helper.string: quote test / join / format constants")
    # hstring_uri is the reading of `string(value, False)`: that is how helper.uri must call it
    ufn = find_func(tree, ["uri"])
    calls = [n for n in ast.walk(ufn) if isinstance(n, ast.Call) and isinstance(n.func, ast.Name) and n.func.id == "string"]
    if [ast.unparse(c) for c in calls] != ["string(value, False)"]:
        raise Refused("helper.uri does not call string(value, False) exactly once: %r" % [ast.unparse(c) for c in calls])
    glob = {}
    for n in tree.body:
        if isinstance(n, ast.Assign) and len(n.targets) == 1 and isinstance(n.targets[0], ast.Name):
            glob[n.targets[0].id] = n.value
    nl, hx = glob.get("_string_newlines"), glob.get("_hexdigits")
    if not (isinstance(nl, ast.Dict) and all(isinstance(k, ast.Constant) and isinstance(k.value, str) and len(k.value) == 1 and
                                             isinstance(v, ast.Constant) and isinstance(v.value, str) for k, v in zip(nl.keys, nl.values))):
        raise Refused("helper._string_newlines is not a dict of one-character keys to strings")
    if not (isinstance(hx, ast.Constant) and isinstance(hx.value, str)):
        raise Refused("helper._hexdigits is not a string constant")
    pre, post = fmt.split("%s")
    d = ["Definition str_bs : N := %d%%N." % ord(t0),
         "Definition str_quote : N := %d%%N." % ord(q),
         "Definition str_quote_esc : str := %s." % lit(qe),
         "Definition str_hexdigits : str := %s." % lit(hx.value),
         "Definition str_newlines : list (N * str) := [%s]." % "; ".join(
             "(%d%%N, %s)" % (ord(k.value), lit(v.value)) for k, v in zip(nl.keys, nl.values)),
         "Definition str_s1_first : str := %s." % lit(f1), "Definition str_s1_hex : str := %s." % lit(h1),
         "Definition str_s1_nl : str := %s." % lit(n1),
         "Definition str_s1_else : str := %s." % lit(e1), "Definition str_s2_first : str := %s." % lit(f2),
         "Definition str_s2_hex : str := %s." % lit(h2), "Definition str_s2_nl : str := %s." % lit(n2),
         "Definition str_s2_else : str := %s." % lit(e2),
         "Definition str_end1 : str := %s." % lit(end1), "Definition str_end2 : str := %s." % lit(end2),
         "Definition str_fmt_pre : str := %s." % lit(pre), "Definition str_fmt_post : str := %s." % lit(post)]
    return "(* helper.py : string  (loop; shape pinned, constants regenerated) *)\n" + "\n".join(d) + STRING_MODEL


def main():
    out = [string_loop(ast.parse(src("helper.py")))]
    for rel, path, coqname, params, ret in TARGETS:
        tree = ast.parse(src(rel))
        node = find_func(tree, path)
        if not isinstance(node, ast.FunctionDef):
            raise Refused("%s is not a function" % ".".join(path))
        out.append("(* %s : %s *)\n%s" % (rel, ".".join(path), Fn(node, coqname, params, ret).emit()))
    emit("Quote", "\n\n".join(out), requires="From CssV Require Import Base Regex Tokenizer Quote.")


if __name__ == "__main__":
    try:
        main()
    except Refused as e:
        print("translator refused: %s" % e)
        sys.exit(2)
