"""cssrule.py / cssstylesheet.py / cssmediarule.py / csspagerule.py  ->  Gen/Kinds.v   (property C07)

Regenerated on every run, fail-closed:
  * the CSSRule type constants                               -> Inductive kind, kind_code
  * the if/elif chain of CSSStyleSheet.insertRule (its shape is checked) and every
    `r.type in (...)` tuple of each branch, in source order -> named kind lists
  * the handlers of CSSStyleSheet._setCssText: `(expected or 0) > N` thresholds and the returned
    next state, keyed by the rule class the handler builds   -> parse_threshold, parse_next
  * the isinstance lists of CSSMediaRule.insertRule / CSSPageRule.insertRule and the at-keyword
    tuple / factories of the @media parser                    -> container tables
"""
import ast

from translate.common import Refused, emit, src, find_func, one


def attr_name(node, base):
    """`base.NAME` -> NAME"""
    if isinstance(node, ast.Attribute) and isinstance(node.value, ast.Name) and node.value.id in base:
        return node.attr
    raise Refused("expected %s.<CONST> at line %d" % ("/".join(base), node.lineno))


def type_tuples(node, consts):
    """all `X.type in (a.K1, a.K2, ...)` comparisons below node, in source order (generators excluded)"""
    out = []
    for n in ast.walk(node):
        if isinstance(n, ast.Compare) and len(n.ops) == 1 and isinstance(n.ops[0], ast.In) \
                and isinstance(n.left, ast.Attribute) and n.left.attr == "type" \
                and isinstance(n.comparators[0], ast.Tuple):
            names = [attr_name(e, ("r", "rule")) for e in n.comparators[0].elts]
            for k in names:
                if k not in consts:
                    raise Refused("unknown rule type constant %s at line %d" % (k, n.lineno))
            out.append((n.lineno, n.col_offset, names))
    out.sort()
    return [x[2] for x in out]


def is_type_eq(test, const):
    return (isinstance(test, ast.Compare) and len(test.ops) == 1 and isinstance(test.ops[0], ast.Eq)
            and isinstance(test.left, ast.Attribute) and test.left.attr == "type"
            and isinstance(test.comparators[0], ast.Attribute) and test.comparators[0].attr == const)


def klist(names):
    return "[" + "; ".join(names) + "]"


def main():
    import css_parser
    from css_parser.css import CSSRule
    import css_parser.css as C

    consts = {k: v for k, v in vars(CSSRule).items() if k.isupper() and isinstance(v, int)}
    if set(consts) != set(CSSRule._typestrings.values()) or len(set(consts.values())) != len(consts):
        raise Refused("CSSRule type constants and _typestrings disagree: %r" % sorted(consts))
    order = sorted(consts, key=lambda k: consts[k])
    b = []
    b.append("Inductive kind : Set :=\n  " + "\n  ".join("| %s" % k for k in order) + ".")
    b.append("Scheme Equality for kind.")
    b.append("Definition kind_code (k : kind) : N :=\n  match k with\n  " + "\n  ".join(
        "| %s => %d%%N" % (k, consts[k]) for k in order) + "\n  end.")
    b.append("Definition all_kinds : list kind := %s." % klist(order))

    # ---------------------------------------------------------------- CSSStyleSheet.insertRule
    tree = ast.parse(src("css/cssstylesheet.py"))
    fn = find_func(tree, ["CSSStyleSheet", "insertRule"])
    chain = one((n for n in fn.body if isinstance(n, ast.If) and is_type_eq(n.test, "CHARSET_RULE")),
                "`if rule.type == rule.CHARSET_RULE` chain in insertRule")
    # statements `if rule.type == rule.X: log.error(...); return` in front of the chain: kinds a sheet never takes
    refused = []
    for n in fn.body:
        if isinstance(n, ast.If) and n is not chain and isinstance(n.test, ast.Compare) and \
                isinstance(n.test.left, ast.Attribute) and n.test.left.attr == "type":
            if not (len(n.test.ops) == 1 and isinstance(n.test.ops[0], ast.Eq) and not n.orelse and len(n.body) == 2
                    and isinstance(n.body[0], ast.Expr) and isinstance(n.body[0].value, ast.Call)
                    and isinstance(n.body[0].value.func, ast.Attribute) and n.body[0].value.func.attr == "error"
                    and isinstance(n.body[1], ast.Return) and n.body[1].value is None
                    and n.lineno < chain.lineno):
                raise Refused("insertRule: unexpected test on rule.type at line %d" % n.lineno)
            k = attr_name(n.test.comparators[0], ("rule",))
            if k not in consts:
                raise Refused("unknown rule type constant %s" % k)
            refused.append(k)
    branches = []
    node = chain
    while True:
        branches.append((node.test, node.body))
        if len(node.orelse) == 1 and isinstance(node.orelse[0], ast.If) and \
                node.orelse[0].col_offset == chain.col_offset:   # an `elif`, not `else: if`
            node = node.orelse[0]
        else:
            branches.append((None, node.orelse))
            break
    if len(branches) != 6:
        raise Refused("insertRule: expected 6 branches (charset, unknown/comment, import, namespace, variables, "
                      "other), found %d" % len(branches))
    t1 = branches[1][0]
    if not (isinstance(t1, ast.BoolOp) and isinstance(t1.op, ast.And) and len(t1.values) == 2
            and isinstance(t1.values[1], ast.UnaryOp) and isinstance(t1.values[1].op, ast.Not)
            and isinstance(t1.values[1].operand, ast.Name) and t1.values[1].operand.id == "inOrder"):
        raise Refused("insertRule: second branch is not `rule.type in (...) and not inOrder`")
    for i, c in ((2, "IMPORT_RULE"), (3, "NAMESPACE_RULE"), (4, "VARIABLES_RULE")):
        if not is_type_eq(branches[i][0], c):
            raise Refused("insertRule: branch %d does not test rule.type == rule.%s" % (i, c))
    wrap = lambda body: ast.Module(body=body, type_ignores=[])  # noqa: E731
    if type_tuples(wrap(branches[0][1]), consts):
        raise Refused("insertRule: unexpected kind tuple in the @charset branch")
    uc = type_tuples(t1.values[0], consts)
    if len(uc) != 1 or type_tuples(wrap(branches[1][1]), consts):
        raise Refused("insertRule: unexpected shape of the unknown/comment branch")
    names = {
        2: ["import_first_kinds", "import_before_kinds"],
        3: ["ns_skip_kinds", "ns_stop_kinds", "ns_after_kinds", "ns_before_kinds"],
        4: ["var_skip_kinds", "var_stop_kinds", "var_after_kinds", "var_before_kinds"],
        5: ["other_after_kinds"],
    }
    b.append("(* CSSStyleSheet.insertRule: kind tuples per branch, in source order *)")
    b.append("Definition sheet_refused_kinds : list kind := %s." % klist(refused))
    b.append("Definition uc_kinds : list kind := %s." % klist(uc[0]))
    for i, nm in names.items():
        tups = type_tuples(wrap(branches[i][1]), consts)
        if len(tups) != len(nm):
            raise Refused("insertRule: branch %d has %d kind tuples, expected %d (%s)" % (i, len(tups), len(nm), nm))
        for n, t in zip(nm, tups):
            b.append("Definition %s : list kind := %s." % (n, klist(t)))

    # ---------------------------------------------------------------- the parser's expected machine
    sc = find_func(tree, ["CSSStyleSheet", "_setCssText"])
    handlers = {n.name: n for n in sc.body if isinstance(n, ast.FunctionDef)}
    call = one((n for n in ast.walk(sc) if isinstance(n, ast.Call) and isinstance(n.func, ast.Attribute)
                and n.func.attr == "_parse"), "self._parse(...) call in _setCssText")
    if not (isinstance(call.args[0], ast.Constant) and call.args[0].value == 0):
        raise Refused("_setCssText: initial expected is not 0")
    prods = call.args[3]
    if not isinstance(prods, ast.Dict):
        raise Refused("_setCssText: productions are not a dict literal")
    default = [k.value for k in call.keywords if k.arg == "default"]
    used = set()
    for k, v in zip(prods.keys, prods.values):
        if isinstance(v, ast.Name):
            used.add(v.id)
        elif not (isinstance(v, ast.Lambda) and isinstance(v.body, ast.Constant) and v.body.value is None
                  and k.value in ("CDO", "CDC")):
            raise Refused("_setCssText: production %r is neither a handler nor the CDO/CDC no-op" % (k.value,))
    if len(default) != 1 or not isinstance(default[0], ast.Name):
        raise Refused("_setCssText: no default handler")
    used.add(default[0].id)

    def classes_built(f):
        out = []
        for n in ast.walk(f):
            if isinstance(n, ast.Call) and isinstance(n.func, ast.Attribute) and isinstance(n.func.value, ast.Attribute) \
                    and n.func.value.attr == "css" and hasattr(C, n.func.attr) and n.func.attr != "CSSRuleList":
                out.append(n.func.attr)
        return out

    def expected_or_0(e):
        return (isinstance(e, ast.BoolOp) and isinstance(e.op, ast.Or) and isinstance(e.values[0], ast.Name)
                and e.values[0].id == "expected" and isinstance(e.values[1], ast.Constant) and e.values[1].value == 0)

    thr, nxt, discarded, dthr, keeps = {}, {}, [], {}, {}
    for hn in sorted(used):
        f = handlers.get(hn)
        if f is None:
            raise Refused("_setCssText: handler %s not found" % hn)
        th = None
        for n in ast.walk(f):
            if isinstance(n, ast.Compare) and expected_or_0(n.left):
                if th is not None or not isinstance(n.ops[0], ast.Gt) or not isinstance(n.comparators[0], ast.Constant):
                    raise Refused("handler %s: unexpected test on expected" % hn)
                th = n.comparators[0].value
        rets = [n for n in f.body if isinstance(n, ast.Return)]
        if len(rets) != 1 or rets[0] is not f.body[-1]:
            raise Refused("handler %s: not exactly one final return" % hn)
        rv = rets[0].value
        if isinstance(rv, ast.Constant) and isinstance(rv.value, int):
            nx = rv.value
        elif (isinstance(rv, ast.Call) and isinstance(rv.func, ast.Name) and rv.func.id == "max"
              and isinstance(rv.args[0], ast.Constant) and rv.args[0].value == 1 and expected_or_0(rv.args[1])):
            nx = None
        else:
            raise Refused("handler %s: unexpected return value" % hn)
        # a branch `if token[1] in css_parser.css.MarginRule.margins:` that builds no rule and returns the handler's
        # own final value: the statement is consumed and discarded
        discard_branches = []
        for n in ast.walk(f):
            if isinstance(n, ast.If) and "MarginRule.margins" in ast.unparse(n.test):
                built_here = [c for s in n.body for c in classes_built(s)]
                last = n.body[-1]
                if not built_here:
                    if not (isinstance(last, ast.Return) and ast.dump(last.value) == ast.dump(rv)):
                        raise Refused("handler %s: margin branch builds no rule and does not return the final value" % hn)
                    discard_branches.append(last)
                    discarded.append("MARGIN_RULE")
                    dthr["MARGIN_RULE"] = (th, nx)
        # `if/elif not rule.wellformed: return expected`: a malformed statement leaves the order state alone
        wf_returns = []
        for n in ast.walk(f):
            if isinstance(n, ast.If) and ast.unparse(n.test) == "not rule.wellformed":
                last = n.body[-1]
                if not (len(n.body) == 1 and isinstance(last, ast.Return) and isinstance(last.value, ast.Name)
                        and last.value.id == "expected"):
                    raise Refused("handler %s: `not rule.wellformed` branch is not a bare `return expected`" % hn)
                wf_returns.append(last)
        inner = [n for n in ast.walk(f) if isinstance(n, ast.Return) and n is not rets[0] and n not in discard_branches
                 and n not in wf_returns]
        for n in inner:
            if not (isinstance(n.value, ast.Name) and n.value.id == "expected"):
                raise Refused("handler %s: early return of something else than expected" % hn)
        if bool(inner) != (th is not None):
            raise Refused("handler %s: threshold test and early return do not match" % hn)
        cls = classes_built(f)
        if hn == "S":
            if th is not None or nx is not None:
                raise Refused("handler S changed")
            continue
        if not cls:
            raise Refused("handler %s builds no rule" % hn)
        for c in cls:
            k = CSSRule._typestrings[getattr(C, c)().type]
            if k in thr and (thr[k], nxt[k], keeps[k]) != (th, nx, bool(wf_returns)):
                raise Refused("two handlers disagree for %s" % k)
            thr[k], nxt[k], keeps[k] = th, nx, bool(wf_returns)
    for k, (th, nx) in dthr.items():
        if k in thr:
            raise Refused("%s is both built and discarded by the parser" % k)
        thr[k], nxt[k] = th, nx
    if set(thr) != set(consts):
        raise Refused("parser handlers do not cover all kinds: missing %r" % sorted(set(consts) - set(thr)))
    b.append("(* CSSStyleSheet._setCssText: `if (expected or 0) > N` threshold (None: no test) and returned state\n"
             "   (None: max(1, expected or 0)) of the handler that builds each kind *)")
    b.append("Definition parse_threshold (k : kind) : option nat :=\n  match k with\n  " + "\n  ".join(
        "| %s => %s" % (k, "None" if thr[k] is None else "Some %d" % thr[k]) for k in order) + "\n  end.")
    b.append("(* kinds whose handler returns `expected` unchanged when the rule it parsed is not wellformed *)")
    b.append("Definition parse_malformed_keeps_state : list kind := %s." % klist([k for k in order if keeps.get(k)]))
    b.append("(* statements the parser consumes without keeping a rule *)")
    b.append("Definition parse_discarded_kinds : list kind := %s." % klist(sorted(set(discarded))))
    b.append("Definition parse_next (k : kind) : option nat :=\n  match k with\n  " + "\n  ".join(
        "| %s => %s" % (k, "None" if nxt[k] is None else "Some %d" % nxt[k]) for k in order) + "\n  end.")

    # ---------------------------------------------------------------- containers
    def isinstance_kinds(path, rel):
        f = find_func(ast.parse(src(rel)), path)
        out = []
        for n in ast.walk(f):
            if isinstance(n, ast.Call) and isinstance(n.func, ast.Name) and n.func.id == "isinstance":
                # isinstance(rule, X) or isinstance(rule, (X, Y, ...))
                cs = n.args[1].elts if isinstance(n.args[1], ast.Tuple) else [n.args[1]]
                for c in cs:
                    cname = c.attr if isinstance(c, ast.Attribute) else c.id if isinstance(c, ast.Name) else None
                    if cname == "string_type":
                        continue
                    if cname is None or not hasattr(C, cname):
                        raise Refused("%s: isinstance against an unknown class" % ".".join(path))
                    out.append((c.lineno, c.col_offset, CSSRule._typestrings[getattr(C, cname)().type]))
        if not out:
            raise Refused("%s: no isinstance checks found" % ".".join(path))
        return [x[2] for x in sorted(out)]

    b.append("(* containers: kinds refused by insertRule (isinstance lists) and by the @media parser *)")
    b.append("Definition media_forbidden_insert : list kind := %s." % klist(
        isinstance_kinds(["CSSMediaRule", "insertRule"], "css/cssmediarule.py")))
    # CSSPageRule.insertRule: either the old `isinstance(...) or ...` list of refused classes, or
    # `if not isinstance(rule, MarginRule)` (only these are taken) + text parsed as a margin rule + merge of a
    # margin that is already there
    pf = find_func(ast.parse(src("css/csspagerule.py")), ["CSSPageRule", "insertRule"])
    neg = [n for n in ast.walk(pf) if isinstance(n, ast.UnaryOp) and isinstance(n.op, ast.Not)
           and isinstance(n.operand, ast.Call) and isinstance(n.operand.func, ast.Name)
           and n.operand.func.id == "isinstance"]
    listed = isinstance_kinds(["CSSPageRule", "insertRule"], "css/csspagerule.py")
    n_isinst = len([n for n in ast.walk(pf) if isinstance(n, ast.Call) and isinstance(n.func, ast.Name)
                    and n.func.id == "isinstance"])
    text_branch = [n for n in pf.body if isinstance(n, ast.If) and "string_type" in ast.unparse(n.test)]
    if neg:
        # isinstance calls: the string test of the text branch and the negated hierarchy test
        if len(neg) != 1 or n_isinst != 1 + len(text_branch):
            raise Refused("CSSPageRule.insertRule: unexpected isinstance tests")
        allowed = [k for k in listed]          # classes named by the negated test
        page_forbidden = [k for k in order if k not in allowed]
    else:
        if text_branch:
            raise Refused("CSSPageRule.insertRule: text branch without the margin-only test")
        page_forbidden = listed
    if text_branch and not (len(text_branch) == 1 and text_branch[0] is pf.body[1 if isinstance(pf.body[0], ast.Expr) else 0]
                            and "MarginRule()" in ast.unparse(text_branch[0])):
        raise Refused("CSSPageRule.insertRule: unexpected text branch")
    merges = [n for n in ast.walk(pf) if isinstance(n, ast.For) and "r.margin == rule.margin" in ast.unparse(n)]
    if merges and not (len(merges) == 1 and isinstance(merges[0].body[0], ast.If)
                       and isinstance(merges[0].body[0].body[-1], ast.Return)):
        raise Refused("CSSPageRule.insertRule: unexpected merge loop")
    b.append("Definition page_forbidden_insert : list kind := %s." % klist(page_forbidden))
    b.append("Definition page_text_as_margin : bool := %s.   (* insertRule(text) parses the text with MarginRule().cssText *)"
             % ("true" if text_branch else "false"))
    b.append("Definition page_merges_duplicates : bool := %s.   (* a margin that is already there is merged, not inserted *)"
             % ("true" if merges else "false"))
    mtree = ast.parse(src("css/cssmediarule.py"))
    at = None
    for n in ast.walk(find_func(mtree, ["CSSMediaRule", "_setCssText"])):
        if isinstance(n, ast.FunctionDef) and n.name == "atrule":
            at = n
    if at is None:
        raise Refused("CSSMediaRule._setCssText: atrule handler not found")
    tup = one((n for n in ast.walk(at) if isinstance(n, ast.Compare) and isinstance(n.ops[0], ast.In)
               and isinstance(n.left, ast.Name) and n.left.id == "atval" and isinstance(n.comparators[0], ast.Tuple)),
              "`atval in (...)` tuple")
    fac = one((n for n in ast.walk(at) if isinstance(n, ast.Dict)), "factories dict")
    atk = {}
    for cname in dir(C):
        cls = getattr(C, cname)
        if isinstance(cls, type) and issubclass(cls, CSSRule) and cls not in (CSSRule, C.MarginRule, C.CSSUnknownRule,
                                                                               C.CSSComment, C.CSSStyleRule):
            try:
                o = cls()
            except Exception:
                continue
            if getattr(o, "atkeyword", None):
                atk[o.atkeyword] = CSSRule._typestrings[o.type]

    def at_kinds(elts):
        out = []
        for e in elts:
            if not (isinstance(e, ast.Constant) and isinstance(e.value, str)):
                raise Refused("@media parser: at-keyword is not a string constant")
            k = atk.get(e.value.strip())
            if k is None:
                raise Refused("@media parser: unknown at-keyword %r" % e.value)
            out.append(k)
        return out
    b.append("Definition media_forbidden_parse : list kind := %s." % klist(at_kinds(tup.comparators[0].elts)))
    b.append("Definition media_factories : list kind := %s." % klist(at_kinds(fac.keys)))
    emit("Kinds", "\n\n".join(b), requires="From CssV Require Import Base.")


if __name__ == "__main__":
    try:
        main()
    except Refused as e:
        import sys
        sys.stderr.write("translate/kinds.py REFUSED: %s\n" % e)
        sys.exit(2)
