"""C19: every text setter of the anchored files  ->  Gen/Scripts.v  (commit/raise scripts, see Atomic.v)

The setters are discovered from the running classes (`X = property(fget, fset)` in the anchored
modules), their *current* source is read with inspect, parsed with `ast` and linearised:

  self._log.<level>(...)            -> Check            (Skip with neverraise=True)
  raise ...                         -> Check            (Skip when an enclosing try catches that class)
  self._checkReadonly()             -> CheckRO
  constructor with a text argument, ProdParser().parse(..), public attribute assignment /
  unknown method on a temporary     -> CallTemp
  self.x = .. / self.x[i] = .. / del self.x[..] / reviewed mutators (MUTATORS)  -> WriteSelf "x"
  self.<property with a setter> = v -> the setter of the class, inlined in a Scope
  self.<method>(..)                 -> PURE_SELF: Skip; MUTATORS: WriteSelf; otherwise the method of the
                                       class (MRO) is inlined in a Scope; recursion is refused
  self._parse(expected, seq, tokens, productions, default) -> Loop (If h1 (If h2 ...)) over the handler
                                       functions (local defs + the class's _adddefaultproductions)
  if / elif / else                  -> If (arms are alternatives); `isinstance(p, string_type)` is folded when p is
                                       bound to a freshly constructed object
  for / while (+ else)              -> Loop;  break/continue -> Break;  return -> Return
  try/except (handlers for non-DOM exception classes only) -> (body | Skip); (handlers | else)

Lenient mode (second theorem, AtomicLenient.v): a log call in a block that also clears a commit flag
(`wellformed = False`, `ok = False`, `new['wellformed'] = False`; names ending in ok/wellformed) -> LFail; any other
assignment to such a flag (`ok = ok and x.wellformed`, `ok, seq, .. = ProdParser().parse(..)`) -> LMayFail;
`if <flag>:` / `if <flag> and ..:` -> LGuard body (`if not <flag>: A else: B` -> LIf A (LGuard B)); the
'Unexpected token' error of _parse -> LFail.  A flag that is re-assigned from a call after it may already have
been cleared is refused (a failure could be lost).

Everything else is REFUSED (fail-closed): the setter is then listed in `refused` and must be hand-transcribed
in coq/theories/AtomicHand.v.  The tables below are reviewed by hand and are part of the trusted base; the
correspondence of harness/props/c19.py checks them against executions (changed attributes of the object must be
fields the script may write).
"""
import ast
import hashlib
import inspect
import sys
import textwrap

from translate.common import Refused, emit

# ----------------------------------------------------------------------------- reviewed tables
ANCHOR_MODULES = [
    "css_parser.css.cssstylerule", "css_parser.css.cssmediarule", "css_parser.css.selector",
    "css_parser.css.selectorlist", "css_parser.stylesheets.medialist", "css_parser.stylesheets.mediaquery",
    "css_parser.css.property", "css_parser.css.value", "css_parser.css.csspagerule",
    "css_parser.css.cssimportrule", "css_parser.css.cssnamespacerule", "css_parser.css.csscharsetrule",
    "css_parser.css.cssunknownrule", "css_parser.css.csscomment", "css_parser.css.cssfontfacerule",
    "css_parser.css.marginrule",
]
# not anchored, translated as a bonus (a refusal here is reported but needs no hand transcription)
EXTRA_MODULES = ["css_parser.css.cssstyledeclaration", "css_parser.css.cssrule"]

# methods of self that do not modify self and do not raise DOM exceptions (util.Base helpers + read-only queries)
PURE_SELF = {
    "_tokenize2", "_tokensupto2", "_nexttoken", "_type", "_tokenvalue", "_stringtokenvalue", "_uritokenvalue",
    "_valuestr", "_normalize", "_normalizeatkeyword", "_splitNamespacesOff", "_tempSeq", "_isValidating", "_getUsedNamespaces",
    "_getUsedUris", "__items", "getProperties", "keys", "__nnames", "item",
}
# methods of self that modify self without raising a DOM exception on the values they are given here
MUTATORS = {
    "_setSeq": "_seq", "_clearSeq": "_seq", "insertRule": "_cssRules", "deleteRule": "_cssRules",
    "add": "_cssRules", "_setCssRules": "_cssRules", "_replaceNamespaceURI": "_namespaceURI",
}
# calls of a method on an attribute of self: (attribute, method) -> effect
SELF_ATTR_CALLS = {
    ("cssRules", "append"): ("write", "_cssRules"),      # cssRules.append is rebound to self.insertRule
    ("parentStyleSheet", "_resolveImport"): ("calltemp", None),   # fetches + decodes, may raise
}
# <temporary>.<name> = v for these names is a plain store (CSSRuleRules._setCssRules rebinds the list methods
# of the CSSRuleList it is given; no class of css_parser defines a setter of that name)
LOCAL_PLAIN_ATTRS = {"append", "extend"}
# <self.attr>.<name> = v  that are plain attribute stores (no setter, cannot raise)
SELF_ATTR_PLAIN = {("styleSheet", "title")}
# attributes of self that cannot be observed through the object model (diagnostics only)
UNOBSERVED = {"_Property__nametoken"}
# property setters whose checks cannot fire at this call site (dead checks); reason recorded in the output.
# (Two entries for `self.atkeyword = <keyword token>` were WRONG and have been removed: '@\\69mport' is typed IMPORT_SYM
#  but rejected by _setAtkeyword.  The commit blocks now set atkeyword first, so no exemption is needed.)
DEAD_CHECKS = {
    ("CSSImportRule", "_setCssText", "name"): "new['name'] is None or the str returned by _stringtokenvalue",
    ("CSSImportRule", "_setCssText", "media"): "new['media'] is a wellformed MediaList (checked when it was stored)",
    ("CSSMediaRule", "_setCssText", "name"): "name is None or the str returned by _stringtokenvalue",
}
# boolean attributes of self that are fixed at construction and select a mode of the setter: one script per value
MODE_FLAGS = {"Property": "_mediaQuery"}
# (class, mode flag, attribute): in that mode the attribute holds '' at all times (set to '' by __init__ and only ever
# assigned the constant '' there), so `self.<attribute> = ''` does not change the object: translated to Skip
CONST_EMPTY_IN_MODE = {("Property", "_mediaQuery", "_priority"), ("Property", "_mediaQuery", "_literalpriority")}
# plain functions / builtins without effect on self
PURE_FUNCS = {
    "len", "isinstance", "iter", "next", "tuple", "list", "bool", "hasattr", "getattr", "reversed", "enumerate",
    "chain", "str", "text_type", "normalize", "as_list", "int", "float", "set", "dict", "sorted", "urljoin", "type",
    "pushtoken", "repr", "min", "max", "any", "all", "zip", "range", "id", "round", "abs",
}
PURE_QUALIFIED = {
    "css_parser.profile.validateWithProfile", "css_parser.helper.path2url", "os.getcwd", "codecs.lookup",
    "css_parser.helper.normalize", "css_parser.helper.string", "css_parser.helper.uri", "colorsys.hls_to_rgb",
}
# grammar-building constructors (ProdParser combinators): building them has no effect and cannot raise
GRAMMAR_CTORS = {"Prod", "Sequence", "Choice", "ProdParser", "PreDef"}
# keyword arguments of a constructor that do not carry text to parse
CTOR_PLAIN_KW = {"parentRule", "parentStyleSheet", "parent", "readonly", "_partof", "ownerRule", "title", "media",
                 "_mediaQuery"}
# methods on temporaries (lists, dicts, strs, Seq, tokens) that are harmless
LOCAL_PURE_METHODS = {
    "append", "pop", "insert", "startswith", "endswith", "lower", "upper", "find", "strip", "split", "get", "update",
    "join", "items", "keys", "values", "remove", "extend", "clear", "replace", "appendItem", "rstrip", "count",
    "index", "copy", "format", "lstrip", "isdigit", "group", "match", "sub",
}
DOM_EXC_HINT = ("xml", "dom", "DOMException", "Exception", "BaseException", "SyntaxErr", "NamespaceErr",
                "HierarchyRequestErr", "InvalidModificationErr", "NoModificationAllowedErr", "IndexSizeErr",
                "NotFoundErr", "InvalidCharacterErr")


# ----------------------------------------------------------------------------- script terms
def Seq(*xs):
    out = []
    for x in xs:
        if x is None or x == ("Skip",):
            continue
        if x[0] == "Seq":
            out.extend(x[1])
        else:
            out.append(x)
    if not out:
        return ("Skip",)
    if len(out) == 1:
        return out[0]
    return ("Seq", out)


def If(*arms):
    arms = list(arms)
    uniq = []
    for a in arms:
        if a not in uniq:
            uniq.append(a)
    if len(uniq) == 1:
        return uniq[0]
    return ("If", uniq)


def Loop(x):
    if x == ("Skip",):
        return x
    return ("Loop", x)


def Guard(x):
    if x == ("Skip",):
        return x
    return ("Guard", x)


def to_fail(x):
    """the log call at the end of x (a Check) clears the commit flag: LFail"""
    if x == ("Check",):
        return ("Fail",)
    if x[0] == "Seq" and x[1][-1] == ("Check",):
        return Seq(*(x[1][:-1] + [("Fail",)]))
    return x


def is_flag_name(name):
    return name in ("ok", "wellformed") or name.endswith("ok") or name.endswith("wellformed") or name.endswith("Ok")


def is_flag_target(t):
    if isinstance(t, ast.Name):
        return is_flag_name(t.id)
    if isinstance(t, ast.Subscript) and isinstance(t.value, ast.Name) and isinstance(t.slice, ast.Constant) \
            and isinstance(t.slice.value, str) and is_flag_name(t.slice.value):
        return True
    return False


def flat_targets(targets):
    out = []
    for t in targets:
        if isinstance(t, (ast.Tuple, ast.List)):
            out += flat_targets(t.elts)
        else:
            out.append(t)
    return out


def has(x, kind):
    if x[0] == kind:
        return True
    if x[0] in ("Seq", "If"):
        return any(has(y, kind) for y in x[1])
    if x[0] in ("Loop", "Guard"):
        return has(x[1], kind)
    if x[0] == "Scope":
        return has(x[1], kind) if kind != "Return" else False
    return False


def Scope(x):
    if not has(x, "Return"):
        return x
    # a trailing Return is just the end of the body
    if x[0] == "Seq" and x[1][-1] == ("Return",) and not any(has(y, "Return") for y in x[1][:-1]):
        return Seq(*x[1][:-1])
    if x == ("Return",):
        return ("Skip",)
    return ("Scope", x)


def drop_fallible(x):
    """dead-check table: the same script with Check / CallTemp / CheckRO removed"""
    k = x[0]
    if k in ("Check", "CallTemp", "CheckRO", "Fail", "MayFail"):
        return ("Skip",)
    if k == "Guard":
        return Guard(drop_fallible(x[1]))
    if k == "Seq":
        return Seq(*[drop_fallible(y) for y in x[1]])
    if k == "If":
        return If(*[drop_fallible(y) for y in x[1]])
    if k == "Loop":
        return Loop(drop_fallible(x[1]))
    if k == "Scope":
        return Scope(drop_fallible(x[1]))
    return x


def coq(x, ind=2):
    k = x[0]
    pad = " " * ind
    if k in ("Skip", "Check", "CheckRO", "CallTemp", "Return", "Break", "Fail", "MayFail"):
        return "L" + k
    if k == "Write":
        return 'LWrite "%s"' % x[1]
    if k == "Guard":
        return "LGuard (%s)" % coq(x[1], ind + 1)
    if k == "Seq":
        items = x[1]
        s = coq(items[-1], ind)
        for y in reversed(items[:-1]):
            s = "LSeq (%s)\n%s(%s)" % (coq(y, ind + 1), pad, s)
        return s
    if k == "If":
        items = x[1]
        s = coq(items[-1], ind)
        for y in reversed(items[:-1]):
            s = "LIf (%s)\n%s(%s)" % (coq(y, ind + 1), pad, s)
        return s
    if k == "Loop":
        return "LLoop (%s)" % coq(x[1], ind + 1)
    if k == "Scope":
        return "LScope (%s)" % coq(x[1], ind + 1)
    raise AssertionError(k)


def size(x):
    if x[0] in ("Seq", "If"):
        return 1 + sum(size(y) for y in x[1])
    if x[0] in ("Loop", "Scope", "Guard"):
        return 1 + size(x[1])
    return 1


# ----------------------------------------------------------------------------- source access
_src_cache = {}
_mod_cache = {}


def func_ast(fn):
    """AST (FunctionDef) of a function object, located by line number in its current source file"""
    fn = inspect.unwrap(fn)
    if not hasattr(fn, "__code__"):
        raise Refused("%r has no code object" % (fn,))
    fname, line = fn.__code__.co_filename, fn.__code__.co_firstlineno
    key = (fname, line)
    if key not in _src_cache:
        if fname not in _mod_cache:
            try:
                _mod_cache[fname] = ast.parse(open(fname).read())
            except (OSError, SyntaxError) as e:
                raise Refused("no source for %r: %s" % (fn, e))
        found = [n for n in ast.walk(_mod_cache[fname]) if isinstance(n, ast.FunctionDef)
                 and n.name == fn.__code__.co_name and (n.lineno == line or (n.decorator_list and n.decorator_list[0].lineno == line))]
        if len(found) != 1:
            raise Refused("%s:%d: cannot locate the def of %s" % (fname, line, fn.__code__.co_name))
        node = found[0]
        if node.decorator_list:
            raise Refused("decorated method %s" % node.name)
        _src_cache[key] = node
    return _src_cache[key]


def defining_class(cls, name):
    for k in cls.__mro__:
        if name in k.__dict__:
            return k
    return None


def mangle(defcls, name):
    if name.startswith("__") and not name.endswith("__"):
        return "_%s%s" % (defcls.__name__.lstrip("_"), name)
    return name


def dotted(node):
    parts = []
    while isinstance(node, ast.Attribute):
        parts.append(node.attr)
        node = node.value
    if isinstance(node, ast.Name):
        parts.append(node.id)
        return ".".join(reversed(parts))
    return None


def is_self(node):
    return isinstance(node, ast.Name) and node.id == "self"


def self_root(node):
    """for self.a.b[c].d returns ('a', rest-depth) else None"""
    depth = 0
    while isinstance(node, (ast.Attribute, ast.Subscript)):
        if isinstance(node, ast.Attribute) and is_self(node.value):
            return node.attr, depth
        node = node.value
        depth += 1
    return None


def local_root(node):
    while isinstance(node, (ast.Attribute, ast.Subscript)):
        node = node.value
    if isinstance(node, ast.Name) and node.id != "self":
        return node.id
    if isinstance(node, ast.Call):
        return "<call>"
    return None


# ----------------------------------------------------------------------------- the linearizer
class Env:
    def __init__(self, cls, defcls, setter_key, parent=None):
        self.cls = cls
        self.defcls = defcls
        self.setter_key = setter_key          # (class name, setter name) of the outermost setter
        self.funcs = {} if parent is None else dict(parent.funcs)    # local defs visible here
        self.kinds = {} if parent is None else dict(parent.kinds)    # local name -> 'obj' | 'alias:<attr>'
        self.stack = [] if parent is None else parent.stack
        self.caught = [] if parent is None else list(parent.caught)  # exception class names caught by enclosing try
        self.notes = parent.notes if parent is not None else []
        self.infallible = parent.infallible if parent is not None else False
        self.flags_seen = parent.flags_seen if parent is not None else set()


class Lin:
    def __init__(self, cls, setter_name, fn, mode=None):
        self.cls = cls
        self.setter_name = setter_name
        self.fn = fn
        self.notes = []
        self.mode = mode or {}

    # -------------------------------------------------- helpers
    def backing(self, cls, attr):
        """field name written when something below self.<attr> is modified"""
        p = inspect.getattr_static(cls, attr, None)
        if isinstance(p, property) and p.fget is not None and p.fget.__name__ == "<lambda>":
            try:
                text = inspect.getsource(p.fget)
            except OSError:
                return attr
            import re
            m = re.search(r"lambda self:\s*self\.(\w+)", text)
            if m:
                return m.group(1)
        return attr

    def is_ctor(self, call):
        """constructor call of a css_parser class or grammar combinator?  returns class simple name or None"""
        f = call.func
        name = None
        if isinstance(f, ast.Name):
            name = f.id
        elif isinstance(f, ast.Attribute):
            name = f.attr
            d = dotted(f)
            if d is None or not (d.startswith("css_parser.") or d.startswith("PreDef.")):
                # e.g. factories[atval](...)
                return None
            if d.startswith("PreDef."):
                return "PreDef"
        if name and name[:1].isupper() and name not in ("S",):
            return name
        if name and name.startswith("_") and name.endswith("Prod"):
            return "Prod"
        return None

    def ctor_effect(self, call, env):
        name = self.is_ctor(call)
        pre = [self.expr(a, env) for a in call.args] + [self.expr(k.value, env) for k in call.keywords]
        if name in GRAMMAR_CTORS or name.endswith("Prod"):
            return Seq(*pre)
        texty = False
        for a in call.args:
            if not isinstance(a, ast.Constant):
                texty = True
        for k in call.keywords:
            if k.arg in CTOR_PLAIN_KW:
                continue
            if not isinstance(k.value, ast.Constant):
                texty = True
        return Seq(*(pre + [("CallTemp",) if texty else ("Skip",)]))

    def kind_of(self, node, env):
        if isinstance(node, ast.Name):
            return env.kinds.get(node.id)
        if isinstance(node, ast.Call) and self.is_ctor(node):
            return "obj:" + self.is_ctor(node)
        if isinstance(node, ast.Constant) and node.value is None:
            return "none"
        return None

    def plain_attr(self, kind, attr):
        """is <fresh object of a known class>.<attr> = v a plain instance-attribute store (no setter runs)?"""
        if not kind or not kind.startswith("obj:"):
            return False
        import css_parser.css as C
        import css_parser.stylesheets as SS
        import css_parser.util as U
        for ns in (C, SS, U):
            k = getattr(ns, kind[4:], None)
            if inspect.isclass(k):
                d = inspect.getattr_static(k, attr, None)
                return not (hasattr(type(d), "__set__") or isinstance(d, property))
        return False

    # -------------------------------------------------- inlining
    def inline(self, fn_node, defcls, env, argkinds=None, bound_funcs=None, what=""):
        key = (defcls.__name__ if defcls else "?", fn_node.name, fn_node.lineno)
        if key in env.stack:
            raise Refused("recursive call of %s.%s" % key[:2])
        if len(env.stack) > 12:
            raise Refused("inlining too deep at %s" % (key,))
        sub = Env(env.cls, defcls or env.defcls, env.setter_key, env)
        sub.caught = []
        if not bound_funcs and fn_node.name not in env.funcs:
            sub.flags_seen = set()          # a method has its own local names (closures share them)
        if bound_funcs:
            sub.funcs.update(bound_funcs)
        params = [a.arg for a in fn_node.args.args]
        for p in params:
            sub.kinds.pop(p, None)
        for p, k in (argkinds or {}).items():
            if k:
                sub.kinds[p] = k
        env.stack.append(key)
        try:
            body = self.block(fn_node.body, sub)
        finally:
            env.stack.pop()
        return Scope(body)

    def call_self_method(self, name, call, env):
        cls = env.cls
        raw = name
        name = mangle(env.defcls, name)
        pre = Seq(*([self.expr(a, env) for a in call.args] + [self.expr(k.value, env) for k in call.keywords]))
        if raw == "_checkReadonly":
            return Seq(pre, ("CheckRO",))
        if raw == "_parse":
            return Seq(pre, self.parse_call(call, env))
        if raw in PURE_SELF:
            return pre
        if raw in MUTATORS:
            return Seq(pre, ("Write", MUTATORS[raw]))
        target = inspect.getattr_static(cls, name, None)
        if target is None:
            raise Refused("line %d: unknown method self.%s" % (call.lineno, raw))
        if isinstance(target, (staticmethod, classmethod)):
            target = target.__func__
        if not inspect.isfunction(target):
            raise Refused("line %d: self.%s is not a function" % (call.lineno, raw))
        dc = defining_class(cls, name)
        node = func_ast(target)
        argk = {}
        ps = [a.arg for a in node.args.args][1:]
        for p, a in zip(ps, call.args):
            argk[p] = self.kind_of(a, env)
        for k in call.keywords:
            argk[k.arg] = self.kind_of(k.value, env)
        return Seq(pre, self.inline(node, dc, env, argk))

    def parse_call(self, call, env):
        """self._parse(expected, seq, tokenizer, productions, default=None, new=None, initialtoken=None)"""
        names = ["expected", "seq", "tokenizer", "productions", "default", "new", "initialtoken"]
        args = dict(zip(names, call.args))
        for k in call.keywords:
            args[k.arg] = k.value
        seq = args.get("seq")
        if not isinstance(seq, ast.Name) or (env.kinds.get(seq.id) or "").startswith("alias"):
            raise Refused("line %d: _parse with a seq argument that is not a local temporary" % call.lineno)
        prods = args.get("productions")
        if not isinstance(prods, ast.Dict):
            raise Refused("line %d: _parse productions is not a dict literal" % call.lineno)
        handlers = {}
        # defaults of the class (util.Base / util.Base2 ._adddefaultproductions): nested defs keyed by name
        adp = inspect.getattr_static(env.cls, "_adddefaultproductions", None)
        if adp is None:
            raise Refused("class has no _adddefaultproductions")
        adp_node = func_ast(adp)
        adp_cls = defining_class(env.cls, "_adddefaultproductions")
        for n in adp_node.body:
            if isinstance(n, ast.FunctionDef):
                handlers[n.name] = (n, adp_cls)
        for k, v in zip(prods.keys, prods.values):
            if not isinstance(k, ast.Constant) or not isinstance(v, ast.Name) or v.id not in env.funcs:
                raise Refused("line %d: _parse production entry is not 'TYPE': local_function" % call.lineno)
            handlers[k.value] = (env.funcs[v.id][0], env.funcs[v.id][1])
        arms = []
        seqkind = {"seq": env.kinds.get(seq.id)}
        for tname in sorted(handlers):
            node, dc = handlers[tname]
            arms.append(self.inline(node, dc, env, seqkind))
        d = args.get("default")
        if d is None or (isinstance(d, ast.Constant) and d.value is None):
            arms.append(("Fail",))           # 'Unexpected token' error of _parse (clears wellformed)
        elif isinstance(d, ast.Name) and d.id in env.funcs:
            arms.append(self.inline(env.funcs[d.id][0], env.funcs[d.id][1], env, seqkind))
        else:
            raise Refused("line %d: _parse default is not a local function" % call.lineno)
        return Loop(If(*arms))

    # -------------------------------------------------- expressions
    def expr(self, e, env):
        if e is None:
            return ("Skip",)
        if isinstance(e, ast.Call):
            return self.call(e, env)
        if isinstance(e, (ast.Lambda, ast.Constant, ast.Name)):
            return ("Skip",)
        if isinstance(e, (ast.ListComp, ast.GeneratorExp, ast.SetComp, ast.DictComp)):
            inner = []
            for g in e.generators:
                inner.append(self.expr(g.iter, env))
                for c in g.ifs:
                    inner.append(self.expr(c, env))
            if isinstance(e, ast.DictComp):
                body = Seq(self.expr(e.key, env), self.expr(e.value, env))
            else:
                body = self.expr(e.elt, env)
            return Seq(*(inner + [Loop(body)]))
        if isinstance(e, ast.IfExp):
            return Seq(self.expr(e.test, env), If(self.expr(e.body, env), self.expr(e.orelse, env)))
        if isinstance(e, ast.BoolOp):
            # short circuit: later operands may be skipped
            parts = [self.expr(v, env) for v in e.values]
            out = parts[-1]
            for p in reversed(parts[:-1]):
                out = Seq(p, If(out, ("Skip",)))
            return out
        if isinstance(e, (ast.Yield, ast.YieldFrom, ast.Await, ast.NamedExpr)):
            raise Refused("line %d: %s" % (e.lineno, type(e).__name__))
        return Seq(*[self.expr(c, env) for c in ast.iter_child_nodes(e) if isinstance(c, ast.expr)])

    def call(self, c, env):
        f = c.func
        argfx = [self.expr(a, env) for a in c.args] + [self.expr(k.value, env) for k in c.keywords]
        # self._log.error(...)
        d = dotted(f)
        if d and d.startswith("self._log."):
            for k in c.keywords:
                if k.arg == "neverraise":
                    if isinstance(k.value, ast.Constant) and k.value.value is True:
                        return Seq(*argfx)
                    raise Refused("line %d: neverraise is not the constant True" % c.lineno)
            return Seq(*(argfx + [("Check",)]))
        if d and (d.startswith("css_parser.log.")):
            raise Refused("line %d: direct use of css_parser.log" % c.lineno)
        # super(C, self).m(...)
        if isinstance(f, ast.Attribute) and isinstance(f.value, ast.Call) and isinstance(f.value.func, ast.Name) \
                and f.value.func.id == "super":
            mro = env.cls.__mro__
            start = mro.index(env.defcls) + 1 if env.defcls in mro else 1
            for k in mro[start:]:
                if f.attr in k.__dict__:
                    node = func_ast(k.__dict__[f.attr])
                    return Seq(*(argfx + [self.inline(node, k, env)]))
            raise Refused("line %d: super().%s not found" % (c.lineno, f.attr))
        # self.m(...)
        if isinstance(f, ast.Attribute) and is_self(f.value):
            return self.call_self_method(f.attr, c, env)
        # local function
        if isinstance(f, ast.Name) and f.id in env.funcs:
            node, dc = env.funcs[f.id]
            ps = [a.arg for a in node.args.args]
            argk = {p: self.kind_of(a, env) for p, a in zip(ps, c.args)}
            for k in c.keywords:
                argk[k.arg] = self.kind_of(k.value, env)
            return Seq(*(argfx + [self.inline(node, dc, env, argk)]))
        if isinstance(f, ast.Name) and f.id in PURE_FUNCS:
            return Seq(*argfx)
        if d in PURE_QUALIFIED:
            return Seq(*argfx)
        # ProdParser().parse(...)
        if isinstance(f, ast.Attribute) and f.attr == "parse" and isinstance(f.value, ast.Call) \
                and self.is_ctor(f.value) == "ProdParser":
            return Seq(*(argfx + [("CallTemp",)]))
        if self.is_ctor(c):
            return self.ctor_effect(c, env)
        if isinstance(f, ast.Name) and f.id[:1].isupper() and f.id.endswith(("Error", "Exception", "Err")):
            return Seq(*argfx)       # exception object construction
        if isinstance(f, ast.Attribute):
            sr = self_root(f.value)
            fx_recv = self.expr(f.value, env)
            if sr is not None or is_self(f.value):
                attr = sr[0] if sr else None
                if (attr, f.attr) in SELF_ATTR_CALLS:
                    kind, fld = SELF_ATTR_CALLS[(attr, f.attr)]
                    return Seq(*(argfx + [("CallTemp",) if kind == "calltemp" else ("Write", fld)]))
                if f.attr in ("get", "startswith", "endswith", "lower", "strip", "find", "items", "keys", "values",
                              "count", "index", "split", "join", "copy", "findall", "match", "search", "sub"):
                    return Seq(*(argfx + [fx_recv]))
                if f.attr in ("append", "insert", "pop", "clear", "extend", "remove", "update", "replace", "appendItem",
                              "rstrip", "appendToVal"):
                    fld = mangle(env.defcls, attr)
                    return Seq(*(argfx + [fx_recv, self.write(self.backing(env.cls, fld))]))
                raise Refused("line %d: call of %s on an attribute of self" % (c.lineno, f.attr))
            lr = local_root(f.value)
            if lr is not None:
                kind = env.kinds.get(lr, "") or ""
                if kind.startswith("alias:") and f.attr in ("append", "insert", "pop", "clear", "extend", "remove",
                                                            "update", "replace", "appendItem"):
                    return Seq(*(argfx + [self.write(kind[6:])]))
                if f.attr in LOCAL_PURE_METHODS:
                    return Seq(*(argfx + [fx_recv]))
                # unknown method of a temporary object: may raise, does not touch self
                return Seq(*(argfx + [fx_recv, ("CallTemp",)]))
            if isinstance(f.value, ast.Constant) or isinstance(f.value, (ast.BinOp, ast.JoinedStr, ast.Dict, ast.List)):
                return Seq(*(argfx + [fx_recv]))
        if isinstance(f, ast.Subscript):
            # factories[atval](...): a constructor chosen from a dict
            return Seq(*(argfx + [("CallTemp",)]))
        raise Refused("line %d: call not understood: %s" % (c.lineno, ast.unparse(c)[:80]))

    def write(self, fld):
        if fld in UNOBSERVED:
            return ("Skip",)
        return ("Write", fld)

    # -------------------------------------------------- assignment targets
    def assign_target(self, t, value, env):
        if isinstance(t, (ast.Tuple, ast.List)):
            return Seq(*[self.assign_target(x, None, env) for x in t.elts])
        if isinstance(t, ast.Starred):
            return self.assign_target(t.value, None, env)
        if isinstance(t, ast.Name):
            if t.id == "self":
                raise Refused("assignment to self")
            k = None
            if value is not None:
                k = self.kind_of(value, env)
                if k is None and not isinstance(value, ast.Call):
                    sr = self_root(value) if isinstance(value, (ast.Attribute, ast.Subscript)) else None
                    if sr is not None and not any(isinstance(n, ast.Slice) for n in ast.walk(value)):
                        k = "alias:" + self.backing(env.cls, mangle(env.defcls, sr[0]))
            if k:
                env.kinds[t.id] = k
            else:
                env.kinds.pop(t.id, None)
            return ("Skip",)
        if isinstance(t, ast.Attribute) and is_self(t.value):
            attr = mangle(env.defcls, t.attr)
            p = inspect.getattr_static(env.cls, attr, None)
            if isinstance(p, property):
                if p.fset is None:
                    raise Refused("line %d: assignment to read-only property self.%s" % (t.lineno, attr))
                node = func_ast(p.fset)
                dc = None
                for k in env.cls.__mro__:
                    if any(v is p for v in k.__dict__.values()):
                        dc = k
                        break
                ps = [a.arg for a in node.args.args]
                argk = {ps[1]: self.kind_of(value, env)} if value is not None and len(ps) > 1 else {}
                body = self.inline(node, dc, env, argk)
                dk = (env.setter_key[0], env.setter_key[1], t.attr)
                if dk in DEAD_CHECKS and len(env.stack) == 0:
                    env.notes.append("dead checks dropped in self.%s = ... (%s)" % (t.attr, DEAD_CHECKS[dk]))
                    body = drop_fallible(body)
                return body
            if isinstance(value, ast.Constant) and value.value == "" and any(
                    self.mode.get(f) and (k.__name__, f, attr) in CONST_EMPTY_IN_MODE
                    for k in env.cls.__mro__ for f in self.mode):
                env.notes.append("self.%s = '' is a no-op in this mode (reviewed invariant)" % attr)
                return ("Skip",)
            return self.write(attr)
        sr = self_root(t)
        if sr is not None:
            fld = self.backing(env.cls, mangle(env.defcls, sr[0]))
            pre = ("Skip",)
            if isinstance(t, ast.Attribute) and not t.attr.startswith("_") and (sr[0], t.attr) not in SELF_ATTR_PLAIN:
                pre = ("CallTemp",)       # public attribute of a sub-object: a setter that may raise
            return Seq(pre, self.write(fld))
        lr = local_root(t)
        if lr is not None:
            kind = env.kinds.get(lr, "") or ""
            if kind.startswith("alias:"):
                pre = ("CallTemp",) if isinstance(t, ast.Attribute) and not t.attr.startswith("_") else ("Skip",)
                return Seq(pre, self.write(kind[6:]))
            if isinstance(t, ast.Attribute) and not t.attr.startswith("_"):
                if isinstance(t.value, ast.Name) and (self.plain_attr(kind, t.attr) or t.attr in LOCAL_PLAIN_ATTRS):
                    return ("Skip",)
                return ("CallTemp",)      # temporary.cssText = ... etc.
            return ("Skip",)
        raise Refused("line %d: assignment target not understood" % t.lineno)

    # -------------------------------------------------- statements
    def block(self, stmts, env):
        out = []
        clears = any(isinstance(st, ast.Assign) and isinstance(st.value, ast.Constant) and st.value.value is False
                     and any(is_flag_target(x) for x in flat_targets(st.targets)) for st in stmts)
        haslog = any(isinstance(st, ast.Expr) and isinstance(st.value, ast.Call)
                     and (dotted(st.value.func) or "").startswith("self._log.") for st in stmts)
        for i, st in enumerate(stmts):
            if clears and isinstance(st, ast.Expr) and isinstance(st.value, ast.Call) \
                    and (dotted(st.value.func) or "").startswith("self._log."):
                out.append(to_fail(self.stmt(st, env)))
            elif clears and haslog and isinstance(st, ast.Assign) and isinstance(st.value, ast.Constant) \
                    and st.value.value is False and all(is_flag_target(x) for x in flat_targets(st.targets)):
                out.append(("Skip",))          # the LFail of this block stands for it
            else:
                out.append(self.stmt(st, env))
        return Seq(*out)

    def flag_effect(self, st, env):
        """assignment statement with a commit flag among its targets: LMayFail / nothing"""
        flags = [x for x in flat_targets(st.targets) if is_flag_target(x)]
        if not flags:
            return ("Skip",)
        names = set(x.id if isinstance(x, ast.Name) else "%s[%s]" % (x.value.id, x.slice.value) for x in flags)
        v = st.value
        seen = env.flags_seen
        try:
            if isinstance(v, ast.Constant) and v.value is True:
                return ("Skip",)
            if isinstance(v, ast.Constant) and v.value is False:
                return ("MayFail",)
            if isinstance(v, ast.Call) or (isinstance(v, ast.Tuple)):
                # a flag (re)defined by a call: an earlier failure held in the same variable would be lost
                for n in names:
                    if n in seen and isinstance(v, ast.Call):
                        raise Refused("line %d: commit flag %s re-assigned from a call" % (st.lineno, n))
                return ("MayFail",)
            # `ok = ok and ...`: every flag named on the left must be an operand on the right (sticky)
            used = set(n.id for n in ast.walk(v) if isinstance(n, ast.Name)) | set(
                "%s[%s]" % (n.value.id, n.slice.value) for n in ast.walk(v)
                if isinstance(n, ast.Subscript) and isinstance(n.value, ast.Name) and isinstance(n.slice, ast.Constant))
            for n in names:
                if n in seen and n not in used:
                    raise Refused("line %d: commit flag %s overwritten without `and`-ing its old value" % (st.lineno, n))
            for n in used - names:
                seen.discard(n)            # its failure has been transferred into the flag on the left
            return ("MayFail",)
        finally:
            seen.update(names)

    def stmt(self, st, env):
        if isinstance(st, ast.Expr):
            return self.expr(st.value, env)
        if isinstance(st, ast.Pass):
            return ("Skip",)
        if isinstance(st, ast.FunctionDef):
            if st.decorator_list:
                raise Refused("line %d: decorated local function" % st.lineno)
            env.funcs[st.name] = (st, env.defcls)
            return ("Skip",)
        if isinstance(st, ast.Assign):
            fx = self.expr(st.value, env)
            return Seq(fx, *([self.assign_target(t, st.value, env) for t in st.targets] + [self.flag_effect(st, env)]))
        if isinstance(st, ast.AugAssign):
            return Seq(self.expr(st.value, env), self.assign_target(st.target, None, env))
        if isinstance(st, ast.AnnAssign):
            return Seq(self.expr(st.value, env), self.assign_target(st.target, st.value, env))
        if isinstance(st, ast.Delete):
            out = []
            for t in st.targets:
                if isinstance(t, ast.Name):
                    continue
                out.append(self.assign_target(t, None, env))
            return Seq(*out)
        if isinstance(st, ast.Return):
            return Seq(self.expr(st.value, env), ("Return",))
        if isinstance(st, (ast.Break, ast.Continue)):
            return ("Break",)
        if isinstance(st, ast.Raise):
            name = None
            if st.exc is not None:
                x = st.exc.func if isinstance(st.exc, ast.Call) else st.exc
                name = dotted(x)
            fx = self.expr(st.exc, env) if st.exc is not None else ("Skip",)
            if name and name.split(".")[-1] in env.caught:
                return Seq(fx, ("Break",)) if False else fx   # control transfer to the handler (modelled by the try)
            return Seq(fx, ("Check",))
        if isinstance(st, ast.If):
            test = self.expr(st.test, env)
            fold = self.fold_test(st.test, env)
            e1 = Env(env.cls, env.defcls, env.setter_key, env)
            e2 = Env(env.cls, env.defcls, env.setter_key, env)
            a = self.block(st.body, e1) if fold is not False else None
            b = self.block(st.orelse, e2) if fold is not True else None
            # local defs / kinds made in the arms stay visible (Python scoping); kinds only when both agree
            env.funcs.update(e1.funcs)
            env.funcs.update(e2.funcs)
            for k in set(e1.kinds) | set(e2.kinds):
                if e1.kinds.get(k) == e2.kinds.get(k) or (fold is True and k in e1.kinds) or (fold is False and k in e2.kinds):
                    env.kinds[k] = (e1 if fold is not False else e2).kinds.get(k) if fold is not None else e1.kinds.get(k)
                else:
                    env.kinds.pop(k, None)
            if fold is True:
                return Seq(test, a)
            if fold is False:
                return Seq(test, b)
            g = self.guard_kind(st.test)
            if g == "neg" and any(isinstance(x, ast.Assign) and isinstance(x.value, ast.Constant) and x.value.value is False
                                  and any(is_flag_target(y) for y in flat_targets(x.targets)) for x in st.body):
                # `if not wellformed: ok = False`: the failure is transferred to the other flag
                tn = st.test.operand
                env.flags_seen.discard(tn.id if isinstance(tn, ast.Name) else "%s[%s]" % (tn.value.id, tn.slice.value))
            if g == "pos":
                return Seq(test, If(Guard(a), b))
            if g == "neg":
                return Seq(test, If(a, Guard(b)))
            return Seq(test, If(a, b))
        if isinstance(st, (ast.For, ast.While)):
            head = self.expr(st.iter if isinstance(st, ast.For) else st.test, env)
            tgt = ("Skip",)
            if isinstance(st, ast.For):
                tgt = self.assign_target(st.target, None, env)
                # iterating over an attribute of self binds aliases of its members
                if isinstance(st.iter, (ast.Attribute, ast.Subscript)) and self_root(st.iter) is not None \
                        and isinstance(st.target, ast.Name):
                    env.kinds[st.target.id] = "alias:" + self.backing(env.cls, mangle(env.defcls, self_root(st.iter)[0]))
            before = dict(env.kinds)
            body = self.block(st.body, env)
            if isinstance(st, ast.While):
                body = Seq(body, self.expr(st.test, env))
            orelse = self.block(st.orelse, env) if st.orelse else ("Skip",)
            # zero or more iterations: only what held before and still holds after is known
            for k in set(before) | set(env.kinds):
                if before.get(k) != env.kinds.get(k):
                    env.kinds.pop(k, None)
            return Seq(head, Loop(Seq(tgt, body)), If(orelse, ("Skip",)))
        if isinstance(st, ast.Try):
            if st.finalbody:
                raise Refused("line %d: try/finally" % st.lineno)
            caught = []
            for h in st.handlers:
                if h.type is None:
                    raise Refused("line %d: bare except" % st.lineno)
                types = h.type.elts if isinstance(h.type, ast.Tuple) else [h.type]
                for ty in types:
                    nm = dotted(ty)
                    if nm is None or any(part in DOM_EXC_HINT for part in nm.split(".")):
                        raise Refused("line %d: handler may catch DOM exceptions (%s)" % (st.lineno, nm))
                    caught.append(nm.split(".")[-1])
            sub = Env(env.cls, env.defcls, env.setter_key, env)
            sub.caught = env.caught + caught
            body = self.block(st.body, sub)
            env.funcs.update(sub.funcs)
            for k in list(env.kinds):
                if sub.kinds.get(k) != env.kinds.get(k):
                    env.kinds.pop(k)
            hs, subs = [], [sub]
            for h in st.handlers:
                he = Env(env.cls, env.defcls, env.setter_key, env)
                hs.append(self.block(h.body, he))
                subs.append(he)
            oe = Env(env.cls, env.defcls, env.setter_key, sub)
            orelse = self.block(st.orelse, oe) if st.orelse else ("Skip",)
            subs.append(oe)
            # what is known about a local after the statement must hold on every path through it
            for e in subs:
                env.funcs.update(e.funcs)
            names = set()
            for e in subs:
                names |= set(e.kinds)
            for k in names | set(env.kinds):
                vals = set(e.kinds.get(k) for e in subs)
                if len(vals) == 1 and None not in vals:
                    env.kinds[k] = vals.pop()
                else:
                    env.kinds.pop(k, None)
            # the body may be abandoned at any point by a caught (non-DOM) exception
            return Seq(If(body, ("Skip",)), If(*(hs + [orelse])))
        if isinstance(st, ast.With):
            raise Refused("line %d: with" % st.lineno)
        if isinstance(st, (ast.Global, ast.Nonlocal)):
            raise Refused("line %d: global/nonlocal" % st.lineno)
        if isinstance(st, ast.Assert):
            raise Refused("line %d: assert" % st.lineno)
        raise Refused("line %d: statement %s" % (st.lineno, type(st).__name__))

    def guard_kind(self, test):
        """`if ok:` / `if ok and x:` -> 'pos';  `if not ok:` -> 'neg'"""
        if is_flag_target(test):
            return "pos"
        if isinstance(test, ast.BoolOp) and isinstance(test.op, ast.And) and any(is_flag_target(v) for v in test.values):
            return "pos"
        if isinstance(test, ast.UnaryOp) and isinstance(test.op, ast.Not) and is_flag_target(test.operand):
            return "neg"
        return None

    def fold_test(self, test, env):
        """three-valued evaluation of a test: True / False / None (unknown).
        Known facts: isinstance(<fresh object>, string_type) is False; a name bound to the constant None is
        falsy; self.<mode flag> has the value of the mode this script is generated for."""
        if isinstance(test, ast.Call) and isinstance(test.func, ast.Name) and test.func.id == "isinstance" \
                and len(test.args) == 2 and isinstance(test.args[0], ast.Name) \
                and isinstance(test.args[1], ast.Name) and test.args[1].id in ("string_type", "str", "basestring"):
            k = env.kinds.get(test.args[0].id) or ""
            if k.startswith("obj") or k == "none":
                return False
            return None
        if isinstance(test, ast.Name):
            if env.kinds.get(test.id) == "none":
                return False
            if (env.kinds.get(test.id) or "").startswith("obj:") and False:
                return None
            return None
        if isinstance(test, ast.Attribute) and is_self(test.value) and test.attr in self.mode:
            return self.mode[test.attr]
        if isinstance(test, ast.UnaryOp) and isinstance(test.op, ast.Not):
            v = self.fold_test(test.operand, env)
            return None if v is None else (not v)
        if isinstance(test, ast.BoolOp):
            vals = [self.fold_test(v, env) for v in test.values]
            if isinstance(test.op, ast.And):
                if any(v is False for v in vals):
                    return False
                return True if all(v is True for v in vals) else None
            if any(v is True for v in vals):
                return True
            return False if all(v is False for v in vals) else None
        if isinstance(test, ast.Compare) and len(test.ops) == 1 and isinstance(test.ops[0], (ast.Is, ast.IsNot)) \
                and isinstance(test.left, ast.Name) and isinstance(test.comparators[0], ast.Constant) \
                and test.comparators[0].value is None and env.kinds.get(test.left.id) == "none":
            return isinstance(test.ops[0], ast.Is)
        return None

    def run(self):
        node = func_ast(self.fn)
        dc = None
        for k in self.cls.__mro__:
            if any(v is self.fn for v in k.__dict__.values()):
                dc = k
        if dc is None:
            dc = defining_class(self.cls, self.fn.__name__) or self.cls
        env = Env(self.cls, dc, (self.cls.__name__, self.fn.__name__))
        env.notes = self.notes
        body = self.block(node.body, env)
        return Scope(body)


# ----------------------------------------------------------------------------- pins
def pin_hash(cls, name):
    node = func_ast(cls.__dict__[name])
    for n in ast.walk(node):   # docstrings do not matter
        if isinstance(n, (ast.FunctionDef,)) and n.body and isinstance(n.body[0], ast.Expr) \
                and isinstance(n.body[0].value, ast.Constant) and isinstance(n.body[0].value.value, str):
            n.body = n.body[1:] or [ast.Pass()]
    return hashlib.sha1(ast.dump(node).encode()).hexdigest()[:16]


PINS = {
    "Base._parse": "5e8f8947cdba44a7",
    "_BaseClass._checkReadonly": "dfd22785a44ee9eb",
    "_NewBase._setSeq": "7fe224c2c2bd0549",
    "_ErrorHandler._ErrorHandler__handle": "9e36adf6ce7e777a",
}


def check_pins():
    import css_parser.util as U
    import css_parser.errorhandler as E
    got = {
        "Base._parse": pin_hash(U.Base, "_parse"),
        "_BaseClass._checkReadonly": pin_hash(U._BaseClass, "_checkReadonly"),
        "_NewBase._setSeq": pin_hash(U._NewBase, "_setSeq"),
        "_ErrorHandler._ErrorHandler__handle": pin_hash(E._ErrorHandler, "_ErrorHandler__handle"),
    }
    return got


# ----------------------------------------------------------------------------- discovery + output
def discover(modnames):
    import importlib
    out = []
    for mn in modnames:
        mod = importlib.import_module(mn)
        for cname, cls in sorted(vars(mod).items()):
            if not inspect.isclass(cls) or cls.__module__ != mn:
                continue
            for pname, p in sorted(vars(cls).items()):
                if isinstance(p, property) and p.fset is not None:
                    out.append((mn, cls, pname, p.fset))
    return out


def ident(s):
    return "".join(ch if ch.isalnum() else "_" for ch in s)


def translate_all():
    pins = check_pins()
    res = []
    for group, mods in (("anchored", ANCHOR_MODULES), ("extra", EXTRA_MODULES)):
        for mn, cls, pname, fset in discover(mods):
            flag = None
            for k in cls.__mro__:
                flag = flag or MODE_FLAGS.get(k.__name__)
            for mode, suffix in ([({}, "")] if not flag else [({flag: False}, ""), ({flag: True}, "[%s]" % flag)]):
                name = "%s.%s%s" % (cls.__name__, pname, suffix)
                if any(r["name"] == name for r in res):
                    continue
                ent = {"name": name, "group": group, "module": mn, "setter": getattr(fset, "__name__", "?")}
                try:
                    if getattr(fset, "__name__", "") == "<lambda>":
                        raise Refused("setter is a lambda")
                    lin = Lin(cls, pname, fset, mode)
                    ent["script"] = lin.run()
                    ent["notes"] = lin.notes
                except Refused as e:
                    ent["refused"] = str(e)
                except RecursionError:
                    ent["refused"] = "recursion while inlining"
                res.append(ent)
    return res, pins


def main():
    res, pins = translate_all()
    bad = [k for k in PINS if PINS[k] != pins[k]]
    if bad:
        raise SystemExit("translate/scripts.py: hard-coded expansion of %s no longer matches the source (%s); "
                         "review the method and update PINS" % (bad, {k: pins[k] for k in bad}))
    body = ["Open Scope string_scope.", "Open Scope list_scope.", ""]
    ok, refused = [], []
    for ent in res:
        if "script" in ent:
            nm = "script_" + ident(ent["name"])
            cm = "(* %s  (%s, %s)%s *)" % (ent["name"], ent["module"], ent["setter"],
                                           "".join("\n   note: " + n for n in ent["notes"]))
            body.append("%s\nDefinition l%s : lscript :=\n  %s.\nDefinition %s : script := erase l%s.\n"
                        % (cm, nm, coq(ent["script"]), nm, nm))
            ok.append((ent, nm))
        else:
            refused.append(ent)
            body.append("(* REFUSED %s: %s *)\n" % (ent["name"], ent["refused"]))
    body.append("Definition all_scripts : list (string * script) :=\n  [ %s ].\n" % ";\n    ".join(
        '("%s", %s)' % (e["name"], nm) for e, nm in ok))
    body.append("Definition all_lscripts : list (string * lscript) :=\n  [ %s ].\n" % ";\n    ".join(
        '("%s", l%s)' % (e["name"], nm) for e, nm in ok))
    body.append("Definition anchored_lscripts : list (string * lscript) :=\n  [ %s ].\n" % ";\n    ".join(
        '("%s", l%s)' % (e["name"], nm) for e, nm in ok if e["group"] == "anchored"))
    body.append("Definition anchored_scripts : list (string * script) :=\n  [ %s ].\n" % ";\n    ".join(
        '("%s", %s)' % (e["name"], nm) for e, nm in ok if e["group"] == "anchored"))
    body.append("Definition refused_anchored : list string :=\n  [ %s ].\n" % "; ".join(
        '"%s"' % e["name"] for e in refused if e["group"] == "anchored"))
    body.append("Definition refused_extra : list string :=\n  [ %s ].\n" % "; ".join(
        '"%s"' % e["name"] for e in refused if e["group"] == "extra"))
    emit("Scripts", "\n".join(body), requires="From CssV Require Import Base Atomic AtomicLenient.")


if __name__ == "__main__":
    if "--show" in sys.argv:
        res, pins = translate_all()
        print(pins)
        for e in res:
            if "script" in e:
                print("OK     ", e["name"], size(e["script"]), e["notes"])
            else:
                print("REFUSED", e["name"], e["refused"])
        sys.exit(0)
    try:
        main()
    except Refused as e:
        raise SystemExit("translate/scripts.py refused: %s" % e)
