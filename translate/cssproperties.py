"""cssproperties.py / cssstyledeclaration.py accessor plumbing  ->  Gen/CssProperties.v   (property C11)

Regenerated on every run from /repo's current tree:

  known_names   the property names of css_parser.profiles.properties, in table order (with repeats)
  dom_pairs     (CSS name, _toDOMname(CSS name)) obtained by *running* the current _toDOMname
  dom_known     CSS2Properties._properties (the list __setattr__ consults)
  attr_table    for every generated attribute: (DOM name, the CSS name bound in the closures of its
                property object) -- read from the live closures, so it is what `style.<attr>` forwards to *now*

Fail-closed: refuses when the accessors are not the plain forwarding closures, when fget/fset/fdel of one
attribute are bound to different names, when _getP/_setP/_delP of CSSStyleDeclaration are not the
one-line forwards to getPropertyValue/setProperty/removeProperty, when __setitem__/__delitem__/__getitem__
are not the transcribed forwards, or when a subclass attribute shadows a generated attribute.
"""
import ast
import sys

from translate.common import Refused, emit, src, find_func
from translate.regexlib import coq_str


def only_stmt(fn):
    body = [n for n in fn.body if not (isinstance(n, ast.Expr) and isinstance(n.value, ast.Constant))]
    if len(body) != 1:
        raise Refused("%s: expected a one-statement body (line %d)" % (fn.name, fn.lineno))
    return body[0]


def check_forward(fn, method, args, ret):
    """fn's body is  [return] self.<method>(<args as plain names>)"""
    st = only_stmt(fn)
    if ret and not isinstance(st, ast.Return):
        raise Refused("%s: expected `return self.%s(...)`" % (fn.name, method))
    if not ret and not isinstance(st, (ast.Expr, ast.Return)):
        raise Refused("%s: expected a call statement" % fn.name)
    call = st.value
    ok = (isinstance(call, ast.Call) and isinstance(call.func, ast.Attribute) and call.func.attr == method
          and isinstance(call.func.value, ast.Name) and call.func.value.id == "self" and not call.keywords
          and [a.id if isinstance(a, ast.Name) else None for a in call.args] == args)
    if not ok:
        raise Refused("%s is not the forward  self.%s(%s)  (line %d)" % (fn.name, method, ", ".join(args), fn.lineno))


def main():
    import css_parser
    from css_parser.css import cssproperties as CP
    from css_parser.css import CSSStyleDeclaration

    names = []
    for group in css_parser.profiles.properties:
        for name in css_parser.profiles.properties[group]:
            if not isinstance(name, str):
                raise Refused("profile property name %r is not a str" % (name,))
            names.append(name)
    if not names:
        raise Refused("no property names in css_parser.profiles.properties")
    dom_known = list(CP.CSS2Properties._properties)

    table = []
    seen = set()
    for dom in dom_known:
        if dom in seen:
            continue
        seen.add(dom)
        # the attribute must resolve, on CSSStyleDeclaration, to the generated property object
        owner = None
        for klass in CSSStyleDeclaration.__mro__:
            if dom in klass.__dict__:
                owner = klass
                break
        if owner is not CP.CSS2Properties:
            raise Refused("attribute %r of CSSStyleDeclaration resolves to %r, not to CSS2Properties" % (dom, owner))
        p = CP.CSS2Properties.__dict__[dom]
        if not isinstance(p, property):
            raise Refused("CSS2Properties.%s is not a property object" % dom)
        bound = []
        for f, callee, nargs in ((p.fget, "_getP", 1), (p.fset, "_setP", 2), (p.fdel, "_delP", 1)):
            if f is None or f.__code__.co_freevars != ("CSSname",) or f.__code__.co_names != (callee,) \
                    or f.__code__.co_argcount != nargs:
                raise Refused("accessor of %s is not the forwarding closure over CSSname calling %s" % (dom, callee))
            v = f.__closure__[0].cell_contents
            if not isinstance(v, str):
                raise Refused("CSSname bound for %s is %r" % (dom, v))
            bound.append(v)
        if len(set(bound)) != 1:
            raise Refused("get/set/del of %s are bound to different names %r" % (dom, bound))
        table.append((dom, bound[0]))

    tree = ast.parse(src("css/cssstyledeclaration.py"))
    check_forward(find_func(tree, ["CSSStyleDeclaration", "_getP"]), "getPropertyValue", ["CSSName"], True)
    check_forward(find_func(tree, ["CSSStyleDeclaration", "_setP"]), "setProperty", ["CSSName", "value"], False)
    check_forward(find_func(tree, ["CSSStyleDeclaration", "_delP"]), "removeProperty", ["CSSName"], False)
    check_forward(find_func(tree, ["CSSStyleDeclaration", "__getitem__"]), "getPropertyValue", ["CSSName"], True)
    check_forward(find_func(tree, ["CSSStyleDeclaration", "__delitem__"]), "removeProperty", ["CSSName"], True)
    # __setattr__: the list of settable names must be extended by CSS2Properties._properties
    sa = find_func(tree, ["CSSStyleDeclaration", "__setattr__"])
    ext = [n for n in ast.walk(sa) if isinstance(n, ast.Call) and isinstance(n.func, ast.Attribute)
           and n.func.attr == "extend" and len(n.args) == 1 and ast.unparse(n.args[0]) == "CSS2Properties._properties"]
    if len(ext) != 1:
        raise Refused("__setattr__ does not extend its known list by CSS2Properties._properties")

    pairs = []
    for n in names:
        d = CP._toDOMname(n)
        if not isinstance(d, str):
            raise Refused("_toDOMname(%r) = %r" % (n, d))
        pairs.append((n, d))

    lst = lambda xs: "[" + ";\n   ".join(xs) + "]"  # noqa: E731
    body = [
        "Definition known_names : list str :=\n  %s." % lst(coq_str(n) for n in names),
        "Definition dom_pairs : list (str * str) :=\n  %s." % lst("(%s, %s)" % (coq_str(n), coq_str(d)) for n, d in pairs),
        "Definition dom_known : list str :=\n  %s." % lst(coq_str(d) for d in dom_known),
        "Definition attr_table : list (str * str) :=\n  %s." % lst("(%s, %s)" % (coq_str(d), coq_str(c)) for d, c in table),
    ]
    emit("CssProperties", "\n\n".join(body), requires="From CssV Require Import Base.")


if __name__ == "__main__":
    try:
        main()
    except Refused as e:
        print("translator refused: %s" % e)
        sys.exit(2)
