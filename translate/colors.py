"""css/colors.py, css/value.py (reHexcolor, DimensionValue.__reUnNumDim, ColorValue constants), prodparser.PreDef.reHexcolor,
serialize.py (_strip_zeros, _hash, the zero-unit list and the leading-zero surgery of do_css_Value)
   ->  Gen/Colors.v, Gen/NumConsts.v
Fail-closed: every constant is located by its syntactic role; when the expected construct is not there the
translator refuses (exit 2) instead of guessing."""
import ast
import re
import re._parser as P
import sys
from fractions import Fraction

from translate.common import Refused, emit, src, find_func, one, str_tuple
from translate.regexlib import coq_str
import translate.regexlib as RL


def qlit(x):
    """python int/float -> Coq Q literal (exact)"""
    f = Fraction(x)
    return "(%s # %d)%%Q" % (("(%d)" % f.numerator) if f.numerator < 0 else str(f.numerator), f.denominator)


def anchored(pat, what, allow_flags=0):
    """parse an anchored pattern  ^ body (END)  -> (body items, strict_end, flags)"""
    flags = pat.flags
    if flags & ~(re.UNICODE | allow_flags):
        raise Refused("%s compiled with unexpected flags %r" % (what, flags))
    p = P.parse(pat.pattern, flags)
    items = list(p)
    if len(items) < 3 or str(items[0][0]) != "AT" or str(items[0][1]) not in ("AT_BEGINNING", "AT_BEGINNING_STRING"):
        raise Refused("%s does not start with ^" % what)
    if str(items[-1][0]) != "AT" or str(items[-1][1]) not in ("AT_END", "AT_END_STRING"):
        raise Refused("%s does not end with $ or \\Z" % what)
    if flags & re.MULTILINE:
        raise Refused("%s is MULTILINE" % what)
    return items[1:-1], str(items[-1][1]) == "AT_END_STRING", p.state.flags | flags


def no_cased_literals(items, what):
    """IGNORECASE / VERBOSE are irrelevant when the pattern has no cased literal and no whitespace/#"""
    def walk(sp):
        for op, av in sp:
            op = str(op)
            if op in ("LITERAL", "NOT_LITERAL"):
                if chr(av).lower() != chr(av).upper():
                    raise Refused("%s: cased literal under IGNORECASE" % what)
            elif op == "IN":
                for o, a in av:
                    o = str(o)
                    if o == "LITERAL" and chr(a).lower() != chr(a).upper():
                        raise Refused("%s: cased class member under IGNORECASE" % what)
                    if o == "RANGE" and any(chr(c).lower() != chr(c).upper() for c in range(a[0], a[1] + 1)):
                        raise Refused("%s: cased range under IGNORECASE" % what)
            elif op == "BRANCH":
                for b in av[1]:
                    walk(b)
            elif op == "SUBPATTERN":
                walk(av[3])
            elif op in ("MAX_REPEAT", "MIN_REPEAT"):
                walk(av[2])
    walk(items)


def const(node, typ, what):
    if not isinstance(node, ast.Constant) or not isinstance(node.value, typ):
        raise Refused("expected a %s constant for %s at line %d" % (typ.__name__, what, getattr(node, "lineno", 0)))
    return node.value


def numconsts():
    import css_parser.css.value as V
    import css_parser.serialize  # noqa
    pat = V.DimensionValue._DimensionValue__reUnNumDim
    items, strict, flags = anchored(pat, "DimensionValue.__reUnNumDim", re.I | re.X | re.S)
    if re.search(r"[\s#]", pat.pattern):
        raise Refused("__reUnNumDim contains whitespace/# under VERBOSE")
    no_cased_literals(items, "__reUnNumDim")
    if len(items) != 3 or any(str(op) != "SUBPATTERN" for op, _ in items) or \
            [av[0] for _, av in items] != [1, 2, 3]:
        raise Refused("__reUnNumDim is not  ^(g1)(g2)(g3)$")
    fl = flags & ~(re.I | re.X)
    b = []
    for name, (_, av) in zip(("sign", "body", "rest"), items):
        if av[1] or av[2]:
            raise Refused("inline flags in __reUnNumDim")
        b.append("Definition re_num_%s : re :=\n  %s." % (name, RL.conv(av[3], fl)))
    b.append("Definition num_end_strict : bool := %s." % ("true" if strict else "false"))

    # how DimensionValue converts:  '.' in v -> float(sign + v) else int(sign + v)
    tree = ast.parse(src("css/value.py"))
    fn = find_func(tree, ["DimensionValue", "_setCssText"])
    test = one((n for n in ast.walk(fn) if isinstance(n, ast.If) and isinstance(n.test, ast.Compare)
                and isinstance(n.test.ops[0], ast.In) and isinstance(n.test.left, ast.Constant)
                and isinstance(n.test.comparators[0], ast.Name) and n.test.comparators[0].id == "v"),
               "`if '.' in v` of DimensionValue")
    if ast.unparse(test.body[0]) != "val = float(sign + v)" or ast.unparse(test.orelse[0]) != "val = int(sign + v)":
        raise Refused("DimensionValue conversion is not float(sign + v) / int(sign + v)")
    b.append("Definition num_float_marker : N := %d%%N." % ord(const(test.test.left, str, "float marker")))
    # the range check after the conversion (fix 5180c6a): a non-finite float / unconvertible int is rejected
    rej = one((n for n in ast.walk(fn) if isinstance(n, ast.If)
               and ast.unparse(n.test) == "val is None or val in (float('inf'), float('-inf'))"),
              "`if val is None or val in (inf, -inf)` range check of DimensionValue")
    body_txt = [ast.unparse(x) for x in rej.body]
    if body_txt[-1] != "return" or not any(x.startswith("self._log.error(") for x in body_txt) or rej.orelse:
        raise Refused("DimensionValue range check does not reject (log.error; return): %r" % body_txt)
    # nothing is stored before the check: self._value is assigned after it
    stmts = list(ast.walk(fn))
    assign = one((n for n in stmts if isinstance(n, ast.Assign) and ast.unparse(n.targets[0]) == "self._value"),
                 "self._value = val")
    if assign.lineno < rej.lineno or ast.unparse(assign.value) != "val":
        raise Refused("self._value is assigned before the range check")
    b.append("Definition num_reject_nonfinite : bool := true.")

    # serialize.py: _strip_zeros, zero-unit list, type tuple, leading-zero surgery
    stree = ast.parse(src("serialize.py"))
    sz = find_func(stree, ["CSSSerializer", "_strip_zeros"])
    body = [ast.unparse(x) for x in sz.body]
    m = re.fullmatch(r"i = s\.index\('(.)'\) \+ (\d+)\|\|a, b = \(s\[0:i\], s\[i:len\(s\)\]\)\|\|"
                     r"b = b\.rstrip\('(.)'\)\|\|return a \+ b", "||".join(body))
    if not m:
        raise Refused("_strip_zeros has an unexpected body: %r" % body)
    b.append("Definition sz_point : N := %d%%N." % ord(m.group(1)))
    b.append("Definition sz_keep : nat := %s%%nat." % m.group(2))
    b.append("Definition sz_strip : N := %d%%N." % ord(m.group(3)))

    dv = find_func(stree, ["CSSSerializer", "do_css_Value"])
    tt = one((n for n in ast.walk(dv) if isinstance(n, ast.Compare) and isinstance(n.ops[0], ast.In)
              and ast.unparse(n.left) == "value.type" and isinstance(n.comparators[0], ast.Tuple)), "value.type in (...)")
    b.append("Definition num_types : list str := [%s]." % "; ".join(coq_str(x) for x in str_tuple(tt.comparators[0])))
    zu = one((n for n in ast.walk(dv) if isinstance(n, ast.Compare) and isinstance(n.ops[0], ast.In)
              and ast.unparse(n.left) == "value.dimension" and isinstance(n.comparators[0], ast.Tuple)),
             "value.dimension in (...)")
    b.append("Definition zero_units : list str := [%s]." % "; ".join(coq_str(x) for x in str_tuple(zu.comparators[0])))
    # the number branch, statement by statement (normalised by ast.unparse)
    numif = one((n for n in ast.walk(dv) if isinstance(n, ast.If) and n.test is tt), "number branch")
    chain = numif.body[1]
    txt = ast.unparse(chain)
    expected = (
        "if value.value == 0:\n    val = '0'\n    if value.dimension in (%s):\n        dim = ''\n"
        "elif value.value == int(value.value):\n    val = text_type(int(value.value))\n"
        "elif self.prefs.omitLeadingZero and -1 < value.value < 1:\n"
        "    v = self._strip_zeros('%%f' %% value.value)\n    val = v\n"
        "    if v.startswith('-0.'):\n        val = v[0] + v[2:]\n"
        "    elif v.startswith('0.'):\n        val = v[1:]\n"
        "else:\n    val = self._strip_zeros('%%f' %% value.value)" % ", ".join(repr(x) for x in str_tuple(zu.comparators[0])))
    if txt != expected:
        raise Refused("the number branch of do_css_Value is not the modelled one:\n" + txt)
    tail = [ast.unparse(x) for x in numif.body[2:]]
    if ast.unparse(numif.body[0]) != "dim = value.dimension or ''" or tail != [
            "if value.value != 0 and value._sign == '+':\n    sign = '+'\nelse:\n    sign = ''",
            "out.append(sign + val + dim, value.type)"]:
        raise Refused("head/tail of the number branch of do_css_Value changed: %r" % tail)
    b.append("Definition olz_neg_prefix : str := %s." % coq_str("-0."))
    b.append("Definition olz_pos_prefix : str := %s." % coq_str("0."))
    emit("NumConsts", "\n\n".join(b))


def colors():
    import css_parser.css.value as V
    import css_parser.css.colors as C
    import css_parser.prodparser as PP
    pats = [V.reHexcolor, PP.PreDef.reHexcolor]
    if pats[0].pattern != pats[1].pattern or pats[0].flags != pats[1].flags:
        raise Refused("value.reHexcolor and PreDef.reHexcolor differ")
    items, strict, flags = anchored(pats[0], "reHexcolor")
    b = []
    b.append("Definition re_hexcolor_body : re :=\n  %s." % RL.conv(items, flags))
    b.append("Definition hex_end_strict : bool := %s." % ("true" if strict else "false"))
    rows = []
    for k, v in C.COLORS.items():
        if not (isinstance(k, str) and len(v) == 4 and all(isinstance(x, int) for x in v[:3]) and isinstance(v[3], float)):
            raise Refused("COLORS entry %r" % (k,))
        rows.append("(%s, ((%d, %d, %d), %s))" % (coq_str(k), v[0], v[1], v[2], qlit(v[3])))
    if V.ColorValue.COLORS is not C.COLORS:
        raise Refused("ColorValue.COLORS is not colors.COLORS")
    b.append("Definition colors_table : list (str * ((Z * Z * Z) * Q)) :=\n  [%s]." % ";\n   ".join(rows))

    tree = ast.parse(src("css/value.py"))
    fn = find_func(tree, ["ColorValue", "_setCssText"])
    checks = one((n for n in ast.walk(fn) if isinstance(n, ast.Assign) and isinstance(n.targets[0], ast.Name)
                  and n.targets[0].id == "checks"), "checks = {...}")
    rows = []
    for k, v in zip(checks.value.keys, checks.value.values):
        rows.append("(%s, [%s])" % (coq_str(const(k, str, "checks key")), "; ".join(coq_str(x) for x in str_tuple(v))))
    b.append("Definition color_checks : list (str * list str) :=\n  [%s]." % ";\n   ".join(rows))
    # hex conversion:  len(v) == 4 -> int(2*v[i],16) for i in 1,2,3 ; else int(v[a:b],16)
    hexif = one((n for n in ast.walk(fn) if isinstance(n, ast.If) and ast.unparse(n.test).startswith("len(v) ==")),
                "if len(v) == 4")
    short = ast.unparse(hexif.body[0])
    long_ = ast.unparse(hexif.orelse[0])
    m1 = re.fullmatch(r"rgba = \(int\(2 \* v\[(\d)\], 16\), int\(2 \* v\[(\d)\], 16\), int\(2 \* v\[(\d)\], 16\), 1\.0\)", short)
    m2 = re.fullmatch(r"rgba = \(int\(v\[(\d):(\d)\], 16\), int\(v\[(\d):(\d)\], 16\), int\(v\[(\d):(\d)\], 16\), 1\.0\)", long_)
    if not m1 or not m2:
        raise Refused("hex conversion changed: %r / %r" % (short, long_))
    b.append("Definition hex_short_len : nat := %d%%nat." % const(hexif.test.comparators[0], int, "len(v) == 4"))
    b.append("Definition hex_short_idx : list nat := [%s]." % "; ".join("%s%%nat" % x for x in m1.groups()))
    g = m2.groups()
    b.append("Definition hex_long_slices : list (nat * nat) := [%s]." % "; ".join(
        "(%s%%nat, %s%%nat)" % (g[i], g[i + 1]) for i in (0, 2, 4)))
    # percentage / hsl scaling constants
    pct = one((n for n in ast.walk(fn) if isinstance(n, ast.Call) and ast.unparse(n) ==
               "raw.append(int(255 * item.value.value / 100))"), "rgb percentage conversion")
    del pct
    for txt in ("raw.append(item.value.value / 100.0)", "h, s, l_ = (raw[0] / 360.0, raw[1], raw[2])",
                "r, g, b = colorsys.hls_to_rgb(h, l_, s)",
                "rgba = [int(round(r * 255)), int(round(g * 255)), int(round(b * 255))]"):
        one((n for n in ast.walk(fn) if isinstance(n, (ast.Expr, ast.Assign)) and ast.unparse(n) == txt), txt)
    b.append("Definition rgb_scale : Z := 255%Z.")
    b.append("Definition pct_scale : Z := 100%Z.")
    b.append("Definition hue_scale : Z := 360%Z.")

    stree = ast.parse(src("serialize.py"))
    hs = find_func(stree, ["CSSSerializer", "_hash"])
    body = [ast.unparse(x) for x in hs.body if not (isinstance(x, ast.Expr) and isinstance(x.value, ast.Constant))]
    m = re.fullmatch(r"if self\.prefs\.minimizeColorHash and len\(val\) == (\d+) and \(val\[(\d)\] == val\[(\d)\]\) and "
                     r"\(val\[(\d)\] == val\[(\d)\]\) and \(val\[(\d)\] == val\[(\d)\]\):\n"
                     r"    return '#%s%s%s' % \(val\[(\d)\], val\[(\d)\], val\[(\d)\]\)\|\|return val", "||".join(body))
    if not m:
        raise Refused("_hash has an unexpected body: %r" % body)
    g = m.groups()
    b.append("Definition hash_len : nat := %s%%nat." % g[0])
    b.append("Definition hash_pairs : list (nat * nat) := [%s]." % "; ".join(
        "(%s%%nat, %s%%nat)" % (g[i], g[i + 1]) for i in (1, 3, 5)))
    b.append("Definition hash_pick : list nat := [%s]." % "; ".join("%s%%nat" % x for x in g[7:10]))
    emit("Colors", "Local Open Scope Z_scope.\n\n" + "\n\n".join(b), requires="From Coq Require Import QArith.\nFrom CssV Require Import Base Regex.")


if __name__ == "__main__":
    try:
        numconsts()
        colors()
    except (Refused, RL.Refused) as e:
        print("translator refused: %s" % e)
        sys.exit(2)
