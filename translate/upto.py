"""util.py / cssstylesheet.py / cssmediarule.py / cssstyledeclaration.py / cssstylerule.py -> Gen/UptoGen.v  (C04)

Regenerated on every run, fail-closed (anything outside the expected shapes raises Refused):
  * Base._tokensupto2: the keyword flags in parameter order, the defaults `ends`, `endtypes`, `brace = bracket =
    parant = 0`, and for every branch of the if/elif ladder the constants it assigns      -> gen_default_mode, gen_modes
    (the selectorattendonly extra test on the start token -> gen_selatt; which flag arms the STRING special case
    of the loop -> gen_mq_flag)
  * the start-token chain and the loop chain of bracket tests (`'{' == val` ..., the `or FUNCTION == typ` disjunct,
    which counter, which delta, in source order)                                           -> gen_start_ladder, gen_loop_ladder
  * the IDENT guards, the EOF test, the stop condition (shape-checked)                       -> gen_ident_guard (+ type names)
  * which _tokensupto2 call each statement handler makes (flag, start token passed?) and the token-type -> handler
    tables of the three dispatch loops (sheet, @media, declaration block), the default ATKEYWORD production of
    Base2, the two calls of CSSStyleRule._setCssText and the three of CSSMediaRule._setCssText
                                                                                            -> gen_*_prods / gen_*_calls
"""
import ast
import sys

from translate.common import Refused, emit, src, find_func, one

COUNTERS = {"brace": 0, "bracket": 1, "parant": 2}


def cs(x):
    return '(s "%s")' % x.replace('"', '""')


def cz(n):
    return "(%d)%%Z" % n


def const_int(node):
    if isinstance(node, ast.Constant) and isinstance(node.value, int):
        return node.value
    if isinstance(node, ast.UnaryOp) and isinstance(node.op, ast.USub) and isinstance(node.operand, ast.Constant):
        return -node.operand.value
    raise Refused("not an integer constant at line %d" % node.lineno)


def mode_assignments(stmts, where):
    """assignments of a ladder branch -> dict over ends/endtypes/brace/bracket/parant (+ 'selatt' for the extra test)"""
    out = {}
    for st in stmts:
        if isinstance(st, ast.Assign) and len(st.targets) == 1 and isinstance(st.targets[0], ast.Name):
            name = st.targets[0].id
            if name == "ends" and isinstance(st.value, ast.Constant) and isinstance(st.value.value, str):
                out["ends"] = st.value.value
            elif name == "endtypes" and isinstance(st.value, ast.Tuple) and all(
                    isinstance(e, ast.Constant) and isinstance(e.value, str) for e in st.value.elts):
                out["endtypes"] = [e.value for e in st.value.elts]
            elif name in COUNTERS:
                out[name] = const_int(st.value)
            else:
                raise Refused("%s: unexpected assignment to %s at line %d" % (where, name, st.lineno))
        elif isinstance(st, ast.If) and ast.unparse(st.test) == "starttoken and self._tokenvalue(starttoken) == '['" \
                and len(st.body) == 1 and not st.orelse and ast.unparse(st.body[0]) == "bracket = 1":
            out["selatt"] = ("[", 1)
        else:
            raise Refused("%s: unexpected statement at line %d: %s" % (where, st.lineno, ast.unparse(st)[:60]))
    return out


def bracket_chain(node, valname, typexpr, where):
    """if/elif chain `'X' == val [or Base._prods.FUNCTION == <typ>]: counter (+|-)= 1` -> [(char, or_function, idx, delta)]"""
    out = []
    while True:
        t = node.test
        orfn = False
        if isinstance(t, ast.BoolOp) and isinstance(t.op, ast.Or) and len(t.values) == 2:
            if ast.unparse(t.values[1]) != "Base._prods.FUNCTION == " + typexpr:
                raise Refused("%s: unexpected disjunct at line %d" % (where, t.lineno))
            orfn = True
            t = t.values[0]
        if not (isinstance(t, ast.Compare) and len(t.ops) == 1 and isinstance(t.ops[0], ast.Eq)
                and isinstance(t.left, ast.Constant) and isinstance(t.left.value, str) and len(t.left.value) == 1
                and isinstance(t.comparators[0], ast.Name) and t.comparators[0].id == valname):
            raise Refused("%s: unexpected bracket test at line %d: %s" % (where, node.lineno, ast.unparse(node.test)))
        body = [b for b in node.body if not isinstance(b, ast.Expr)]
        if len(body) != 1 or not isinstance(body[0], ast.AugAssign) or not isinstance(body[0].target, ast.Name) \
                or body[0].target.id not in COUNTERS or const_int(body[0].value) != 1 \
                or not isinstance(body[0].op, (ast.Add, ast.Sub)):
            raise Refused("%s: unexpected bracket action at line %d" % (where, node.lineno))
        out.append((t.left.value, orfn, COUNTERS[body[0].target.id], 1 if isinstance(body[0].op, ast.Add) else -1))
        if not node.orelse:
            return out
        if len(node.orelse) != 1 or not isinstance(node.orelse[0], ast.If):
            raise Refused("%s: chain does not end in elif at line %d" % (where, node.lineno))
        node = node.orelse[0]


def upto_calls(func):
    """every self._tokensupto2(...) call below func (nested defs excluded) -> [(flag or '', with start token)]"""
    out = []

    def walk(n, top):
        for c in ast.iter_child_nodes(n):
            if isinstance(c, ast.FunctionDef) and not top:
                continue
            if isinstance(c, ast.FunctionDef):
                continue
            if isinstance(c, ast.Call) and isinstance(c.func, ast.Attribute) and c.func.attr == "_tokensupto2":
                if not c.args or ast.unparse(c.args[0]) != "tokenizer":
                    raise Refused("_tokensupto2 call without the tokenizer at line %d" % c.lineno)
                start = False
                if len(c.args) == 2:
                    if ast.unparse(c.args[1]) != "token":
                        raise Refused("unexpected start token argument at line %d" % c.lineno)
                    start = True
                elif len(c.args) > 2:
                    raise Refused("unexpected positional arguments at line %d" % c.lineno)
                flag = ""
                for k in c.keywords:
                    if k.arg == "starttoken":
                        if ast.unparse(k.value) != "token":
                            raise Refused("unexpected start token at line %d" % c.lineno)
                        start = True
                    elif k.arg == "separateEnd":
                        pass
                    elif isinstance(k.value, ast.Constant) and k.value.value is True and not flag:
                        flag = k.arg
                    else:
                        raise Refused("unexpected keyword %s at line %d" % (k.arg, c.lineno))
                out.append((c.lineno, c.col_offset, flag, start))
            walk(c, False)
    walk(func, True)
    return [(f, st) for _, _, f, st in sorted(out)]


def parse_call_tables(func, what):
    """the self._parse(...) call with a productions dict literal: ({type: handler or 'NOOP'}, default handler)"""
    calls = [n for n in ast.walk(func) if isinstance(n, ast.Call) and isinstance(n.func, ast.Attribute)
             and n.func.attr == "_parse"]
    best = None
    for c in calls:
        d = None
        if len(c.args) >= 4 and isinstance(c.args[3], ast.Dict):
            d = c.args[3]
        for k in c.keywords:
            if k.arg == "productions" and isinstance(k.value, ast.Dict):
                d = k.value
        dflt = [k.value for k in c.keywords if k.arg == "default"]
        if d is not None and len(d.keys) >= 2 and len(dflt) == 1 and isinstance(dflt[0], ast.Name):
            if best is not None:
                raise Refused("%s: more than one dispatching _parse call" % what)
            best = (d, dflt[0].id)
    if best is None:
        raise Refused("%s: no dispatching _parse call found" % what)
    prods = []
    for k, v in zip(best[0].keys, best[0].values):
        if not (isinstance(k, ast.Constant) and isinstance(k.value, str)):
            raise Refused("%s: production key is not a string" % what)
        if isinstance(v, ast.Name):
            prods.append((k.value, v.id))
        elif isinstance(v, ast.Lambda) and isinstance(v.body, ast.Constant) and v.body.value is None:
            prods.append((k.value, "NOOP"))
        else:
            raise Refused("%s: production %s is neither a handler nor a no-op lambda" % (what, k.value))
    return prods, best[1]


def handler_table(func, names, what):
    hs = {n.name: n for n in func.body if isinstance(n, ast.FunctionDef)}
    # nested one level deeper (the @media handlers live inside an else: block)
    for n in ast.walk(func):
        if isinstance(n, ast.FunctionDef) and n is not func and n.name not in hs:
            hs[n.name] = n
    out = []
    for h in names:
        if h == "NOOP":
            continue
        if h not in hs:
            raise Refused("%s: handler %s not found" % (what, h))
        calls = upto_calls(hs[h])
        # a handler that delegates to another handler of the same table (char -> unexpected)
        deleg = [n.func.id for n in ast.walk(hs[h]) if isinstance(n, ast.Call) and isinstance(n.func, ast.Name)
                 and n.func.id in hs and n.func.id != h]
        kinds = sorted(set(calls))
        if len(kinds) > 1:
            raise Refused("%s: handler %s makes different _tokensupto2 calls: %r" % (what, h, kinds))
        out.append((h, kinds[0] if kinds else None, sorted(set(deleg))))
    return out


def order_signature(h, what):
    """(threshold N of `(expected or 0) > N` or None, final return: int or None for max(1, expected or 0),
    does a `not rule.wellformed` branch return `expected` unchanged)"""
    def is_max1(v):
        return ast.unparse(v) == "max(1, expected or 0)"
    th = None
    for n in ast.walk(h):
        if isinstance(n, ast.Compare) and ast.unparse(n.left) == "expected or 0":
            if th is not None or not isinstance(n.ops[0], ast.Gt) or not isinstance(n.comparators[0], ast.Constant):
                raise Refused("%s: unexpected test on expected" % what)
            th = n.comparators[0].value
    last = h.body[-1]
    if not isinstance(last, ast.Return):
        raise Refused("%s: does not end in a return" % what)
    if isinstance(last.value, ast.Constant) and isinstance(last.value.value, int):
        nx = last.value.value
    elif is_max1(last.value):
        nx = None
    else:
        raise Refused("%s: unexpected final return %s" % (what, ast.unparse(last.value)))
    keeps = False
    for n in ast.walk(h):
        if isinstance(n, ast.Return) and n is not last:
            v = ast.unparse(n.value)
            if v == "expected":
                continue
            if v == ast.unparse(last.value) and nx is None:
                continue            # the margin branch of unknownrule returns the same max(1, expected or 0)
            raise Refused("%s: unexpected early return %s" % (what, v))
    for n in ast.walk(h):
        if isinstance(n, ast.If) and ast.unparse(n.test) == "not rule.wellformed":
            if not (isinstance(n.body[-1], ast.Return) and ast.unparse(n.body[-1].value) == "expected"):
                raise Refused("%s: the not-wellformed branch does not return expected" % what)
            keeps = True
    # the rejected-by-position branch must return expected as well
    if th is not None:
        ok = False
        for n in ast.walk(h):
            if isinstance(n, ast.If) and ast.unparse(n.test) == "(expected or 0) > %d" % th \
                    and isinstance(n.body[-1], ast.Return) and ast.unparse(n.body[-1].value) == "expected":
                ok = True
        if not ok:
            raise Refused("%s: the position test does not return expected" % what)
    return th, nx, keeps


def coq_calls(rows):
    def one_(r):
        h, call, deleg = r
        c = "None" if call is None else "(Some (%s, %s))" % (cs(call[0]), "true" if call[1] else "false")
        return "(%s, (%s, [%s]))" % (cs(h), c, "; ".join(cs(d) for d in deleg))
    return "[" + ";\n   ".join(one_(r) for r in rows) + "]"


def coq_prods(prods):
    return "[" + "; ".join("(%s, %s)" % (cs(k), cs(v)) for k, v in prods) + "]"


def main():
    tree = ast.parse(src("util.py"))
    f = find_func(tree, ["Base", "_tokensupto2"])
    args = [a.arg for a in f.args.args]
    if args[:3] != ["self", "tokenizer", "starttoken"] or args[-1] != "separateEnd":
        raise Refused("_tokensupto2: unexpected parameter list %r" % args)
    flags = args[3:-1]
    defaults = f.args.defaults
    if len(defaults) != len(args) - 2 or ast.unparse(defaults[0]) != "None" or any(
            ast.unparse(d) != "False" for d in defaults[1:]):
        raise Refused("_tokensupto2: unexpected parameter defaults")
    body = [b for b in f.body if not (isinstance(b, ast.Expr) and isinstance(b.value, ast.Constant))]
    if [ast.unparse(b) for b in body[:3]] != ["ends = ';}'", "endtypes = ()", "brace = bracket = parant = 0"]:
        raise Refused("_tokensupto2: unexpected initial assignments: %r" % [ast.unparse(b) for b in body[:3]])
    ladder = body[3]
    modes = []
    node = ladder
    while True:
        if not isinstance(node, ast.If) or not isinstance(node.test, ast.Name) or node.test.id not in flags:
            raise Refused("_tokensupto2: ladder test is not a flag at line %d" % node.lineno)
        modes.append((node.test.id, mode_assignments(node.body, "ladder branch " + node.test.id)))
        if not node.orelse:
            break
        if len(node.orelse) != 1:
            raise Refused("_tokensupto2: ladder else-branch at line %d" % node.lineno)
        node = node.orelse[0]
    if [m[0] for m in modes] != flags:
        raise Refused("_tokensupto2: ladder order %r differs from the parameter order %r" % ([m[0] for m in modes], flags))
    if ast.unparse(body[4]) != "resulttokens = []":
        raise Refused("_tokensupto2: resulttokens initialisation moved")
    # ---- start token block
    st = body[5]
    if not (isinstance(st, ast.If) and ast.unparse(st.test) == "starttoken" and not st.orelse and len(st.body) == 3):
        raise Refused("_tokensupto2: unexpected start token block")
    if ast.unparse(st.body[0]) != "resulttokens.append(starttoken)":
        raise Refused("_tokensupto2: start token is not appended first")
    sv = ast.unparse(st.body[1])
    if sv == "val = starttoken[1] if Base._prods.IDENT != starttoken[0] else None":
        guard_start = True
    elif sv == "val = starttoken[1]":
        guard_start = False
    else:
        raise Refused("_tokensupto2: unexpected start token value: " + sv)
    start_ladder = bracket_chain(st.body[2], "val", "starttoken[0]", "start token chain")
    # ---- the loop
    lp = body[6]
    if not (isinstance(lp, ast.If) and ast.unparse(lp.test) == "tokenizer" and len(lp.body) == 1
            and isinstance(lp.body[0], ast.For) and ast.unparse(lp.body[0].iter) == "tokenizer"):
        raise Refused("_tokensupto2: unexpected loop header")
    lb = lp.body[0].body
    if ast.unparse(lb[0]) not in ("(typ, val, line, col) = token", "typ, val, line, col = token"):
        raise Refused("_tokensupto2: unexpected token unpacking: " + ast.unparse(lb[0]))
    if ast.unparse(lb[1]) != "if 'EOF' == typ:\n    resulttokens.append(token)\n    break":
        raise Refused("_tokensupto2: unexpected EOF test")
    i = 2
    guard_loop = False
    if ast.unparse(lb[i]) == "if Base._prods.IDENT == typ:\n    val = None":
        guard_loop = True
        i += 1
    loop_ladder = bracket_chain(lb[i], "val", "typ", "loop chain")
    if ast.unparse(lb[i + 1]) != "resulttokens.append(token)":
        raise Refused("_tokensupto2: token is not appended after the counters")
    stop = ast.unparse(lb[i + 2])
    want_guarded = ("if brace == bracket == parant == 0 and (val is not None and val in ends or typ in endtypes):\n    break\n"
                    "elif mediaqueryendonly and brace == -1 and (bracket == parant == 0) and (typ in endtypes):\n    break")
    want_plain = want_guarded.replace("val is not None and val in ends", "val in ends")
    if guard_loop and stop != want_guarded or (not guard_loop and stop != want_plain):
        raise Refused("_tokensupto2: unexpected stop condition:\n" + stop)
    if len(lb) != i + 3 or guard_loop != guard_start:
        raise Refused("_tokensupto2: unexpected extra statements in the loop / inconsistent IDENT guards")
    if not ast.unparse(body[7]).startswith("if separateEnd:") or len(body) != 8:
        raise Refused("_tokensupto2: unexpected tail")

    def mode_row(d):
        return "(%s, [%s], (%s, %s, %s))" % (cs(d.get("ends", ";}")), "; ".join(cs(e) for e in d.get("endtypes", [])),
                                             cz(d.get("brace", 0)), cz(d.get("bracket", 0)), cz(d.get("parant", 0)))

    def ladder_rows(l):
        return "[" + "; ".join("(%s, %s, %d%%nat, %s)" % (cs(c), "true" if fn else "false", idx, cz(d))
                               for c, fn, idx, d in l) + "]"
    selatt = [m[0] for m in modes if "selatt" in m[1]]
    if len(selatt) > 1:
        raise Refused("more than one branch looks at the start token")
    b = []
    b.append("Definition gen_flags : list str := [%s]." % "; ".join(cs(x) for x in flags))
    b.append("Definition gen_default_mode : str * list str * (Z * Z * Z) := %s." % mode_row({}))
    b.append("Definition gen_modes : list (str * (str * list str * (Z * Z * Z))) :=\n  [" + ";\n   ".join(
        "(%s, %s)" % (cs(n), mode_row(d)) for n, d in modes) + "].")
    b.append("(* the one branch that looks at the start token: `if starttoken and value == '[': bracket = 1` *)")
    b.append("Definition gen_selatt : list (str * (str * Z)) := [%s]." % "; ".join(
        "(%s, (%s, %s))" % (cs(n), cs("["), cz(1)) for n in selatt))
    b.append("Definition gen_mq_flag : str := %s.   (* arms the `brace == -1 ... typ in endtypes` stop *)" % cs("mediaqueryendonly"))
    b.append("(* (bracket character, `or FUNCTION == typ`, counter 0 brace 1 bracket 2 parant, delta), source order *)")
    b.append("Definition gen_start_ladder : list (str * bool * nat * Z) := %s." % ladder_rows(start_ladder))
    b.append("Definition gen_loop_ladder : list (str * bool * nat * Z) := %s." % ladder_rows(loop_ladder))
    b.append("Definition gen_ident_guard : bool := %s." % ("true" if guard_loop else "false"))

    # ---- handlers
    sheet = find_func(ast.parse(src("css/cssstylesheet.py")), ["CSSStyleSheet", "_setCssText"])
    prods, dflt = parse_call_tables(sheet, "cssstylesheet")
    rows = handler_table(sheet, sorted(set(h for _, h in prods) | {dflt}), "cssstylesheet")
    b.append("(* CSSStyleSheet._setCssText: token type -> handler, default handler, handler -> its _tokensupto2 call *)")
    b.append("Definition gen_sheet_prods : list (str * str) := %s." % coq_prods(prods))
    b.append("Definition gen_sheet_default : str := %s." % cs(dflt))
    b.append("Definition gen_sheet_calls : list (str * (option (str * bool) * list str)) :=\n  %s." % coq_calls(rows))
    # the expected 0..3 order state: per handler (threshold, next state, unchanged when the rule is discarded)
    hs = {n.name: n for n in sheet.body if isinstance(n, ast.FunctionDef)}
    sig = []
    for hname in sorted(set(h for _, h in prods) | {dflt}):
        if hname == "NOOP":
            continue
        th, nx, keeps = order_signature(hs[hname], "cssstylesheet handler " + hname)
        sig.append("(%s, (%s, %s, %s))" % (cs(hname), "None" if th is None else "(Some %d%%nat)" % th,
                                            "None" if nx is None else "(Some %d%%nat)" % nx, "true" if keeps else "false"))
    b.append("(* handler -> (N of `(expected or 0) > N`, returned state (None: max(1, expected or 0)),\n"
             "   a `not rule.wellformed` branch returns `expected` unchanged) *)")
    b.append("Definition gen_sheet_order : list (str * (option nat * option nat * bool)) :=\n  [" + ";\n   ".join(sig) + "].")
    init = [c for c in ast.walk(sheet) if isinstance(c, ast.Call) and isinstance(c.func, ast.Attribute)
            and c.func.attr == "_parse" and len(c.args) >= 4 and isinstance(c.args[3], ast.Dict)]
    if len(init) != 1 or ast.unparse(init[0].args[0]) != "0":
        raise Refused("cssstylesheet: the initial order state is not 0")
    media = find_func(ast.parse(src("css/cssmediarule.py")), ["CSSMediaRule", "_setCssText"])
    prods, dflt = parse_call_tables(media, "cssmediarule")
    rows = handler_table(media, sorted(set(h for _, h in prods) | {dflt}), "cssmediarule")
    b.append("Definition gen_media_prods : list (str * str) := %s." % coq_prods(prods))
    b.append("Definition gen_media_default : str := %s." % cs(dflt))
    b.append("Definition gen_media_calls : list (str * (option (str * bool) * list str)) :=\n  %s." % coq_calls(rows))
    b.append("Definition gen_media_head_calls : list (str * bool) := [%s].   (* in source order *)" % "; ".join(
        "(%s, %s)" % (cs(fl), "true" if st_ else "false") for fl, st_ in upto_calls(media)))
    decl = find_func(ast.parse(src("css/cssstyledeclaration.py")), ["CSSStyleDeclaration", "_setCssText"])
    prods, dflt = parse_call_tables(decl, "cssstyledeclaration")
    rows = handler_table(decl, sorted(set(h for _, h in prods) | {dflt}), "cssstyledeclaration")
    b.append("Definition gen_decl_prods : list (str * str) := %s." % coq_prods(prods))
    b.append("Definition gen_decl_default : str := %s." % cs(dflt))
    b.append("Definition gen_decl_calls : list (str * (option (str * bool) * list str)) :=\n  %s." % coq_calls(rows))
    srule = find_func(ast.parse(src("css/cssstylerule.py")), ["CSSStyleRule", "_setCssText"])
    b.append("Definition gen_stylerule_calls : list (str * bool) := [%s]." % "; ".join(
        "(%s, %s)" % (cs(fl), "true" if st_ else "false") for fl, st_ in upto_calls(srule)))
    # default ATKEYWORD production of Base2 (used by the declaration loop)
    b2 = find_func(tree, ["Base2", "_adddefaultproductions"])
    atk = one((n for n in b2.body if isinstance(n, ast.FunctionDef) and n.name == "ATKEYWORD"), "Base2 ATKEYWORD production")
    calls = sorted(set(upto_calls(atk)))
    if len(calls) != 1:
        raise Refused("Base2.ATKEYWORD: expected one kind of _tokensupto2 call")
    b.append("Definition gen_base2_atkeyword_call : str * bool := (%s, %s)." % (cs(calls[0][0]), "true" if calls[0][1] else "false"))
    emit("UptoGen", "\n".join(b), requires="From CssV Require Import Base.")


if __name__ == "__main__":
    try:
        main()
    except Refused as e:
        sys.stderr.write("translate/upto.py refused: %s\n" % e)
        sys.exit(2)
