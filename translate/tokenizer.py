"""tokenize2.py / cssproductions.py / helper.normalize  ->  Gen/Productions.v, Gen/TokTables.v, Gen/PyTables.v"""
import ast
import re
import sys

from translate.common import Refused, emit, src, find_func, one, str_tuple
from translate.regexlib import to_coq, coq_str
import translate.regexlib as RL


def main():
    import css_parser.tokenize2 as T
    import css_parser.cssproductions as CP
    import css_parser.helper as H

    tk = T.Tokenizer()
    prods = []
    for name, matcher in tk.tokenmatches:
        pat = matcher.__self__
        if pat.flags & ~(re.UNICODE):
            raise Refused("production %s compiled with flags %r" % (name, pat.flags))
        prods.append((name, to_coq(pat.pattern, pat.flags)))
    if prods[0][0] != "BOM":
        raise Refused("first production is not BOM")
    body = []
    for name, term in prods:
        body.append("Definition re_%s : re :=\n  %s." % (name.replace("-", "_"), term))
    body.append("Definition bom_production : str * re := (%s, re_%s)." % (coq_str(prods[0][0]), prods[0][0]))
    body.append("Definition productions : list (str * re) :=\n  [ " + ";\n    ".join(
        "(%s, re_%s)" % (coq_str(n), n.replace("-", "_")) for n, _ in prods[1:]) + " ].")
    # the optional production settings.set('DXImageTransform.Microsoft', True) prepends
    dx = CP._DXImageTransform
    exp = tk._expand_macros(CP.MACROS, [dx])[0]
    body.append("Definition re_DX : re :=\n  %s." % to_coq("(?:%s)" % exp[1], re.U))
    body.append("Definition dx_production : str * re := (%s, re_DX)." % coq_str(dx[0]))
    emit("Productions", "\n\n".join(body))

    # ---- tables and constants of the tokenizer loop
    tree = ast.parse(src("tokenize2.py"))
    fn = find_func(tree, ["Tokenizer", "tokenize"])
    fast = one((n for n in ast.walk(fn) if isinstance(n, ast.Compare) and len(n.ops) == 1
                and isinstance(n.ops[0], ast.In) and isinstance(n.left, ast.Name) and n.left.id == "c"
                and isinstance(n.comparators[0], ast.Constant)), "fast-path character test `c in '...'`")
    fastchars = fast.comparators[0].value
    tuples = [n for n in ast.walk(fn) if isinstance(n, ast.Compare) and len(n.ops) == 1
              and isinstance(n.ops[0], ast.In) and isinstance(n.left, ast.Name) and n.left.id == "name"
              and isinstance(n.comparators[0], ast.Tuple)]
    resolved = one((t for t in tuples if "DIMENSION" in str_tuple(t.comparators[0])), "escape-resolved type tuple")
    clean = one((t for t in tuples if t is not resolved), "cleanstring type tuple")
    ends = one((n for n in ast.walk(fn) if isinstance(n, ast.For) and isinstance(n.target, ast.Name)
                and n.target.id == "end"), "`for end in (...)` loop")
    b = []
    b.append("Definition fastchars : str := %s." % coq_str(fastchars))
    b.append("Definition resolved_types : list str := [%s]." % "; ".join(coq_str(x) for x in str_tuple(resolved.comparators[0])))
    b.append("Definition clean_types : list str := [%s]." % "; ".join(coq_str(x) for x in str_tuple(clean.comparators[0])))
    b.append("Definition uri_ends : list str := [%s]." % "; ".join(coq_str(x) for x in str_tuple(ends.iter)))
    ak = T.Tokenizer._atkeywords
    b.append("Definition atkeywords : list (str * str) :=\n  [%s]." % ";\n   ".join(
        "(%s, %s)" % (coq_str(k), coq_str(v)) for k, v in ak.items()))
    b.append("Definition charset_sym : str := %s." % coq_str(CP.CSSProductions.CHARSET_SYM))
    for nm, subm in (("unicodesub", T.Tokenizer.unicodesub), ("cleanstring", T.Tokenizer.cleanstring),
                     ("simpleescapes", H._simpleescapes)):
        pat = subm.__self__
        if subm.__name__ != "sub":
            raise Refused(nm + " is not a .sub bound method")
        b.append("Definition re_%s : re :=\n  %s." % (nm, to_coq(pat.pattern, pat.flags & ~re.UNICODE)))
    b.append("Definition linesep : str := %s." % coq_str(T.Tokenizer._linesep))
    b.append("Definition maxunicode : N := %d%%N." % sys.maxunicode)
    emit("TokTables", "\n\n".join(b))

    # ---- interpreter tables: per-character str.lower()
    rows = []
    for cp in range(0x110000):
        lo = chr(cp).lower()
        if lo != chr(cp):
            rows.append((cp, lo))
    # int(x, 16) accepts surrounding whitespace: which characters does str.strip() remove?
    ws = [cp for cp in range(0x110000) if chr(cp).isspace()]
    t = ["Definition lower_table : list (N * str) :=\n  [%s]." % ";\n   ".join(
        "(%d%%N, [%s])" % (cp, "; ".join("%d%%N" % ord(c) for c in lo)) for cp, lo in rows),
        "Definition py_space : list N := [%s]." % "; ".join("%d%%N" % c for c in ws)]
    emit("PyTables", "\n\n".join(t))


if __name__ == "__main__":
    try:
        main()
    except (Refused, RL.Refused) as e:
        print("translator refused: %s" % e)
        sys.exit(2)
