"""util.Base._stringtokenvalue  ->  Gen/StrTokenValue.v      (property C01)

Fail-closed: the function is translated by C03's straight-line translator class (translate.quote.Fn, one fixed
Gallina reading per accepted construct, see coq/theories/Quote.v); anything outside its subset is refused.
Only this one target is generated here, so that C01 does not depend on the pinned shape of helper.string.
"""
import ast
import sys

from translate.common import Refused, emit, src, find_func
from translate.quote import Fn


def main():
    tree = ast.parse(src("util.py"))
    node = find_func(tree, ["Base", "_stringtokenvalue"])
    if not isinstance(node, ast.FunctionDef):
        raise Refused("Base._stringtokenvalue is not a function")
    body = "(* util.py : Base._stringtokenvalue *)\n" + Fn(node, "stringtokenvalue", [("token", "opttoken")], "res_optstr").emit()
    emit("StrTokenValue", body, requires="From CssV Require Import Base Regex Tokenizer Quote.")


if __name__ == "__main__":
    try:
        main()
    except Refused as e:
        print("translator refused: %s" % e)
        sys.exit(2)
