"""_codec3.detectencoding_str / detectencoding_unicode / _fixencoding  ->  Gen/CodecFns.v

Fail-closed translator of straight-line Python (ast) into Gallina.  Every accepted construct has ONE
fixed reading (coq/theories/CodecPyLib.v); anything else raises Refused and the check reports the tie
as broken.

  Python                                   Gallina
  ---------------------------------------  ------------------------------------------------------------
  int literal, True/False, None            (n)%Z, true/false, None (only as a returned value)
  str / bytes literal                      list of code points / byte values (both `str`)
  b"\\xef"[0], b"\\0\\0"[0:2] (constants)     folded by the translator to an int / bytes literal
  len(x)                                   py_len x : Z
  x[i]           (only as `v = x[i]`)      bind (py_index x i) (fun v => ...)      None = IndexError
  x[a:b] x[a:] x[:b]                       py_slice x (Some a|None) (Some b|None)   (Python clamping)
  x + y (str), x + y / x - y (int)         x ++ y, Z.add / Z.sub
  & | ~  (int)                             Z.land Z.lor Z.lnot
  == != < <= > >= (int), == != (str)       Z.eqb ... / eqs
  not e                                    negb e (bool)  |  Z.eqb e 0 (int)
  and / or                                 andb / orb
  an int used as a condition / operand of  negb (Z.eqb e 0)
  and, or
  x.startswith(y)                          starts y x
  x.find('c', start)  (1-char constant)    py_find_char x c start
  x.replace('a', 'b') (1-char constants)   py_replace_char x a b
  x.lower()                                lower x   (CodecPyLib.lower, per-character table from the interpreter)
  chars(x)                                 x   (only if `chars` is exactly  ''.join(chr(byte) for byte in bytestring))
  v = e ; v &= e                           let v := e in ...
  NAME = <int literal> (upper-case, bound once at top level of the function or of the module)   propagated as a constant
  leading return-free block containing ifs (function with indexing)  emitted as <f>_pre returning the variables
                                           the rest reads; the rest as <f>_post;  f := bind (f_pre ..) (f_post ..)
  if/elif/else without return inside       let '(v1,..) := if c then (..) else (..) in ...   (phi-join of the
                                           variables assigned inside that existed before)
  if/elif/else with return inside          let kontN := <rest> in if c then .. kontN else .. kontN
                                           (refused when the branches assign a variable the rest reads)
  return e / return (e1, e2)               the value; str-or-None positions become option str
  for/while/try/with/attribute mutation/any other call   REFUSED
"""
import ast
import sys

from translate.common import Refused, emit, src, find_func
from translate.regexlib import coq_str

SIGS = {
    "detectencoding_str": ([("input", "str"), ("final", "bool")], ("optstr", "bool")),
    "detectencoding_unicode": ([("input", "str"), ("final", "bool")], ("optstr", "bool")),
    "_fixencoding": ([("input", "str"), ("encoding", "str"), ("final", "bool")], "optstr"),
}
CHARS_DUMP = "Return(value=Call(func=Attribute(value=Constant(value=''), attr='join', ctx=Load()), args=[" \
             "GeneratorExp(elt=Call(func=Name(id='chr', ctx=Load()), args=[Name(id='byte', ctx=Load())], keywords=[]), " \
             "generators=[comprehension(target=Name(id='byte', ctx=Store()), iter=Name(id='bytestring', ctx=Load()), " \
             "ifs=[], is_async=0)])], keywords=[]))"


def lit(v):
    if isinstance(v, bytes):
        return "[" + "; ".join("%d%%N" % b for b in v) + "]"
    return coq_str(v)


def module_consts(tree):
    """module-level  NAME = <int literal>  (upper-case name, bound exactly once in the module): usable as constants"""
    count, val = {}, {}
    for n in ast.walk(tree):
        if isinstance(n, (ast.Assign, ast.AugAssign)):
            tg = n.targets[0] if isinstance(n, ast.Assign) else n.target
            if isinstance(tg, ast.Name):
                count[tg.id] = count.get(tg.id, 0) + 1
    for st in tree.body:
        if isinstance(st, ast.Assign) and len(st.targets) == 1 and isinstance(st.targets[0], ast.Name) \
                and isinstance(st.value, ast.Constant) and type(st.value.value) is int and st.targets[0].id.isupper():
            val[st.targets[0].id] = st.value.value
    return {k: v for k, v in val.items() if count.get(k) == 1}


class Fn:
    def __init__(self, node, sig, chars_ok, modconsts=None):
        self.node = node
        self.params, self.ret = sig
        self.chars_ok = chars_ok
        self.nk = 0
        self.partial = any(isinstance(n, ast.Assign) and self.is_index(n.value) for n in ast.walk(node))
        # names bound exactly once, at top level, to an int literal: propagated as constants
        count = {}
        for n in ast.walk(node):
            if isinstance(n, (ast.Assign, ast.AugAssign)):
                tg = n.targets[0] if isinstance(n, ast.Assign) else n.target
                if isinstance(tg, ast.Name):
                    count[tg.id] = count.get(tg.id, 0) + 1
        params = {a.arg for a in node.args.args}
        self.consts = {k: v for k, v in (modconsts or {}).items() if k not in count and k not in params}
        for st in node.body:
            if isinstance(st, ast.Assign) and len(st.targets) == 1 and isinstance(st.targets[0], ast.Name) \
                    and isinstance(st.value, ast.Constant) and type(st.value.value) is int \
                    and count.get(st.targets[0].id) == 1 and st.targets[0].id.isupper():
                self.consts[st.targets[0].id] = st.value.value

    def bad(self, node, why):
        raise Refused("%s: line %d: %s (%s)" % (self.node.name, getattr(node, "lineno", 0), why,
                                                 ast.dump(node)[:120]))

    @staticmethod
    def is_index(e):
        return isinstance(e, ast.Subscript) and not isinstance(e.slice, ast.Slice) \
            and not isinstance(e.value, ast.Constant)

    # ------------------------------------------------------------ expressions
    def const_fold(self, e):
        """constant subscripts of bytes/str literals"""
        if isinstance(e, ast.Subscript) and isinstance(e.value, ast.Constant) and isinstance(e.value.value, (bytes, str)):
            v = e.value.value
            sl = e.slice
            if isinstance(sl, ast.Constant) and isinstance(sl.value, int):
                try:
                    r = v[sl.value]
                except IndexError:
                    self.bad(e, "constant index out of range")
                return r if isinstance(r, int) else r
            if isinstance(sl, ast.Slice) and sl.step is None and all(
                    x is None or (isinstance(x, ast.Constant) and isinstance(x.value, int)) for x in (sl.lower, sl.upper)):
                return v[(sl.lower.value if sl.lower else None):(sl.upper.value if sl.upper else None)]
        return None

    def expr(self, e, env):
        f = self.const_fold(e)
        if f is not None:
            if isinstance(f, int):
                return "(%d)%%Z" % f, "int"
            return lit(f), "str"
        if isinstance(e, ast.Constant):
            v = e.value
            if v is True or v is False:
                return ("true" if v else "false"), "bool"
            if v is None:
                return "None", "none"
            if isinstance(v, int):
                return "(%d)%%Z" % v, "int"
            if isinstance(v, (str, bytes)):
                return lit(v), "str"
            self.bad(e, "constant kind")
        if isinstance(e, ast.Name) and e.id in self.consts:
            return "(%d)%%Z" % self.consts[e.id], "int"
        if isinstance(e, ast.Name):
            if e.id not in env:
                self.bad(e, "unknown or out-of-scope name " + e.id)
            return e.id, env[e.id]
        if isinstance(e, ast.BinOp):
            a, ta = self.expr(e.left, env)
            b, tb = self.expr(e.right, env)
            ops = {ast.BitAnd: "Z.land", ast.BitOr: "Z.lor", ast.Add: "Z.add", ast.Sub: "Z.sub"}
            if ta == tb == "int" and type(e.op) in ops:
                return "(%s %s %s)" % (ops[type(e.op)], a, b), "int"
            if ta == tb == "str" and isinstance(e.op, ast.Add):
                return "(%s ++ %s)" % (a, b), "str"
            self.bad(e, "binary operator/types %s %s" % (ta, tb))
        if isinstance(e, ast.UnaryOp):
            a, ta = self.expr(e.operand, env)
            if isinstance(e.op, ast.Invert) and ta == "int":
                return "(Z.lnot %s)" % a, "int"
            if isinstance(e.op, ast.Not) and ta == "bool":
                return "(negb %s)" % a, "bool"
            if isinstance(e.op, ast.Not) and ta == "int":
                return "(Z.eqb %s 0)" % a, "bool"
            if isinstance(e.op, ast.USub) and ta == "int":
                return "(Z.opp %s)" % a, "int"
            self.bad(e, "unary operator")
        if isinstance(e, ast.Compare):
            if len(e.ops) != 1:
                self.bad(e, "chained comparison")
            a, ta = self.expr(e.left, env)
            b, tb = self.expr(e.comparators[0], env)
            op = type(e.ops[0])
            if ta == tb == "int":
                m = {ast.Eq: "(Z.eqb %s %s)", ast.NotEq: "(negb (Z.eqb %s %s))", ast.Lt: "(Z.ltb %s %s)",
                     ast.LtE: "(Z.leb %s %s)", ast.Gt: "(Z.gtb %s %s)", ast.GtE: "(Z.geb %s %s)"}
                if op in m:
                    return m[op] % (a, b), "bool"
            if ta == tb == "str":
                m = {ast.Eq: "(eqs %s %s)", ast.NotEq: "(negb (eqs %s %s))"}
                if op in m:
                    return m[op] % (a, b), "bool"
            self.bad(e, "comparison %s %s" % (ta, tb))
        if isinstance(e, ast.BoolOp):
            parts = [self.truth(v, env) for v in e.values]
            if any(t != "bool" for _, t in parts):
                self.bad(e, "and/or on non-bool")
            fn = "andb" if isinstance(e.op, ast.And) else "orb"
            out = parts[-1][0]
            for p, _ in reversed(parts[:-1]):
                out = "(%s %s %s)" % (fn, p, out)
            return out, "bool"
        if isinstance(e, ast.Subscript):
            if isinstance(e.slice, ast.Slice):
                if e.slice.step is not None:
                    self.bad(e, "slice step")
                x, tx = self.expr(e.value, env)
                if tx != "str":
                    self.bad(e, "slice of non-str")
                bounds = []
                for bnd in (e.slice.lower, e.slice.upper):
                    if bnd is None:
                        bounds.append("None")
                    else:
                        t, tt = self.expr(bnd, env)
                        if tt != "int":
                            self.bad(e, "slice bound type")
                        bounds.append("(Some %s)" % t)
                return "(py_slice %s %s %s)" % (x, bounds[0], bounds[1]), "str"
            self.bad(e, "indexing is only accepted as `v = x[i]`")
        if isinstance(e, ast.Call):
            if e.keywords:
                self.bad(e, "keyword arguments")
            if isinstance(e.func, ast.Name):
                args = [self.expr(a, env) for a in e.args]
                if e.func.id == "len" and len(args) == 1 and args[0][1] == "str":
                    return "(py_len %s)" % args[0][0], "int"
                if e.func.id == "chars" and len(args) == 1 and args[0][1] == "str" and self.chars_ok:
                    return args[0][0], "str"
                self.bad(e, "call of " + e.func.id)
            if isinstance(e.func, ast.Attribute):
                x, tx = self.expr(e.func.value, env)
                if tx != "str":
                    self.bad(e, "method on non-str")
                m = e.func.attr
                if m == "startswith" and len(e.args) == 1:
                    y, ty = self.expr(e.args[0], env)
                    if ty == "str":
                        return "(starts %s %s)" % (y, x), "bool"
                if m == "find" and len(e.args) == 2 and isinstance(e.args[0], ast.Constant) \
                        and isinstance(e.args[0].value, str) and len(e.args[0].value) == 1:
                    st, ts = self.expr(e.args[1], env)
                    if ts == "int":
                        return "(py_find_char %s %d%%N %s)" % (x, ord(e.args[0].value), st), "int"
                if m == "replace" and len(e.args) == 2 and all(
                        isinstance(a, ast.Constant) and isinstance(a.value, str) and len(a.value) == 1 for a in e.args):
                    return "(py_replace_char %s %d%%N %d%%N)" % (x, ord(e.args[0].value), ord(e.args[1].value)), "str"
                if m == "lower" and not e.args:
                    return "(lower %s)" % x, "str"
                self.bad(e, "method " + m)
        self.bad(e, "expression kind")

    def truth(self, e, env):
        """an expression in boolean context: a bool, or an int (Python truthiness: non-zero)"""
        t, ty = self.expr(e, env)
        if ty == "int":
            return "(negb (Z.eqb %s 0))" % t, "bool"
        return t, ty

    # ------------------------------------------------------------ statements
    @staticmethod
    def has_return(stmts):
        return any(isinstance(n, ast.Return) for s in stmts for n in ast.walk(s))

    @staticmethod
    def assigned(stmts):
        out = []
        for s in stmts:
            for n in ast.walk(s):
                if isinstance(n, (ast.Assign, ast.AugAssign)):
                    t = n.targets[0] if isinstance(n, ast.Assign) else n.target
                    if isinstance(t, ast.Name) and t.id not in out:
                        out.append(t.id)
        return out

    @staticmethod
    def reads(stmts):
        return {n.id for s in stmts for n in ast.walk(s) if isinstance(n, ast.Name) and isinstance(n.ctx, ast.Load)}

    def retval(self, e, env):
        def opt(x):
            t, ty = self.expr(x, env)
            if ty == "none":
                return "None"
            if ty == "str":
                return "(Some %s)" % t
            self.bad(x, "returned value must be str or None")
        if isinstance(self.ret, tuple):
            if not isinstance(e, ast.Tuple) or len(e.elts) != len(self.ret):
                self.bad(e, "return shape")
            parts = []
            for x, want in zip(e.elts, self.ret):
                if want == "optstr":
                    parts.append(opt(x))
                else:
                    t, ty = self.expr(x, env)
                    if ty != want:
                        self.bad(x, "return component type")
                    parts.append(t)
            v = "(" + ", ".join(parts) + ")"
        else:
            v = opt(e)
        return "(Some %s)" % v if self.partial else v

    def block(self, stmts, k, env, ind):
        """k: Coq term used when control falls off the end of `stmts` (None: falling off is refused)"""
        pad = "  " * ind
        if not stmts:
            if k is None:
                self.bad(self.node, "control can fall off the end of the function")
            return pad + k
        s, rest = stmts[0], stmts[1:]
        env = dict(env)
        if isinstance(s, ast.Expr) and isinstance(s.value, ast.Constant) and isinstance(s.value.value, str):
            return self.block(rest, k, env, ind)
        if isinstance(s, ast.Return):
            if s.value is None:
                self.bad(s, "bare return")
            return pad + self.retval(s.value, env)
        if isinstance(s, ast.Assign):
            if len(s.targets) != 1 or not isinstance(s.targets[0], ast.Name):
                self.bad(s, "assignment target")
            name = s.targets[0].id
            if name in self.consts:
                return self.block(rest, k, env, ind)
            if self.is_index(s.value):
                x, tx = self.expr(s.value.value, env)
                i, ti = self.expr(s.value.slice, env)
                if tx != "str" or ti != "int":
                    self.bad(s, "index types")
                env[name] = "int"
                return "%sbind (py_index %s %s) (fun %s =>\n%s)" % (pad, x, i, name, self.block(rest, k, env, ind))
            t, ty = self.expr(s.value, env)
            if ty == "none":
                self.bad(s, "assignment of None")
            env[name] = ty
            return "%slet %s := %s in\n%s" % (pad, name, t, self.block(rest, k, env, ind))
        if isinstance(s, ast.AugAssign):
            if not isinstance(s.target, ast.Name) or not isinstance(s.op, ast.BitAnd) or env.get(s.target.id) != "int":
                self.bad(s, "augmented assignment")
            t, ty = self.expr(s.value, env)
            if ty != "int":
                self.bad(s, "augmented assignment type")
            return "%slet %s := (Z.land %s %s) in\n%s" % (pad, s.target.id, s.target.id, t, self.block(rest, k, env, ind))
        if isinstance(s, ast.If):
            c, tc = self.truth(s.test, env)
            if tc != "bool":
                self.bad(s, "if condition is not a bool (type %s)" % tc)
            if not self.has_return([s]):
                live = [v for v in self.assigned([s]) if v in env]
                if not live:
                    self.bad(s, "if without effect")
                tup = live[0] if len(live) == 1 else "(" + ", ".join(live) + ")"
                pat = live[0] if len(live) == 1 else "'" + tup
                kk = "(Some %s)" % tup if self.partial else tup
                a = self.block(s.body, kk, env, ind + 2)
                b = self.block(s.orelse, kk, env, ind + 2)
                body = "(if %s then\n%s\n%s  else\n%s)" % (c, a, pad, b)
                if self.partial:
                    return "%sbind %s (fun %s =>\n%s)" % (pad, body, pat, self.block(rest, k, env, ind))
                return "%slet %s := %s in\n%s" % (pad, pat, body, self.block(rest, k, env, ind))
            kname = k
            pre = ""
            if rest:
                clash = set(self.assigned([s])) & self.reads(rest)
                if clash:
                    self.bad(s, "branch with return assigns %s which the following statements read" % sorted(clash))
                self.nk += 1
                kname = "kont%d" % self.nk
                pre = "%slet %s :=\n%s in\n" % (pad, kname, self.block(rest, k, env, ind + 2))
            a = self.block(s.body, kname, env, ind + 1)
            b = self.block(s.orelse, kname, env, ind + 1)
            return "%s%s(if %s then\n%s\n%selse\n%s)" % (pre, pad, c, a, pad, b)
        self.bad(s, "statement kind " + type(s).__name__)

    def emit(self):
        a = self.node.args
        if a.vararg or a.kwarg or a.kwonlyargs or a.posonlyargs:
            self.bad(self.node, "argument kinds")
        names = [x.arg for x in a.args]
        if names != [p for p, _ in self.params]:
            self.bad(self.node, "parameters are %r, expected %r" % (names, [p for p, _ in self.params]))
        env = dict(self.params)
        ty = {"str": "str", "bool": "bool"}
        r = "(option str * bool)" if isinstance(self.ret, tuple) else "(option str)"
        if self.partial:
            r = "(option %s)" % r
        cname = self.node.name.lstrip("_")
        plist = " ".join("(%s : %s)" % (p, ty[t]) for p, t in self.params)
        body = [st for st in self.node.body
                if not (isinstance(st, ast.Expr) and isinstance(st.value, ast.Constant))]
        cut = next((i for i, st in enumerate(body) if self.has_return([st])), 0)
        pre = body[:cut]
        if self.partial and any(isinstance(n, ast.If) for st in pre for n in ast.walk(st)):
            # the return-free leading block becomes <name>_pre (returns the variables the rest reads),
            # the rest becomes <name>_post: a mechanical let-abstraction that keeps the proofs modular
            live = [v for v in self.assigned(pre) if v in self.reads(body[cut:]) and v not in self.consts]
            if not live or any(v in env for v in live):
                self.bad(self.node, "cannot split off the leading block")
            tup = "(" + ", ".join(live) + ")"
            pre_t = self.block(pre, "(Some %s)" % tup, env, 1)
            # types of the live variables: from a dry run of the pre block
            env2 = dict(env)
            for v in live:
                env2[v] = "int"
            for st in pre:
                for n in ast.walk(st):
                    if isinstance(n, ast.Assign) and isinstance(n.targets[0], ast.Name) and n.targets[0].id in live \
                            and not self.is_index(n.value):
                        _, tv = self.expr(n.value, env2)
                        if tv != "int":
                            self.bad(n, "live variable of the leading block is not an int")
            post_t = self.block(body[cut:], None, env2, 1)
            lp = " ".join("(%s : Z)" % v for v in live)
            return ("Definition %s_pre %s : option (%s) :=\n%s.\n\n" % (cname, plist, " * ".join("Z" for _ in live), pre_t) +
                    "Definition %s_post %s %s : %s :=\n%s.\n\n" % (cname, lp, plist, r, post_t) +
                    "Definition %s %s : %s :=\n  bind (%s_pre %s) (fun '%s => %s_post %s %s)." % (
                        cname, plist, r, cname, " ".join(p for p, _ in self.params), tup, cname, " ".join(live),
                        " ".join(p for p, _ in self.params)))
        head = "Definition %s %s : %s :=\n" % (cname, plist, r)
        return head + self.block(self.node.body, None, env, 1) + "."


def main():
    text = src("_codec3.py")
    tree = ast.parse(text)
    chars = find_func(tree, ["chars"])
    chars_ok = len(chars.body) == 1 and ast.dump(chars.body[0]) == CHARS_DUMP and [x.arg for x in chars.args.args] == ["bytestring"]
    defs = []
    for name, sig in SIGS.items():
        defs.append(Fn(find_func(tree, [name]), sig, chars_ok, module_consts(tree)).emit())
    emit("CodecFns", "\n\n".join(defs), requires="From CssV Require Import Base CodecPyLib.\nLocal Open Scope Z_scope.")


if __name__ == "__main__":
    try:
        main()
    except Refused as e:
        print("translator refused: %s" % e)
        sys.exit(2)
