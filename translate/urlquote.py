"""helper.string / stringvalue / uri / urivalue / _match_forbidden_in_uri, util.Base._uritokenvalue /
_stringtokenvalue  ->  Gen/UrlQuote.v   (property C12)

Regenerated from /repo's current working tree on every run, fail-closed.  The six functions are
straight-line string code; each statement is compared with the one shape the hand-written model
CssV.UrlQuote gives a Gallina reading to, and every constant (replacement pairs, slice bounds, quote
characters, format strings, the forbidden-character regex) is taken from the source, so an edit either
changes the generated constants (and the theorems are re-checked against them) or is refused.
Also checked: the call sites that connect these helpers to the URI token (serializer, PreDef.uri, @import).
"""
import ast
import re
import sys

from translate.common import Refused, emit, src, find_func
from translate.regexlib import to_coq, coq_str
import translate.regexlib as RL


def body_of(fn):
    b = list(fn.body)
    if b and isinstance(b[0], ast.Expr) and isinstance(b[0].value, ast.Constant) and isinstance(b[0].value.value, str):
        b = b[1:]
    return b


def args_of(fn):
    return [a.arg for a in fn.args.args]


def const_str(n, what):
    if not (isinstance(n, ast.Constant) and isinstance(n.value, str)):
        raise Refused("%s: expected a string constant, found `%s`" % (what, ast.unparse(n)))
    return n.value


def const_int(n, what):
    if isinstance(n, ast.UnaryOp) and isinstance(n.op, ast.USub) and isinstance(n.operand, ast.Constant) \
            and isinstance(n.operand.value, int):
        return -n.operand.value
    if isinstance(n, ast.Constant) and isinstance(n.value, int) and not isinstance(n.value, bool):
        return n.value
    raise Refused("%s: expected an int constant, found `%s`" % (what, ast.unparse(n)))


def is_name(n, name):
    return isinstance(n, ast.Name) and n.id == name


def replace_chain(n, var, what):
    """var.replace(a, b).replace(c, d)...  ->  [(a, b), (c, d), ...] in application order"""
    pairs = []
    while not is_name(n, var):
        if not (isinstance(n, ast.Call) and isinstance(n.func, ast.Attribute) and n.func.attr == "replace"
                and len(n.args) == 2 and not n.keywords):
            raise Refused("%s: not a chain of .replace(const, const) on `%s`: `%s`" % (what, var, ast.unparse(n)))
        pairs.append((const_str(n.args[0], what), const_str(n.args[1], what)))
        n = n.func.value
    pairs.reverse()
    if not pairs or any(a == "" for a, _ in pairs):
        raise Refused(what + ": empty replace chain or empty pattern")
    return pairs


def fmt_parts(n, var, what):
    """'pre%spost' % var  ->  (pre, post)"""
    if not (isinstance(n, ast.BinOp) and isinstance(n.op, ast.Mod) and is_name(n.right, var)):
        raise Refused("%s: expected `'..%%s..' %% %s`, found `%s`" % (what, var, ast.unparse(n)))
    f = const_str(n.left, what)
    if f.count("%") != 1 or f.count("%s") != 1:
        raise Refused("%s: format string %r" % (what, f))
    pre, post = f.split("%s")
    return pre, post


def unquote_expr(n, var, what):
    """var.replace('\\\\' + var[0], var[0])[1:-1]  ->  (escape char, lo, hi_from_end)"""
    if not (isinstance(n, ast.Subscript) and isinstance(n.slice, ast.Slice) and n.slice.step is None
            and n.slice.lower is not None and n.slice.upper is not None):
        raise Refused("%s: expected a slice [a:-b], found `%s`" % (what, ast.unparse(n)))
    lo, hi = const_int(n.slice.lower, what), const_int(n.slice.upper, what)
    c = n.value
    if not (isinstance(c, ast.Call) and isinstance(c.func, ast.Attribute) and c.func.attr == "replace"
            and is_name(c.func.value, var) and len(c.args) == 2):
        raise Refused("%s: expected %s.replace(..)[..], found `%s`" % (what, var, ast.unparse(n)))
    a, b = c.args
    first = "%s[0]" % var
    if not (isinstance(a, ast.BinOp) and isinstance(a.op, ast.Add) and ast.unparse(a.right) == first
            and ast.unparse(b) == first):
        raise Refused("%s: replace arguments `%s`, `%s`" % (what, ast.unparse(a), ast.unparse(b)))
    esc = const_str(a.left, what)
    if len(esc) != 1 or lo < 0 or hi >= 0:
        raise Refused("%s: escape %r / slice bounds %d:%d outside the modelled shape" % (what, esc, lo, hi))
    return esc, lo, -hi


def quoted_test(n, var, what):
    """var and var[0] in '<quotes>' and (var[0] == var[-1])  ->  quotes"""
    if not (isinstance(n, ast.BoolOp) and isinstance(n.op, ast.And) and len(n.values) == 3 and is_name(n.values[0], var)):
        raise Refused("%s: quoted-test `%s`" % (what, ast.unparse(n)))
    t1, t2 = n.values[1], n.values[2]
    if not (isinstance(t1, ast.Compare) and len(t1.ops) == 1 and isinstance(t1.ops[0], ast.In)
            and ast.unparse(t1.left) == var + "[0]"):
        raise Refused("%s: quoted-test `%s`" % (what, ast.unparse(t1)))
    quotes = const_str(t1.comparators[0], what)
    if ast.unparse(t2) != "%s[0] == %s[-1]" % (var, var):
        raise Refused("%s: quoted-test `%s`" % (what, ast.unparse(t2)))
    return quotes


def main():
    import css_parser.helper as H
    out = []
    helper = ast.parse(src("helper.py"))

    # ---- _match_forbidden_in_uri
    mf = H._match_forbidden_in_uri
    if getattr(mf, "__name__", "") != "match" or not isinstance(mf.__self__, re.Pattern):
        raise Refused("_match_forbidden_in_uri is not the .match of a compiled pattern")
    pat = mf.__self__
    if pat.flags & ~re.UNICODE:
        raise Refused("_match_forbidden_in_uri compiled with flags %r" % pat.flags)
    out.append("Definition re_forbidden_in_uri : re :=\n  %s." % to_coq(pat.pattern, pat.flags))

    # ---- helper.string
    fn = find_func(helper, ["string"])
    b = body_of(fn)
    if args_of(fn) != ["value"] or len(b) != 3:
        raise Refused("helper.string: signature or statement count changed")
    if not (isinstance(b[0], ast.Assign) and len(b[0].targets) == 1 and is_name(b[0].targets[0], "value")):
        raise Refused("helper.string stmt 1: `%s`" % ast.unparse(b[0]))
    pairs = replace_chain(b[0].value, "value", "helper.string stmt 1")
    i = b[1]
    if not (isinstance(i, ast.If) and not i.orelse and len(i.body) == 1
            and isinstance(i.test, ast.Call) and ast.unparse(i.test.func) == "value.endswith" and len(i.test.args) == 1):
        raise Refused("helper.string stmt 2: `%s`" % ast.unparse(i))
    tail = const_str(i.test.args[0], "helper.string endswith")
    a = i.body[0]
    if not (isinstance(a, ast.Assign) and is_name(a.targets[0], "value") and isinstance(a.value, ast.BinOp)
            and isinstance(a.value.op, ast.Add) and isinstance(a.value.left, ast.Subscript)
            and is_name(a.value.left.value, "value") and isinstance(a.value.left.slice, ast.Slice)
            and a.value.left.slice.lower is None and a.value.left.slice.step is None):
        raise Refused("helper.string stmt 2 body: `%s`" % ast.unparse(a))
    cut = -const_int(a.value.left.slice.upper, "helper.string tail slice")
    if cut <= 0:
        raise Refused("helper.string tail slice bound")
    tail_add = const_str(a.value.right, "helper.string tail replacement")
    if not isinstance(b[2], ast.Return):
        raise Refused("helper.string stmt 3")
    spre, spost = fmt_parts(b[2].value, "value", "helper.string return")
    out.append("Definition string_replaces : list (str * str) :=\n  [%s]." % "; ".join(
        "(%s, %s)" % (coq_str(x), coq_str(y)) for x, y in pairs))
    out.append("Definition string_tail : str := %s." % coq_str(tail))
    out.append("Definition string_tail_cut : nat := %d%%nat." % cut)
    out.append("Definition string_tail_add : str := %s." % coq_str(tail_add))
    out.append("Definition string_open : str := %s." % coq_str(spre))
    out.append("Definition string_close : str := %s." % coq_str(spost))

    # ---- helper.stringvalue
    fn = find_func(helper, ["stringvalue"])
    b = body_of(fn)
    if args_of(fn) != ["string"] or len(b) != 1 or not isinstance(b[0], ast.Return):
        raise Refused("helper.stringvalue: shape changed")
    esc, lo, hi = unquote_expr(b[0].value, "string", "helper.stringvalue")
    out.append("Definition stringvalue_esc : N := %d%%N." % ord(esc))
    out.append("Definition stringvalue_lo : nat := %d%%nat." % lo)
    out.append("Definition stringvalue_hi : nat := %d%%nat." % hi)

    # ---- helper.uri
    fn = find_func(helper, ["uri"])
    b = body_of(fn)
    if args_of(fn) != ["value"] or len(b) != 2:
        raise Refused("helper.uri: shape changed")
    if ast.unparse(b[0]) != "if _match_forbidden_in_uri(value):\n    value = string(value)":
        raise Refused("helper.uri stmt 1: `%s`" % ast.unparse(b[0]))
    if not isinstance(b[1], ast.Return):
        raise Refused("helper.uri stmt 2")
    upre, upost = fmt_parts(b[1].value, "value", "helper.uri return")
    out.append("Definition uri_open : str := %s." % coq_str(upre))
    out.append("Definition uri_close : str := %s." % coq_str(upost))

    # ---- helper.urivalue
    fn = find_func(helper, ["urivalue"])
    b = body_of(fn)
    if args_of(fn) != ["uri"] or len(b) != 2:
        raise Refused("helper.urivalue: shape changed")
    m = re.fullmatch(r"uri = uri\[uri\.find\((?P<p>'(?:[^'\\]|\\.)'|\"(?:[^\"\\]|\\.)\")\) \+ (?P<o>\d+):-(?P<e>\d+)\]\.strip\(\)",
                     ast.unparse(b[0]))
    if not m:
        raise Refused("helper.urivalue stmt 1: `%s`" % ast.unparse(b[0]))
    paren = ast.literal_eval(m.group("p"))
    if len(paren) != 1 or int(m.group("o")) < 1 or int(m.group("e")) < 1:
        raise Refused("helper.urivalue: find() argument / slice bounds outside the modelled shape")
    i = b[1]
    if not (isinstance(i, ast.If) and ast.unparse(i.body) == "return stringvalue(uri)"
            and ast.unparse(i.orelse) == "return uri"):
        raise Refused("helper.urivalue stmt 2: `%s`" % ast.unparse(i))
    quotes = quoted_test(i.test, "uri", "helper.urivalue")
    out.append("Definition urivalue_paren : N := %d%%N." % ord(paren))
    out.append("Definition urivalue_off : nat := %d%%nat." % int(m.group("o")))
    out.append("Definition urivalue_end : nat := %d%%nat." % int(m.group("e")))
    out.append("Definition urivalue_quotes : str := %s." % coq_str(quotes))

    # ---- util.Base._uritokenvalue / _stringtokenvalue
    util = ast.parse(src("util.py"))
    fn = find_func(util, ["Base", "_uritokenvalue"])
    b = body_of(fn)
    if args_of(fn) != ["self", "token"] or len(b) != 1 or not isinstance(b[0], ast.If) or not is_name(b[0].test, "token"):
        raise Refused("_uritokenvalue: shape changed")
    if ast.unparse(b[0].orelse) != "return None" or len(b[0].body) != 3:
        raise Refused("_uritokenvalue: shape changed (branches)")
    s1, s2, s3 = b[0].body
    m = re.fullmatch(r"value = token\[1\]\[token\[1\]\.find\((?P<p>'(?:[^'\\]|\\.)'|\"(?:[^\"\\]|\\.)\")\) \+ (?P<o>\d+):-(?P<e>\d+)\]"
                     r"\.strip\(\)", ast.unparse(s1))
    if not m or ast.unparse(s3) != "return value" or len(ast.literal_eval(m.group("p"))) != 1 \
            or int(m.group("o")) < 1 or int(m.group("e")) < 1:
        raise Refused("_uritokenvalue: `%s` / `%s`" % (ast.unparse(s1), ast.unparse(s3)))
    if not (isinstance(s2, ast.If) and not s2.orelse and len(s2.body) == 1 and isinstance(s2.body[0], ast.Assign)
            and is_name(s2.body[0].targets[0], "value")):
        raise Refused("_uritokenvalue: `%s`" % ast.unparse(s2))
    tq = quoted_test(s2.test, "value", "_uritokenvalue")
    tesc, tlo, thi = unquote_expr(s2.body[0].value, "value", "_uritokenvalue")
    out.append("Definition uritoken_paren : N := %d%%N." % ord(ast.literal_eval(m.group("p"))))
    out.append("Definition uritoken_off : nat := %d%%nat." % int(m.group("o")))
    out.append("Definition uritoken_end : nat := %d%%nat." % int(m.group("e")))
    out.append("Definition uritoken_quotes : str := %s." % coq_str(tq))
    out.append("Definition uritoken_esc : N := %d%%N." % ord(tesc))
    out.append("Definition uritoken_lo : nat := %d%%nat." % tlo)
    out.append("Definition uritoken_hi : nat := %d%%nat." % thi)

    fn = find_func(util, ["Base", "_stringtokenvalue"])
    b = body_of(fn)
    if args_of(fn) != ["self", "token"] or len(b) != 1 or not isinstance(b[0], ast.If) or not is_name(b[0].test, "token"):
        raise Refused("_stringtokenvalue: shape changed")
    if ast.unparse(b[0].orelse) != "return None" or len(b[0].body) != 2 or ast.unparse(b[0].body[0]) != "value = token[1]" \
            or not isinstance(b[0].body[1], ast.Return):
        raise Refused("_stringtokenvalue: shape changed (branches)")
    sesc, slo, shi = unquote_expr(b[0].body[1].value, "value", "_stringtokenvalue")
    out.append("Definition stringtoken_esc : N := %d%%N." % ord(sesc))
    out.append("Definition stringtoken_lo : nat := %d%%nat." % slo)
    out.append("Definition stringtoken_hi : nat := %d%%nat." % shi)

    # ---- call sites: serializer, PreDef.uri, URIValue / _URIProd, @import
    ser = src("serialize.py")
    for needle in ("elif 'URI' == type_:\n                val = helper.uri(val)",
                   "val = helper.string(val)"):
        if ser.count(needle) != 1:
            raise Refused("serialize.Out.append: `%s` not found exactly once" % needle.replace("\n", " "))
    pp = find_func(ast.parse(src("prodparser.py")), ["PreDef", "uri"])
    if "toSeq=lambda t, tokens: (t[0], css_parser.helper.urivalue(t[1]))" not in ast.unparse(pp):
        raise Refused("prodparser.PreDef.uri no longer converts the token with helper.urivalue")
    val = ast.parse(src("css/value.py"))
    uv = find_func(val, ["URIValue", "_setCssText"])
    if "prods = Sequence(PreDef.uri(stop=True))" not in ast.unparse(uv) or "self._value = seq[0].value" not in ast.unparse(uv):
        raise Refused("URIValue._setCssText shape changed")
    if ast.unparse(find_func(val, ["URIValue", "_setUri"]).body[-1]) != "self._value = uri":
        raise Refused("URIValue._setUri shape changed")
    imp = src("css/cssimportrule.py")
    if imp.count("uri = self._uritokenvalue(token)") != 1 or imp.count("self._stringtokenvalue(token)") < 1:
        raise Refused("CSSImportRule no longer reads its href with _uritokenvalue/_stringtokenvalue")

    emit("UrlQuote", "\n\n".join(out))


if __name__ == "__main__":
    try:
        main()
    except (Refused, RL.Refused) as e:
        print("translator refused: %s" % e)
        sys.exit(2)
