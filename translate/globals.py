"""C06: /repo/src/css_parser -> coq/theories/Gen/GlobalSites.v

An ast pass over the *current* source that extracts, for every public entry point that writes a
process-global cell, the bracket it implements: which cell it writes on entry, whether it writes it
back before a normal return, whether that write-back sits in a `finally` covering the whole body, and
where the value written back was read.  Fail-closed: only the statement shapes listed below are
understood; anything else raises Refused (the check then reports the tie as broken).  Besides the
brackets the pass checks, package-wide, that nothing else writes the cells (frame conditions).

emits   Definition current : sites := mkSites ... .     (record of Globals.v)
"""
import ast
import sys
from pathlib import Path

from translate.common import Refused, emit, REPO, find_func

PKG = REPO / "src" / "css_parser"


def parse_file(rel):
    return ast.parse((PKG / rel).read_text(), filename=str(PKG / rel))


def all_modules():
    out = {}
    for p in sorted(PKG.rglob("*.py")):
        rel = str(p.relative_to(PKG))
        if rel.startswith("scripts/"):
            continue            # command line wrappers, not library API
        out[rel] = ast.parse(p.read_text(), filename=str(p))
    return out


def dump(n):
    return ast.dump(n, annotate_fields=False)


def is_attr_chain(node, names):
    """node is  a.b.c  with names == ['a','b','c']"""
    for name in reversed(names[1:]):
        if not (isinstance(node, ast.Attribute) and node.attr == name):
            return False
        node = node.value
    return isinstance(node, ast.Name) and node.id == names[0]


def body_wo_doc(fn):
    b = list(fn.body)
    if b and isinstance(b[0], ast.Expr) and isinstance(b[0].value, ast.Constant) and isinstance(b[0].value.value, str):
        b = b[1:]
    return b


def enclosing_functions(tree):
    """yield (qualified name, node) for every function, plus ('<module>', tree-level statements)"""
    def walk(node, prefix):
        for n in ast.iter_child_nodes(node):
            if isinstance(n, (ast.FunctionDef, ast.ClassDef)):
                q = prefix + [n.name]
                if isinstance(n, ast.FunctionDef):
                    yield ".".join(q), n
                yield from walk(n, q)
            else:
                yield from walk(n, prefix)
    yield from walk(tree, [])


def owner_map(tree):
    """node id -> qualified name of the innermost enclosing def (or '<module>')"""
    owner = {}

    def walk(node, q):
        for n in ast.iter_child_nodes(node):
            q2 = q
            if isinstance(n, (ast.FunctionDef, ast.ClassDef, ast.Lambda)):
                q2 = q + [getattr(n, "name", "<lambda>")]
            owner[id(n)] = ".".join(q2) or "<module>"
            walk(n, q2)
    walk(tree, [])
    return owner


def store_targets(tree):
    """every (target node, statement) that is assigned / aug-assigned / deleted"""
    for n in ast.walk(tree):
        if isinstance(n, ast.Assign):
            for t in n.targets:
                for x in (t.elts if isinstance(t, (ast.Tuple, ast.List)) else [t]):
                    yield x, n
        elif isinstance(n, (ast.AugAssign, ast.AnnAssign)):
            yield n.target, n
        elif isinstance(n, ast.Delete):
            for t in n.targets:
                yield t, n


# ---------------------------------------------------------------------------------------- parse.py
def is_flag(node):          # css_parser.log.raiseExceptions
    return is_attr_chain(node, ["css_parser", "log", "raiseExceptions"])


def setting_call(stmt):
    """stmt is  self.__parseSetting(<const>[, name])  (Expr) or  v = self.__parseSetting(True) (Assign).
    returns (flag: bool, bound name or None, second arg name or None) or None"""
    target = None
    if isinstance(stmt, ast.Assign) and len(stmt.targets) == 1 and isinstance(stmt.targets[0], ast.Name):
        target, call = stmt.targets[0].id, stmt.value
    elif isinstance(stmt, ast.Expr):
        call = stmt.value
    else:
        return None
    if not (isinstance(call, ast.Call) and isinstance(call.func, ast.Attribute) and call.func.attr == "__parseSetting"
            and isinstance(call.func.value, ast.Name) and call.func.value.id == "self" and not call.keywords):
        return None
    if not call.args or not isinstance(call.args[0], ast.Constant) or not isinstance(call.args[0].value, bool):
        raise Refused("parse.py:%d: __parseSetting called with a non-literal first argument" % stmt.lineno)
    second = None
    if len(call.args) == 2 and isinstance(call.args[1], ast.Name):
        second = call.args[1].id
    elif len(call.args) != 1:
        raise Refused("parse.py:%d: unexpected arguments of __parseSetting" % stmt.lineno)
    return call.args[0].value, target, second


def mentions_setting(nodes):
    for s in nodes:
        for n in ast.walk(s):
            if isinstance(n, ast.Attribute) and n.attr in ("__parseSetting", "raiseExceptions"):
                return True
    return False


def has_return(nodes):
    return any(isinstance(n, ast.Return) for s in nodes for n in ast.walk(s))


def names_stored(nodes):
    out = set()
    for s in nodes:
        for n in ast.walk(s):
            if isinstance(n, ast.Name) and isinstance(n.ctx, (ast.Store, ast.Del)):
                out.add(n.id)
    return out


def parse_method_bracket(fn):
    """-> dict(sets, normal, exc, handed) for parseString / parseStyle"""
    b = body_wo_doc(fn)
    where = "parse.py:%d (%s)" % (fn.lineno, fn.name)
    if not b:
        raise Refused(where + ": empty method")
    first = setting_call(b[0])
    if first is None or first[0] is not True:
        raise Refused(where + ": the first statement is not self.__parseSetting(True)")
    bound = first[1]
    rest = b[1:]
    if not rest or not isinstance(rest[-1], ast.Return):
        raise Refused(where + ": the method does not end in a return statement")
    ret, rest = rest[-1], rest[:-1]
    if mentions_setting([ret]):
        raise Refused(where + ": the return expression touches the flag")
    res = dict(sets=True, normal=False, exc=False, handed=None)
    if len(rest) == 1 and isinstance(rest[0], ast.Try):
        t = rest[0]
        if t.handlers or t.orelse:
            raise Refused(where + ": try statement with except/else clauses around the parse")
        if len(t.finalbody) != 1:
            raise Refused(where + ": finally clause is not a single statement")
        ex = setting_call(t.finalbody[0])
        if ex is None or ex[0] is not False:
            raise Refused(where + ": finally clause is not self.__parseSetting(False...)")
        if mentions_setting(t.body):
            raise Refused(where + ": the parse body touches the flag itself")
        if bound and bound in names_stored(t.body):
            raise Refused(where + ": the remembered value is reassigned inside the body")
        res.update(normal=True, exc=True, handed=(ex[2] == bound and bound is not None))
        return res
    # straight-line shapes: [stmts..., exit] or [stmts...]
    exits = [i for i, s in enumerate(rest) if setting_call(s) is not None]
    body = rest
    if exits:
        if exits != [len(rest) - 1]:
            raise Refused(where + ": __parseSetting called in the middle of the body")
        ex = setting_call(rest[-1])
        if ex[0] is not False:
            raise Refused(where + ": second __parseSetting call is not (False...)")
        body = rest[:-1]
        res.update(normal=True, handed=(ex[2] == bound and bound is not None))
    if mentions_setting(body):
        raise Refused(where + ": the parse body touches the flag itself")
    if has_return(body) and res["normal"]:
        raise Refused(where + ": early return before the flag is written back")
    if any(isinstance(n, ast.Try) and n.finalbody for s in body for n in ast.walk(s)):
        raise Refused(where + ": unrecognised try/finally inside the parse body")
    if bound and bound in names_stored(body):
        raise Refused(where + ": the remembered value is reassigned inside the body")
    return res


def parse_sites():
    tree = parse_file("parse.py")
    cls = find_func(tree, ["CSSParser"])
    ps = find_func(tree, ["CSSParser", "__parseSetting"])
    params = [a.arg for a in ps.args.args]
    if params[:2] != ["self", "parse"] or len(params) > 3:
        raise Refused("parse.py:%d: unexpected signature of __parseSetting" % ps.lineno)
    third = params[2] if len(params) == 3 else None
    b = body_wo_doc(ps)
    if not (len(b) == 1 and isinstance(b[0], ast.If) and isinstance(b[0].test, ast.Name) and b[0].test.id == "parse"
            and b[0].orelse):
        raise Refused("parse.py:%d: __parseSetting is not `if parse: ... else: ...`" % ps.lineno)
    on, off = b[0].body, b[0].orelse
    # entry branch: [x = flag]? ; flag = self.__parseRaising ; [return x]?
    sets, remembered_at_entry = False, None
    slot_written_at_entry = False
    stage = 0
    for s in on:
        if (isinstance(s, ast.Assign) and len(s.targets) == 1 and isinstance(s.targets[0], ast.Name)
                and is_flag(s.value) and stage == 0):
            remembered_at_entry, stage = s.targets[0].id, 1
        elif (isinstance(s, ast.Assign) and len(s.targets) == 1 and is_attr_chain(s.targets[0], ["self", "__globalRaising"])
                and is_flag(s.value) and stage == 0):
            # the value is kept on the parser object: one slot per object, not per running parse
            slot_written_at_entry, stage = True, 1
        elif (isinstance(s, ast.Assign) and len(s.targets) == 1 and is_flag(s.targets[0])
                and is_attr_chain(s.value, ["self", "__parseRaising"]) and stage <= 1):
            sets, stage = True, 2
        elif isinstance(s, ast.Return) and stage == 2 and isinstance(s.value, ast.Name):
            if s.value.id != remembered_at_entry:
                raise Refused("parse.py:%d: __parseSetting returns something else than the remembered flag" % s.lineno)
            stage = 3
        else:
            raise Refused("parse.py:%d: unrecognised statement in __parseSetting(True)" % s.lineno)
    returns_entry_value = stage == 3
    # exit branch: flag = self.__globalRaising | flag = <third parameter>
    if not (len(off) == 1 and isinstance(off[0], ast.Assign) and len(off[0].targets) == 1 and is_flag(off[0].targets[0])):
        raise Refused("parse.py:%d: unrecognised __parseSetting(False) branch" % off[0].lineno)
    src_node = off[0].value
    if is_attr_chain(src_node, ["self", "__globalRaising"]):
        restore_from = "attr"
    elif isinstance(src_node, ast.Name) and third and src_node.id == third and third != remembered_at_entry or \
            (isinstance(src_node, ast.Name) and third and src_node.id == third):
        restore_from = "param"
    else:
        raise Refused("parse.py:%d: the flag is written back from an unrecognised expression" % off[0].lineno)
    # where is self.__globalRaising assigned?  (only relevant when restore_from == 'attr')
    attr_sites = []
    for fname, fn in enclosing_functions(cls):
        for t, st in store_targets(fn):
            if is_attr_chain(t, ["self", "__globalRaising"]):
                attr_sites.append((fname, st))
    in_frame = restore_from == "param"
    if restore_from == "attr":
        # sites that assign the slot: __init__ (from the flag: the pinned tree; or a constant placeholder)
        # and/or the entry branch of __parseSetting (from the flag)
        from_flag = [(w, st) for w, st in attr_sites if is_flag(st.value)]
        consts = [(w, st) for w, st in attr_sites if isinstance(st.value, ast.Constant)]
        if len(from_flag) + len(consts) != len(attr_sites) or any(w.split(".")[-1] != "__init__" for w, _ in consts):
            raise Refused("parse.py: self.__globalRaising is assigned from an unrecognised expression")
        wheres = sorted(w.split(".")[-1] for w, _ in from_flag)
        if wheres == ["__init__"] and not slot_written_at_entry:
            attr_at_entry = False
        elif wheres == ["__parseSetting"] and slot_written_at_entry:
            attr_at_entry = True            # read at entry, but kept on self: not re-entrancy-safe
        else:
            raise Refused("parse.py: self.__globalRaising assigned from the flag in %s" % (wheres,))
    elif slot_written_at_entry or attr_sites:
        raise Refused("parse.py: self.__globalRaising is written but the flag is written back from a parameter")
    methods = {}
    for name in ("parseString", "parseStyle"):
        methods[name] = parse_method_bracket(find_func(tree, ["CSSParser", name]))
    for name in ("parseFile", "parseUrl"):
        fn = find_func(tree, ["CSSParser", name])
        if mentions_setting([fn]):
            raise Refused("parse.py:%d: %s touches the flag itself" % (fn.lineno, name))
        if not any(isinstance(n, ast.Call) and is_attr_chain(n.func, ["self", "parseString"]) for n in ast.walk(fn)):
            raise Refused("parse.py:%d: %s does not delegate to self.parseString" % (fn.lineno, name))
    for fname, fn in enclosing_functions(cls):
        short = fname.split(".")[-1]
        if short not in ("__parseSetting", "parseString", "parseStyle") and any(
                isinstance(n, ast.Attribute) and n.attr == "__parseSetting" for n in ast.walk(fn)):
            raise Refused("parse.py: %s calls __parseSetting" % fname)
    normal = all(m["normal"] for m in methods.values())
    exc = all(m["exc"] for m in methods.values())
    if restore_from == "param":
        # the value read on entry must be what the methods hand back
        at_entry = returns_entry_value and all(m["handed"] for m in methods.values())
        if not at_entry and (normal or exc):
            raise Refused("parse.py: __parseSetting(False, x) is handed something else than what (True) returned")
    else:
        at_entry = attr_at_entry
    # module-level wrappers in __init__.py:  def parseX(*a, **k): return CSSParser().parseX(*a, **k)
    init = parse_file("__init__.py")
    for name in ("parseString", "parseFile", "parseUrl", "parseStyle"):
        fn = find_func(init, [name])
        b = body_wo_doc(fn)
        ok = (len(b) == 1 and isinstance(b[0], ast.Return) and isinstance(b[0].value, ast.Call)
              and isinstance(b[0].value.func, ast.Attribute) and b[0].value.func.attr == name
              and isinstance(b[0].value.func.value, ast.Call) and isinstance(b[0].value.func.value.func, ast.Name)
              and b[0].value.func.value.func.id == "CSSParser" and not b[0].value.func.value.args
              and not b[0].value.func.value.keywords)
        if not ok:
            raise Refused("__init__.py:%d: %s is not `return CSSParser().%s(*a, **k)`" % (fn.lineno, name, name))
    return dict(parse_sets_flag=sets, parse_restores_normal=normal, parse_restores_exc=exc, parse_saves_at_entry=at_entry,
                parse_saved_in_frame=in_frame)


def flag_frame(mods):
    """nothing but CSSParser.__parseSetting and _ErrorHandler.__init__ assigns .raiseExceptions"""
    for rel, tree in mods.items():
        own = owner_map(tree)
        for t, st in store_targets(tree):
            if isinstance(t, ast.Attribute) and t.attr == "raiseExceptions":
                where = own.get(id(st), "?")
                if (rel, where) not in (("parse.py", "CSSParser.__parseSetting"), ("errorhandler.py", "_ErrorHandler.__init__")):
                    raise Refused("%s:%d: %s assigns .raiseExceptions" % (rel, st.lineno, where))


# ---------------------------------------------------------------------------------------- prodparser.py
def prodparser_sites(mods):
    tree = mods["prodparser.py"]
    own = owner_map(tree)
    # module-level cells
    cells = {}
    for st in tree.body:
        if isinstance(st, ast.Assign) and len(st.targets) == 1 and isinstance(st.targets[0], ast.Name):
            if st.targets[0].id in ("tokenizer", "savedTokens"):
                cells[st.targets[0].id] = st
    if set(cells) != {"tokenizer", "savedTokens"}:
        raise Refused("prodparser.py: module-level `tokenizer` / `savedTokens` not found")
    if not (isinstance(cells["savedTokens"].value, ast.List) and not cells["savedTokens"].value.elts):
        raise Refused("prodparser.py:%d: savedTokens is not initialised to []" % cells["savedTokens"].lineno)
    tv = cells["tokenizer"].value
    if not (isinstance(tv, ast.Call) and is_attr_chain(tv.func, ["css_parser", "tokenize2", "Tokenizer"]) and not tv.args
            and not tv.keywords):
        raise Refused("prodparser.py:%d: tokenizer is not css_parser.tokenize2.Tokenizer()" % cells["tokenizer"].lineno)
    init = find_func(tree, ["ProdParser", "__init__"])
    args = init.args
    if [a.arg for a in args.args] != ["self", "clear"] or len(args.defaults) != 1 or \
            not (isinstance(args.defaults[0], ast.Constant) and args.defaults[0].value is True):
        raise Refused("prodparser.py:%d: ProdParser.__init__ is not (self, clear=True)" % init.lineno)
    clears_pushed = clears_saved = False
    for st in body_wo_doc(init):
        if isinstance(st, ast.If):
            if not (isinstance(st.test, ast.Name) and st.test.id == "clear" and not st.orelse):
                raise Refused("prodparser.py:%d: unrecognised conditional in ProdParser.__init__" % st.lineno)
            for s in st.body:
                if (isinstance(s, ast.Expr) and isinstance(s.value, ast.Call) and is_attr_chain(s.value.func, ["tokenizer", "clear"])
                        and not s.value.args):
                    clears_pushed = True
                elif (isinstance(s, ast.Delete) and len(s.targets) == 1 and isinstance(s.targets[0], ast.Subscript)
                      and isinstance(s.targets[0].value, ast.Name) and s.targets[0].value.id == "savedTokens"
                      and isinstance(s.targets[0].slice, ast.Slice) and s.targets[0].slice.lower is None
                      and s.targets[0].slice.upper is None and s.targets[0].slice.step is None):
                    clears_saved = True
                elif (isinstance(s, ast.Expr) and isinstance(s.value, ast.Call) and is_attr_chain(s.value.func, ["savedTokens", "clear"])
                      and not s.value.args):
                    clears_saved = True
                else:
                    raise Refused("prodparser.py:%d: unrecognised statement under `if clear:`" % s.lineno)
        else:
            for n in ast.walk(st):
                if isinstance(n, ast.Name) and n.id in ("tokenizer", "savedTokens"):
                    raise Refused("prodparser.py:%d: ProdParser.__init__ touches the stash outside `if clear:`" % st.lineno)
    # every other use of the two names in prodparser.py
    allowed = {
        ("ProdParser._texttotokens", "tokenizer", "tokenize"),
        ("ProdParser.parse", "savedTokens", "pop"),
        ("ProdParser.parse", "savedTokens", "append"),
        ("ProdParser.parse", "tokenizer", "push"),
    }
    parents = {}
    for n in ast.walk(tree):
        for c in ast.iter_child_nodes(n):
            parents[id(c)] = n
    for n in ast.walk(tree):
        if isinstance(n, ast.Name) and n.id in ("tokenizer", "savedTokens"):
            where = own.get(id(n), "?")
            if where == "<module>" or where == "ProdParser.__init__":
                continue
            par = parents.get(id(n))
            gp = parents.get(id(par)) if par is not None else None
            if not (isinstance(par, ast.Attribute) and isinstance(gp, ast.Call) and gp.func is par
                    and (where, n.id, par.attr) in allowed):
                raise Refused("prodparser.py:%d: unexpected use of %s in %s" % (n.lineno, n.id, where))
    # savedTokens.pop() must be the first thing the parse loop does; nothing to check beyond its presence
    # call sites of ProdParser(...) anywhere in the package: no arguments (clear=True)
    for rel, t in mods.items():
        for n in ast.walk(t):
            if isinstance(n, ast.Call) and ((isinstance(n.func, ast.Name) and n.func.id == "ProdParser") or
                                            (isinstance(n.func, ast.Attribute) and n.func.attr == "ProdParser")):
                if n.args or n.keywords:
                    raise Refused("%s:%d: ProdParser(...) called with arguments (clear may be False)" % (rel, n.lineno))
            if rel != "prodparser.py" and isinstance(n, ast.Attribute) and n.attr == "savedTokens":
                raise Refused("%s:%d: savedTokens used outside prodparser.py" % (rel, n.lineno))
            if rel != "prodparser.py" and isinstance(n, ast.Attribute) and n.attr == "tokenizer" and \
                    isinstance(n.value, (ast.Name, ast.Attribute)) and getattr(n.value, "attr", getattr(n.value, "id", "")) == "prodparser":
                raise Refused("%s:%d: prodparser.tokenizer used outside prodparser.py" % (rel, n.lineno))
            if rel != "prodparser.py" and isinstance(n, ast.ImportFrom) and (n.module or "").endswith("prodparser"):
                for a in n.names:
                    if a.name in ("tokenizer", "savedTokens", "*") and rel != "__init__.py":
                        raise Refused("%s:%d: imports %s from prodparser" % (rel, n.lineno, a.name))
    # tokenize2.Tokenizer: clear() empties _pushed; only push/clear/__init__ assign it
    tk = mods["tokenize2.py"]
    clear = find_func(tk, ["Tokenizer", "clear"])
    b = body_wo_doc(clear)
    if not (len(b) == 1 and isinstance(b[0], ast.Assign) and is_attr_chain(b[0].targets[0], ["self", "_pushed"])
            and isinstance(b[0].value, ast.List) and not b[0].value.elts):
        raise Refused("tokenize2.py:%d: Tokenizer.clear is not `self._pushed = []`" % clear.lineno)
    townm = owner_map(tk)
    for t, st in store_targets(tk):
        if isinstance(t, ast.Attribute) and t.attr == "_pushed":
            if townm.get(id(st)) not in ("Tokenizer.__init__", "Tokenizer.push", "Tokenizer.clear"):
                raise Refused("tokenize2.py:%d: _pushed assigned in %s" % (st.lineno, townm.get(id(st))))
    return dict(pp_clears_pushed=clears_pushed, pp_clears_saved=clears_saved)


# ---------------------------------------------------------------------------------------- script.py
def is_set_serializer(stmt, argname=None):
    if not (isinstance(stmt, ast.Expr) and isinstance(stmt.value, ast.Call)
            and is_attr_chain(stmt.value.func, ["css_parser", "setSerializer"]) and len(stmt.value.args) == 1
            and not stmt.value.keywords):
        return False
    a = stmt.value.args[0]
    if argname is None:
        return isinstance(a, ast.Call)          # a new serializer object
    return isinstance(a, ast.Name) and a.id == argname


def combine_sites(mods):
    tree = mods["script.py"]
    fn = find_func(tree, ["csscombine"])
    b = body_wo_doc(fn)
    idx = [i for i, s in enumerate(b) if isinstance(s, ast.Assign) and len(s.targets) == 1
           and isinstance(s.targets[0], ast.Name) and is_attr_chain(s.value, ["css_parser", "ser"])]
    if len(idx) != 1:
        raise Refused("script.py:%d: csscombine does not remember css_parser.ser exactly once at its top level" % fn.lineno)
    i = idx[0]
    old = b[i].targets[0].id
    for s in b[:i]:
        for n in ast.walk(s):
            if isinstance(n, ast.Attribute) and n.attr == "setSerializer":
                raise Refused("script.py:%d: serializer swapped before it is remembered" % s.lineno)
    if i + 1 >= len(b) or not is_set_serializer(b[i + 1]):
        raise Refused("script.py:%d: the statement after `%s = css_parser.ser` is not the swap" % (b[i].lineno, old))
    rest = b[i + 2:]
    if not rest or not isinstance(rest[-1], ast.Return):
        raise Refused("script.py:%d: csscombine does not end in return" % fn.lineno)
    rest = rest[:-1]

    def touches(nodes):
        return any(isinstance(n, ast.Attribute) and n.attr == "setSerializer" for s in nodes for n in ast.walk(s))
    if len(rest) == 1 and isinstance(rest[0], ast.Try):
        t = rest[0]
        if t.handlers or t.orelse or len(t.finalbody) != 1 or not is_set_serializer(t.finalbody[0], old):
            raise Refused("script.py:%d: unrecognised try statement after the swap" % t.lineno)
        if touches(t.body) or old in names_stored(t.body):
            raise Refused("script.py:%d: the serialising body touches the serializer slot" % t.lineno)
        return dict(comb_restores_normal=True, comb_restores_exc=True)
    normal = False
    body = rest
    if rest and is_set_serializer(rest[-1], old):
        normal, body = True, rest[:-1]
    if touches(body) or old in names_stored(body) or has_return(body):
        raise Refused("script.py:%d: unrecognised statements between swap and restore" % fn.lineno)
    if any(isinstance(n, ast.Try) and n.finalbody for s in body for n in ast.walk(s)):
        raise Refused("script.py:%d: unrecognised try/finally after the swap" % fn.lineno)
    return dict(comb_restores_normal=normal, comb_restores_exc=False)


def ser_frame(mods):
    """writers of the global `ser`: css_parser.setSerializer (global statement), the deprecated
    CSSStyleSheet.setSerializer, csscombine -- nothing else"""
    for rel, tree in mods.items():
        own = owner_map(tree)
        for t, st in store_targets(tree):
            if is_attr_chain(t, ["css_parser", "ser"]):
                if (rel, own.get(id(st))) != ("css/cssstylesheet.py", "CSSStyleSheet.setSerializer"):
                    raise Refused("%s:%d: css_parser.ser assigned in %s" % (rel, st.lineno, own.get(id(st))))
        for n in ast.walk(tree):
            if isinstance(n, ast.Call) and isinstance(n.func, ast.Attribute) and n.func.attr == "setSerializer":
                if (rel, own.get(id(n))) != ("script.py", "csscombine"):
                    raise Refused("%s:%d: setSerializer called in %s" % (rel, n.lineno, own.get(id(n))))
            if isinstance(n, ast.Global) and "ser" in n.names and (rel, own.get(id(n))) != ("__init__.py", "setSerializer"):
                raise Refused("%s:%d: `global ser` in %s" % (rel, n.lineno, own.get(id(n))))


# ---------------------------------------------------------------------------------------- serialize.py
def serializer_sites(mods):
    tree = mods["serialize.py"]
    own = owner_map(tree)

    def is_level_aug(s, op):
        return (isinstance(s, ast.AugAssign) and is_attr_chain(s.target, ["self", "_level"]) and isinstance(s.op, op)
                and isinstance(s.value, ast.Constant) and s.value.value == 1)
    restored = True
    seen_inc = 0
    finals = set()
    for n in ast.walk(tree):
        for field in ("body", "orelse", "finalbody"):
            block = getattr(n, field, None)
            if not isinstance(block, list):
                continue
            for i, s in enumerate(block):
                if is_level_aug(s, ast.Add):
                    seen_inc += 1
                    j = i + 1       # statements that cannot raise (name = constant) may precede the try
                    while j < len(block) and isinstance(block[j], ast.Assign) and isinstance(block[j].value, ast.Constant) \
                            and all(isinstance(t, ast.Name) for t in block[j].targets):
                        j += 1
                    nxt = block[j] if j < len(block) else None
                    if isinstance(nxt, ast.Try) and len(nxt.finalbody) == 1 and is_level_aug(nxt.finalbody[0], ast.Sub) \
                            and not nxt.handlers and not nxt.orelse:
                        finals.add(id(nxt.finalbody[0]))
                    elif any(is_level_aug(x, ast.Sub) for x in block[i + 1:]):
                        restored = False
                        for x in block[i + 1:]:
                            if is_level_aug(x, ast.Sub):
                                finals.add(id(x))
                    else:
                        raise Refused("serialize.py:%d: `self._level += 1` is never undone in its block" % s.lineno)
    for t, st in store_targets(tree):
        if isinstance(t, ast.Attribute) and t.attr == "_level":
            if own.get(id(st)) == "CSSSerializer.__init__":
                continue
            if not (is_level_aug(st, ast.Add) or (is_level_aug(st, ast.Sub) and id(st) in finals)):
                raise Refused("serialize.py:%d: unrecognised write of _level" % st.lineno)
    if seen_inc == 0:
        raise Refused("serialize.py: no `self._level += 1` found")
    # memo: every write of _selectors / _selectorlevel outside __init__ sits under `if self.prefs.indentSpecificities [and
    # self._selectors is not None]:` -- or belongs to the per-sheet bracket of do_CSSStyleSheet (below)
    def memo_tuple(node, what):
        """node is the tuple  self._selectors, self._selectorlevel  (what='attr'),  [], 0  ('empty') or two names ('names')"""
        if not (isinstance(node, ast.Tuple) and len(node.elts) == 2):
            return None
        a, b2 = node.elts
        if what == "attr":
            return is_attr_chain(a, ["self", "_selectors"]) and is_attr_chain(b2, ["self", "_selectorlevel"])
        if what == "empty":
            return isinstance(a, ast.List) and not a.elts and isinstance(b2, ast.Constant) and b2.value == 0
        if isinstance(a, ast.Name) and isinstance(b2, ast.Name):
            return (a.id, b2.id)
        return None
    sheetfn = find_func(tree, ["CSSSerializer", "do_CSSStyleSheet"])
    bracket_ids = set()
    scoped = False
    sb = body_wo_doc(sheetfn)
    for i, s in enumerate(sb):
        if isinstance(s, ast.Assign) and len(s.targets) == 1 and memo_tuple(s.value, "attr") and memo_tuple(s.targets[0], "names"):
            names = memo_tuple(s.targets[0], "names")
            if not (i + 2 < len(sb) and isinstance(sb[i + 1], ast.Assign) and len(sb[i + 1].targets) == 1
                    and memo_tuple(sb[i + 1].targets[0], "attr") and memo_tuple(sb[i + 1].value, "empty")
                    and isinstance(sb[i + 2], ast.Try) and not sb[i + 2].handlers and not sb[i + 2].orelse
                    and len(sb[i + 2].finalbody) == 1 and isinstance(sb[i + 2].finalbody[0], ast.Assign)
                    and memo_tuple(sb[i + 2].finalbody[0].targets[0], "attr")
                    and memo_tuple(sb[i + 2].finalbody[0].value, "names") == names):
                raise Refused("serialize.py:%d: unrecognised selector-memo bracket in do_CSSStyleSheet" % s.lineno)
            tr = sb[i + 2]
            if names[0] in names_stored(tr.body) or names[1] in names_stored(tr.body):
                raise Refused("serialize.py:%d: the remembered memo is reassigned inside the bracket" % tr.lineno)
            # every rule is serialized inside the bracket: no `.cssText` outside the try
            for other in sb[:i] + sb[i + 3:]:
                if any(isinstance(x, ast.Attribute) and x.attr == "cssText" for x in ast.walk(other)):
                    raise Refused("serialize.py:%d: a rule is serialized outside the selector-memo bracket" % other.lineno)
            bracket_ids.update({id(sb[i + 1]), id(tr.finalbody[0])})
            scoped = True
    initfn = find_func(tree, ["CSSSerializer", "__init__"])
    init_none = any(isinstance(x, ast.Assign) and is_attr_chain(x.targets[0], ["self", "_selectors"])
                    and isinstance(x.value, ast.Constant) and x.value.value is None for x in ast.walk(initfn))
    guarded_ids = set()
    guard_checks_sheet = True
    for n in ast.walk(tree):
        if not isinstance(n, ast.If):
            continue
        plain = is_attr_chain(n.test, ["self", "prefs", "indentSpecificities"])
        withsheet = (isinstance(n.test, ast.BoolOp) and isinstance(n.test.op, ast.And) and len(n.test.values) == 2
                     and is_attr_chain(n.test.values[0], ["self", "prefs", "indentSpecificities"])
                     and isinstance(n.test.values[1], ast.Compare) and is_attr_chain(n.test.values[1].left, ["self", "_selectors"])
                     and len(n.test.values[1].ops) == 1 and isinstance(n.test.values[1].ops[0], ast.IsNot)
                     and isinstance(n.test.values[1].comparators[0], ast.Constant) and n.test.values[1].comparators[0].value is None)
        if plain or withsheet:
            if plain:
                guard_checks_sheet = False
            for s in n.body:
                for x in ast.walk(s):
                    guarded_ids.add(id(x))
    if scoped and not (init_none and guard_checks_sheet):
        # the bracket alone is not enough: outside a sheet the memo must not be used at all
        scoped = False
    guarded = True
    for t, st in store_targets(tree):
        if isinstance(t, ast.Attribute) and t.attr in ("_selectors", "_selectorlevel"):
            if own.get(id(st)) == "CSSSerializer.__init__" or id(st) in bracket_ids:
                continue
            if id(st) not in guarded_ids:
                guarded = False
    for n in ast.walk(tree):
        if isinstance(n, ast.Call) and isinstance(n.func, ast.Attribute) and isinstance(n.func.value, ast.Attribute) \
                and n.func.value.attr == "_selectors":
            if n.func.attr != "append":
                raise Refused("serialize.py:%d: unrecognised method call on _selectors" % n.lineno)
            if id(n) not in guarded_ids:
                guarded = False
    for rel, t in mods.items():
        if rel == "serialize.py":
            continue
        for n in ast.walk(t):
            if isinstance(n, ast.Attribute) and n.attr in ("_selectors", "_selectorlevel"):
                raise Refused("%s:%d: serializer memo used outside serialize.py" % (rel, n.lineno))
            if isinstance(n, ast.Attribute) and n.attr == "_level" and isinstance(n.ctx, (ast.Store, ast.Del)):
                raise Refused("%s:%d: _level written outside serialize.py" % (rel, n.lineno))
    return dict(level_restored_exc=restored, memo_guarded=guarded, memo_scoped=scoped)


# ---------------------------------------------------------------------------------------- settings.py
def settings_frame(mods):
    tree = mods["settings.py"]
    fn = find_func(tree, ["set"])
    b = body_wo_doc(fn)
    if not (len(b) == 1 and isinstance(b[0], ast.If) and not b[0].orelse):
        raise Refused("settings.py:%d: set() is not a single conditional" % fn.lineno)
    for rel, t in mods.items():
        own = owner_map(t)
        for n in ast.walk(t):
            if isinstance(n, ast.Call) and isinstance(n.func, ast.Attribute) and n.func.attr in (
                    "insert", "append", "extend", "remove", "pop", "clear", "sort", "reverse", "__setitem__", "update"):
                v = n.func.value
                name = v.attr if isinstance(v, ast.Attribute) else getattr(v, "id", None)
                if name in ("PRODUCTIONS", "_TOKENIZER_CACHE", "MACROS") and (rel, own.get(id(n))) != ("settings.py", "set"):
                    raise Refused("%s:%d: %s mutated in %s" % (rel, n.lineno, name, own.get(id(n))))
        for tg, st in store_targets(t):
            base = tg.value if isinstance(tg, ast.Subscript) else tg
            name = base.attr if isinstance(base, ast.Attribute) else getattr(base, "id", None)
            if name in ("PRODUCTIONS", "MACROS") and own.get(id(st)) != "<module>":
                raise Refused("%s:%d: %s assigned in %s" % (rel, st.lineno, name, own.get(id(st))))
            if name == "_TOKENIZER_CACHE" and (rel, own.get(id(st))) not in (("tokenize2.py", "<module>"), ("tokenize2.py", "Tokenizer.__init__")):
                raise Refused("%s:%d: _TOKENIZER_CACHE assigned in %s" % (rel, st.lineno, own.get(id(st))))


def cache_sites(mods):
    """tokenize2.Tokenizer.__init__: what the key of _TOKENIZER_CACHE is made of; settings.set: does it clear the cache"""
    tk = mods["tokenize2.py"]
    init = find_func(tk, ["Tokenizer", "__init__"])
    keyasg = [n for n in ast.walk(init) if isinstance(n, ast.Assign) and len(n.targets) == 1
              and isinstance(n.targets[0], ast.Name) and n.targets[0].id == "hash_key"]
    if len(keyasg) != 1:
        raise Refused("tokenize2.py:%d: hash_key is not assigned exactly once in Tokenizer.__init__" % init.lineno)
    kv = keyasg[0].value
    uses = [n for n in ast.walk(init) if isinstance(n, ast.Name) and n.id == "hash_key" and isinstance(n.ctx, ast.Load)]
    lookups = [n for n in ast.walk(init) if isinstance(n, ast.Subscript) and isinstance(n.value, ast.Name)
               and n.value.id == "_TOKENIZER_CACHE"]
    if len(uses) != 3 or len(lookups) != 2 or not all(isinstance(n.slice, ast.Name) and n.slice.id == "hash_key" for n in lookups):
        raise Refused("tokenize2.py:%d: unrecognised use of the tokenizer cache" % init.lineno)

    def is_items_sorted(node):   # sorted(macros.items())
        return (isinstance(node, ast.Call) and isinstance(node.func, ast.Name) and node.func.id == "sorted" and len(node.args) == 1
                and isinstance(node.args[0], ast.Call) and is_attr_chain(node.args[0].func, ["macros", "items"]))

    def is_names_sorted(node):   # sorted(macros): the names only
        return (isinstance(node, ast.Call) and isinstance(node.func, ast.Name) and node.func.id == "sorted" and len(node.args) == 1
                and isinstance(node.args[0], ast.Name) and node.args[0].id == "macros")
    mk = [n for n in ast.walk(init) if isinstance(n, ast.Assign) and len(n.targets) == 1 and isinstance(n.targets[0], ast.Name)
          and n.targets[0].id == "macros_hash_key"]
    names_in_key = {n.id for n in ast.walk(kv) if isinstance(n, ast.Name)}
    if "macros_hash_key" in names_in_key and len(mk) == 2 and any(is_items_sorted(m.value) for m in mk) and \
            any(isinstance(m.value, ast.Name) and m.value.id == "macros" for m in mk) and "productions" in names_in_key \
            and not any(is_names_sorted(n) for n in ast.walk(kv)):
        full = True
    elif any(is_names_sorted(n) for n in ast.walk(kv)) and "productions" in names_in_key:
        full = False            # only the macro names reach the key
    elif any(is_items_sorted(n) for n in ast.walk(kv)) and "productions" in names_in_key:
        full = True
    else:
        raise Refused("tokenize2.py:%d: unrecognised tokenizer cache key" % keyasg[0].lineno)
    st = find_func(mods["settings.py"], ["set"])
    cond = body_wo_doc(st)[0]
    clears = inserts = False
    for n in ast.walk(cond):
        if isinstance(n, ast.Call) and isinstance(n.func, ast.Attribute) and n.func.attr == "clear" and \
                isinstance(n.func.value, ast.Attribute) and n.func.value.attr == "_TOKENIZER_CACHE":
            clears = True
        if isinstance(n, ast.Call) and isinstance(n.func, ast.Attribute) and n.func.attr == "insert" and \
                isinstance(n.func.value, ast.Attribute) and n.func.value.attr == "PRODUCTIONS":
            inserts = True
    if not inserts:
        raise Refused("settings.py:%d: set() does not insert into PRODUCTIONS" % st.lineno)
    return dict(cache_key_full=full, dx_clears_cache=clears)


def more_frames(mods):
    """caller settings nothing in the library may change: css_parser.profile, level/handlers of css_parser.log;
    import-time constants: util.Base's class-level tokenizer and productions"""
    writers = {"__init__", "__update_knownNames", "_setDefaultProfiles", "_resetProperties", "addProfiles", "addProfile",
               "removeProfile"}
    for rel, tree in mods.items():
        own = owner_map(tree)
        for n in ast.walk(tree):
            if isinstance(n, ast.Call) and isinstance(n.func, ast.Attribute):
                a = n.func.attr
                where = own.get(id(n), "?")
                if a in ("addProfile", "addProfiles", "removeProfile", "_resetProperties", "__update_knownNames") and \
                        not (rel == "profiles.py" and where.split(".")[-1] in writers):
                    raise Refused("%s:%d: %s called in %s" % (rel, n.lineno, a, where))
                if a in ("setLevel", "addHandler", "removeHandler", "setLog") and is_attr_chain(n.func.value, ["css_parser", "log"]) \
                        and (rel, where) != ("parse.py", "CSSParser.__init__"):
                    raise Refused("%s:%d: css_parser.log.%s called in %s" % (rel, n.lineno, a, where))
        for t, st in store_targets(tree):
            base = t.value if isinstance(t, ast.Subscript) else t
            if isinstance(base, ast.Attribute) and base.attr in ("defaultProfiles", "_defaultProfiles", "_profilesProperties",
                                                                 "_rawProfiles", "_profileNames", "_usedMacros", "_knownNames"):
                where = own.get(id(st), "?")
                if not (rel == "profiles.py" and where.split(".")[-1] in writers):
                    raise Refused("%s:%d: %s assigned in %s" % (rel, st.lineno, base.attr, where))
            if isinstance(base, ast.Attribute) and base.attr in ("__tokenizer2", "_Base__tokenizer2"):
                raise Refused("%s:%d: util.Base's class-level tokenizer reassigned" % (rel, st.lineno))
            if isinstance(base, ast.Name) and base.id == "__tokenizer2" and (rel, own.get(id(st))) != ("util.py", "Base"):
                raise Refused("%s:%d: __tokenizer2 assigned in %s" % (rel, st.lineno, own.get(id(st))))
            if isinstance(base, ast.Attribute) and base.attr == "_prods" and isinstance(base.value, ast.Name) and base.value.id == "Base":
                raise Refused("%s:%d: Base._prods reassigned" % (rel, st.lineno))
    # the log arguments of CSSParser.__init__ are applied only when given
    init = find_func(mods["parse.py"], ["CSSParser", "__init__"])
    for n in ast.walk(init):
        if isinstance(n, ast.Call) and isinstance(n.func, ast.Attribute) and n.func.attr in ("setLevel", "setLog"):
            pass
    for st in body_wo_doc(init):
        calls = [n for n in ast.walk(st) if isinstance(n, ast.Call) and isinstance(n.func, ast.Attribute)
                 and n.func.attr in ("setLevel", "setLog", "addHandler", "removeHandler")]
        if calls and not (isinstance(st, ast.If) and isinstance(st.test, ast.Compare) and isinstance(st.test.left, ast.Name)
                          and st.test.left.id in ("log", "loglevel") and isinstance(st.test.ops[0], ast.IsNot)):
            raise Refused("parse.py:%d: CSSParser.__init__ changes the log configuration unconditionally" % st.lineno)


def main():
    mods = all_modules()
    flags = {}
    flags.update(parse_sites())
    flag_frame(mods)
    flags.update(prodparser_sites(mods))
    flags.update(combine_sites(mods))
    ser_frame(mods)
    flags.update(serializer_sites(mods))
    settings_frame(mods)
    flags.update(cache_sites(mods))
    more_frames(mods)
    order = ["parse_sets_flag", "parse_restores_normal", "parse_restores_exc", "parse_saves_at_entry", "parse_saved_in_frame",
             "pp_clears_pushed", "pp_clears_saved", "comb_restores_normal", "comb_restores_exc",
             "level_restored_exc", "memo_guarded", "memo_scoped", "cache_key_full", "dx_clears_cache"]
    body = ["(* brackets of the public entry points that write process-global cells, as found in the source:",
            "     CSSParser.parseString / parseStyle (parseFile, parseUrl and the module-level wrappers delegate),",
            "     ProdParser.__init__ (every call site uses clear=True), script.csscombine,",
            "     CSSSerializer.do_CSSStyleRule (_level, selector memo).",
            "   Frame conditions checked by the translator (a violation aborts generation): nothing else assigns",
            "   .raiseExceptions, css_parser.ser, savedTokens, tokenizer._pushed, _level, the selector memo,",
            "   PRODUCTIONS / the tokenizer cache (filled only by Tokenizer.__init__), css_parser.profile, the level/handlers",
            "   of css_parser.log (CSSParser.__init__ only on explicit arguments), util.Base's class-level tokenizer. *)",
            "Definition current : sites :=",
            "  {| " + ";\n     ".join("%s := %s" % (k, "true" if flags[k] else "false") for k in order) + " |}."]
    emit("GlobalSites", "\n".join(body), requires="From CssV Require Import Base Globals.")


if __name__ == "__main__":
    try:
        main()
    except Refused as e:
        sys.stderr.write("translate/globals.py: REFUSED: %s\n" % e)
        sys.exit(2)
