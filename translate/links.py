"""translate/links.py -- regenerates coq/theories/Gen/LinkSites.v (property C18) from the current source:
the link-attribute writes of the rule-list sites of cssrule.py / cssstylesheet.py, as written:

  CSSRuleRules._setCssRules      loop over the replaced list (guard + writes), loop over the new list (writes)
  CSSRuleRules._finishInsertRule writes on the inserted rule
  CSSRuleRules.deleteRule        writes on self._cssRules[index]
  CSSStyleSheet._setCssRules     the same two loops
  CSSStyleSheet.insertRule       the post settings (top-level writes on `rule`)
  CSSStyleSheet.deleteRule       writes on the removed rule
  CSSStyleSheet._setCssText      how the rule list is cleared (through the cssRules setter or raw) and how the
                                 rollback branches restore it (raw `self._cssRules = oldCssRules` or setter)

Fail-closed: a write to a link attribute at any other place of these functions, a value other than None / self,
a loop body or guard of another shape is refused (exit 1), never guessed."""
import ast
import sys

from translate.common import Refused, emit, find_func, src

ATTRS = {'_parentRule': 'LPr', '_parentStyleSheet': 'LPss', '_parent': 'LPar', '_ownerRule': 'LOwn'}


def value_of(node):
    if isinstance(node, ast.Constant) and node.value is None:
        return 'LNone'
    if isinstance(node, ast.Name) and node.id == 'self':
        return 'LSelf'
    raise Refused("link attribute assigned something other than None / self at line %d" % node.lineno)


def link_write(stmt, is_target):
    """(fld, val) when stmt is `<target>.<link attr> = None|self`, None when stmt does not touch a link attribute"""
    if isinstance(stmt, ast.Assign) and len(stmt.targets) == 1 and isinstance(stmt.targets[0], ast.Attribute) \
            and stmt.targets[0].attr in ATTRS:
        if not is_target(stmt.targets[0].value):
            raise Refused("link attribute of an unexpected object written at line %d" % stmt.lineno)
        return ATTRS[stmt.targets[0].attr], value_of(stmt.value)
    return None


def all_link_stores(node):
    return [n for n in ast.walk(node) if isinstance(n, ast.Attribute) and isinstance(n.ctx, ast.Store) and n.attr in ATTRS]


def is_name(name):
    return lambda n: isinstance(n, ast.Name) and n.id == name


def writes_of_block(stmts, is_target, where):
    out = []
    for s in stmts:
        w = link_write(s, is_target)
        if w is None:
            raise Refused("%s: statement at line %d is not a link write" % (where, s.lineno))
        out.append(w)
    return out


def old_list_expr(n):
    """getattr(self, '_cssRules', ()) | self._cssRules | self.cssRules"""
    if isinstance(n, ast.Call) and isinstance(n.func, ast.Name) and n.func.id == 'getattr' and len(n.args) == 3 \
            and is_name('self')(n.args[0]) and isinstance(n.args[1], ast.Constant) and n.args[1].value == '_cssRules':
        return True
    return isinstance(n, ast.Attribute) and is_name('self')(n.value) and n.attr in ('_cssRules', 'cssRules')


def set_css_rules(fn, where):
    param = fn.args.args[1].arg
    old_guard, old, new = None, [], []
    accounted = 0
    raw_assign = False
    for s in fn.body:
        if isinstance(s, ast.For):
            if not isinstance(s.target, ast.Name) or s.orelse:
                raise Refused("%s: loop of unexpected shape at line %d" % (where, s.lineno))
            var = is_name(s.target.id)
            if is_name(param)(s.iter):
                ws = writes_of_block(s.body, var, where + " new-list loop")
                new += ws
                accounted += len(ws)
            elif old_list_expr(s.iter):
                body = s.body
                if len(body) == 1 and isinstance(body[0], ast.If):
                    t = body[0].test
                    if body[0].orelse or not (isinstance(t, ast.Compare) and len(t.ops) == 1 and isinstance(t.ops[0], ast.Is)
                                              and isinstance(t.left, ast.Attribute) and var(t.left.value)
                                              and t.left.attr in ATTRS and is_name('self')(t.comparators[0])):
                        raise Refused("%s: guard of unexpected shape at line %d" % (where, body[0].lineno))
                    if old_guard is not None or old:
                        raise Refused("%s: more than one loop over the replaced list" % where)
                    old_guard = ATTRS[t.left.attr]
                    body = body[0].body
                ws = writes_of_block(body, var, where + " old-list loop")
                old += ws
                accounted += len(ws)
            else:
                raise Refused("%s: loop over something unexpected at line %d" % (where, s.lineno))
        elif isinstance(s, ast.Assign) and len(s.targets) == 1 and isinstance(s.targets[0], ast.Attribute) \
                and is_name('self')(s.targets[0].value) and s.targets[0].attr == '_cssRules' and is_name(param)(s.value):
            raw_assign = True
    if not raw_assign:
        raise Refused("%s: self._cssRules = %s not found" % (where, param))
    if len(all_link_stores(fn)) != accounted:
        raise Refused("%s: a link attribute is written outside the two loops" % where)
    return old_guard, old, new


def coq_list(ws):
    return "[" + "; ".join("(%s, %s)" % w for w in ws) + "]"


def main():
    rule_t = ast.parse(src("css/cssrule.py"))
    sheet_t = ast.parse(src("css/cssstylesheet.py"))
    out = ["Inductive lfld := LPr | LPss | LPar | LOwn.     (* _parentRule _parentStyleSheet _parent _ownerRule *)",
           "Inductive lval := LNone | LSelf."]

    def define(name, typ, val, comment):
        out.append("(* %s *)\nDefinition %s : %s := %s." % (comment, name, typ, val))

    W = "list (lfld * lval)"
    for cls, tree, pre, rel in (("CSSRuleRules", rule_t, "cont", "cssrule.py"), ("CSSStyleSheet", sheet_t, "sheet", "cssstylesheet.py")):
        fn = find_func(tree, [cls, "_setCssRules"])
        g, old, new = set_css_rules(fn, "%s._setCssRules" % cls)
        define(pre + "_setrules_old_guard", "option lfld", "Some " + g if g else "None",
               "%s %s._setCssRules l.%d: guard of the loop over the replaced list" % (rel, cls, fn.lineno))
        define(pre + "_setrules_old", W, coq_list(old), "writes on every rule of the replaced list")
        define(pre + "_setrules_new", W, coq_list(new), "writes on every rule of the new list")

    # CSSRuleRules._finishInsertRule: top-level writes on `rule`
    fn = find_func(rule_t, ["CSSRuleRules", "_finishInsertRule"])
    ws = [w for w in (link_write(s, is_name(fn.args.args[1].arg)) for s in fn.body) if w]
    if len(all_link_stores(fn)) != len(ws):
        raise Refused("_finishInsertRule: nested link write")
    define("cont_insert_writes", W, coq_list(ws), "cssrule.py CSSRuleRules._finishInsertRule l.%d" % fn.lineno)

    # CSSRuleRules.deleteRule: writes on self._cssRules[index]
    fn = find_func(rule_t, ["CSSRuleRules", "deleteRule"])

    def is_elem(n):
        return isinstance(n, ast.Subscript) and isinstance(n.value, ast.Attribute) and n.value.attr == '_cssRules' \
            and is_name('self')(n.value.value)
    ws = []
    for n in ast.walk(fn):
        if isinstance(n, ast.Assign):
            w = link_write(n, is_elem)
            if w:
                ws.append((n.lineno, w))
    if len(all_link_stores(fn)) != len(ws):
        raise Refused("CSSRuleRules.deleteRule: unexpected link write")
    define("cont_delete_writes", W, coq_list([w for _, w in sorted(ws)]), "cssrule.py CSSRuleRules.deleteRule l.%d" % fn.lineno)

    # CSSStyleSheet.deleteRule: writes on `rule`
    fn = find_func(sheet_t, ["CSSStyleSheet", "deleteRule"])
    ws = []
    for n in ast.walk(fn):
        if isinstance(n, ast.Assign):
            w = link_write(n, is_name('rule'))
            if w:
                ws.append((n.lineno, w))
    if len(all_link_stores(fn)) != len(ws):
        raise Refused("CSSStyleSheet.deleteRule: unexpected link write")
    define("sheet_delete_writes", W, coq_list([w for _, w in sorted(ws)]), "cssstylesheet.py CSSStyleSheet.deleteRule l.%d" % fn.lineno)

    # CSSStyleSheet.insertRule: post settings = top-level writes on `rule`; nested writes (on the rule parsed
    # into the temporary sheet) are accepted only for attributes the post settings overwrite; the @namespace branch
    # may restore the rule list when _cleanNamespaces refuses:
    #     except ...: del self._cssRules[:]; for r in <saved list>: <link writes on r>; self._cssRules.insert(len(..), r); raise
    fn = find_func(sheet_t, ["CSSStyleSheet", "insertRule"])
    post = [w for w in (link_write(s, is_name('rule')) for s in fn.body) if w]
    postflds = {f for f, _ in post}
    saved = {n.targets[0].id for n in ast.walk(fn)
             if isinstance(n, ast.Assign) and len(n.targets) == 1 and isinstance(n.targets[0], ast.Name)
             and isinstance(n.value, ast.Call) and isinstance(n.value.func, ast.Name) and n.value.func.id == 'list'
             and len(n.value.args) == 1 and isinstance(n.value.args[0], ast.Attribute)
             and n.value.args[0].attr == '_cssRules' and is_name('self')(n.value.args[0].value)}
    restore, restore_nodes = None, set()
    for hd in [n for n in ast.walk(fn) if isinstance(n, ast.ExceptHandler)]:
        loops = [s for s in hd.body if isinstance(s, ast.For)]
        if not loops:
            continue
        if restore is not None or len(hd.body) != 3 or len(loops) != 1:
            raise Refused("insertRule: restore handler of unexpected shape at line %d" % hd.lineno)
        d, lp, rs = hd.body
        ok_del = isinstance(d, ast.Delete) and len(d.targets) == 1 and isinstance(d.targets[0], ast.Subscript) \
            and isinstance(d.targets[0].value, ast.Attribute) and d.targets[0].value.attr == '_cssRules' \
            and isinstance(d.targets[0].slice, ast.Slice) and d.targets[0].slice.lower is None and d.targets[0].slice.upper is None
        ok_loop = lp is loops[0] and isinstance(lp.target, ast.Name) and isinstance(lp.iter, ast.Name) and lp.iter.id in saved \
            and not lp.orelse
        if not (ok_del and ok_loop and isinstance(rs, ast.Raise) and rs.exc is None):
            raise Refused("insertRule: restore handler of unexpected shape at line %d" % hd.lineno)
        var = is_name(lp.target.id)
        ws, inserts = [], 0
        for s in lp.body:
            w = link_write(s, var)
            if w:
                ws.append(w)
            elif isinstance(s, ast.Expr) and isinstance(s.value, ast.Call) and isinstance(s.value.func, ast.Attribute) \
                    and s.value.func.attr == 'insert' and isinstance(s.value.func.value, ast.Attribute) \
                    and s.value.func.value.attr == '_cssRules' and len(s.value.args) == 2 and var(s.value.args[1]) \
                    and isinstance(s.value.args[0], ast.Call) and isinstance(s.value.args[0].func, ast.Name) \
                    and s.value.args[0].func.id == 'len':
                inserts += 1
            else:
                raise Refused("insertRule: restore loop statement of unexpected shape at line %d" % s.lineno)
        if inserts != 1 or not isinstance(lp.body[-1], ast.Expr):
            raise Refused("insertRule: restore loop must end with the re-insertion")
        restore = ws
        restore_nodes = {id(s) for s in lp.body}
    nested = len(all_link_stores(fn)) - len(post) - len(restore or [])
    for n in ast.walk(fn):
        if isinstance(n, ast.Assign) and n not in fn.body and id(n) not in restore_nodes:
            w = link_write(n, is_name('rule'))
            if w:
                nested -= 1
                if w[0] not in postflds:
                    raise Refused("insertRule: nested write of %s at line %d is not overwritten by the post settings" % (w[0], n.lineno))
    if nested != 0:
        raise Refused("insertRule: unexpected link write")
    define("sheet_insert_post", W, coq_list(post), "cssstylesheet.py CSSStyleSheet.insertRule post settings l.%d" % fn.lineno)
    define("sheet_insert_ns_restore_present", "bool", "true" if restore is not None else "false",
           "insertRule, @namespace branch: when _cleanNamespaces refuses, the saved list is restored (del self._cssRules[:]; "
           "for r in saved: <writes>; raw re-insert; raise -- before the post settings)")
    define("sheet_insert_ns_restore", W, coq_list(restore or []), "writes on every restored rule")

    # CSSStyleSheet._setCssText: clearing and rollback of the rule list
    fn = find_func(sheet_t, ["CSSStyleSheet", "_setCssText"])
    saved, clear, restore = set(), [], []
    for n in ast.walk(fn):
        if isinstance(n, ast.FunctionDef) and n is not fn:
            continue
        if isinstance(n, ast.Assign) and len(n.targets) == 1:
            tg, v = n.targets[0], n.value
            if isinstance(tg, ast.Name) and isinstance(v, ast.Attribute) and is_name('self')(v.value) and v.attr in ('cssRules', '_cssRules'):
                saved.add(tg.id)
            if isinstance(tg, ast.Attribute) and is_name('self')(tg.value) and tg.attr in ('cssRules', '_cssRules'):
                via_setter = tg.attr == 'cssRules'
                if isinstance(v, ast.Call) and isinstance(v.func, ast.Attribute) and v.func.attr == 'CSSRuleList' and not v.args:
                    clear.append((n.lineno, via_setter))
                elif isinstance(v, ast.Name):
                    restore.append((n.lineno, via_setter, v.id))
                else:
                    raise Refused("_setCssText: rule list assigned something unexpected at line %d" % n.lineno)
    if len(clear) != 1 or not restore or any(r[2] not in saved for r in restore) or len({r[1] for r in restore}) != 1:
        raise Refused("_setCssText: clear / rollback of the rule list not of the expected shape")
    if any(r[0] < clear[0][0] for r in restore):
        raise Refused("_setCssText: rollback before the clear")
    define("sheet_cssText_clear_via_setter", "bool", "true" if clear[0][1] else "false",
           "cssstylesheet.py _setCssText l.%d: self.cssRules = CSSRuleList() (setter) or self._cssRules = ... (raw)" % clear[0][0])
    define("sheet_cssText_restore_via_setter", "bool", "true" if restore[0][1] else "false",
           "rollback branches l.%s: self._cssRules = old (raw, no setter, no post settings) or self.cssRules = old" %
           ",".join(str(r[0]) for r in sorted(restore)))
    emit("LinkSites", "\n".join(out), requires="From CssV Require Import Base.")


if __name__ == "__main__":
    try:
        main()
    except Refused as e:
        sys.stderr.write("translate/links.py refused: %s\n" % e)
        sys.exit(1)
