"""C10: the places of /repo where a name-like token value is compared, looked up or stored  ->  Gen/RespellSites.v

Walks the anchored modules (Python ast) and emits one `site` per place where the value of a token (or a value
stored from one) meets a NAME: a string constant that contains a letter, a table of names, or another token value.

  kind      Compare   ==  !=  in  not in   between a token-derived value and a name constant / name table / token value
            Prefix    tokenvalue.startswith('name') / .endswith('name')
            Lookup    TABLE[tokenvalue]
            Store     the value a name-selected production (Prod(match=..., toSeq=...)) puts into the item sequence
            Slice     tokenvalue[k:...] with a constant k >= 2 (assumes a fixed-width spelling of the first k characters)
  norm      what was applied to the token value on its way there:
            NNone | NLower (.lower()) | NUnescape (helper.unescape: literal escapes of name characters removed, case
            kept -- for case-sensitive names) | NNormalize (helper.normalize / Base._normalize / _tokenvalue(normalize=True)) |
            NNormalizeU (Base._normalizeatkeyword = normalize after unicodesub) | NObject (handed to a sub-value class)
  atkw      the name is an at-keyword ('@...'): the tokenizer keeps the literal text of the at-keywords it knows, so
            only NNormalizeU is enough there
  ttype     the token type the production selects on, when the site is inside a Prod(match=lambda t, v: ...)

Fail-closed: a comparison of a name with an expression that CONTAINS a token value but has a shape that is not in the
table below raises Refused (the check then reports the tie as broken).

Understood shapes of token-derived expressions (class in brackets; RAW < LOWER < NORM < NORMU, composition = meet):
  self._tokenvalue(x) [RAW]   self._tokenvalue(x, normalize=True) [NORM]   tok[1] for a token variable [RAW]
  `v` of a `match=lambda t, v` [RAW]   a, val, b, c = tok [val RAW]   x.value / x.mediaType / x.literalname /
  x.literalpriority [RAW]   a listed raw parameter [RAW]   normalize(e) / self._normalize(e) / css_parser.helper.normalize(e)
  / Base._normalize(e) [NORM]   self._normalizeatkeyword(e) [NORMU]   e.lower() [LOWER, or e's class if higher]
  e.strip()  e[a:b]  e[i]  const + e  e + const  e + e [class of e / meet]   a variable assigned from these [meet of all
  its assignments, flow-insensitive; lists filled by .append(e) or a list comprehension get the class of e]
"""
import ast
import json
import sys

from translate.common import Refused, emit, src, REPO

MODULES = [
    "css/property.py", "css/selector.py", "prodparser.py", "css/value.py", "css/cssrule.py", "css/csspagerule.py",
    "css/cssmediarule.py", "stylesheets/mediaquery.py", "stylesheets/medialist.py", "css/cssnamespacerule.py",
    "css/cssimportrule.py", "css/marginrule.py", "css/cssunknownrule.py", "css/cssvariablesdeclaration.py",
    "css/cssfontfacerule.py", "css/cssstylerule.py", "css/selectorlist.py", "util.py",
]

RAW, LOWER, UNESC, NORM, NORMU = 0, 1, 2, 3, 4          # token classes (ints, meet = min)
OTHER, NAMEC, PUNCT = "other", "namec", "punct"
NORM_NAME = {RAW: "NNone", LOWER: "NLower", UNESC: "NUnescape", NORM: "NNormalize", NORMU: "NNormalizeU"}

RAW_ATTRS = {"value", "mediaType", "literalname", "literalpriority", "_literalname", "_literalpriority"}
# parameters that carry a token value handed over by the caller: (function, parameter)
RAW_PARAMS = {("_setAtkeyword", "keyword"), ("_setMargin", "margin"), ("_setPriority", "priority"), ("append", "val")}
# entries of the closure dictionaries `new[...]` that hold a token value
RAW_KEYS = {"literalname", "literalpriority", "keyword", "_PREFIX", "prefix"}
# variables that are tables keyed by a name (namespace prefix -> URI)
NAME_TABLES = {"namespaces"}
# attributes of self whose assignment stores a name (Store sites)
STORE_ATTRS = {"_name", "_priority", "_atkeyword", "_keyword", "_prefix", "_literalname", "_literalpriority"}
# attributes that hold a normalized NAME the token value is compared with (atkw = True)
NAME_ATTRS = {"atkeyword": True}
TOKEN_NAMES = {"token", "t", "tok", "identtoken", "attoken", "nexttoken", "starttoken", "nametoken", "nexttok"}
NORMALIZERS = {"normalize", "_normalize"}


def has_letter(s):
    return any(c.isascii() and c.isalpha() for c in s)


def is_tok(c):
    return isinstance(c, int)


def meet(a, b):
    if is_tok(a) and is_tok(b):
        return min(a, b)
    if is_tok(a):
        return a
    if is_tok(b):
        return b
    return OTHER


class Scope:
    def __init__(self, mod, qual, node, parent=None, params=None):
        self.mod, self.qual, self.node, self.parent = mod, qual, node, parent
        self.env = dict(params or {})
        self.dicts = {}     # name -> list of constant keys
        self.ttype = None

    def lookup(self, name):
        sc = self
        while sc is not None:
            if name in sc.env:
                return sc.env[name]
            sc = sc.parent
        return OTHER

    def lookup_dict(self, name):
        sc = self
        while sc is not None:
            if name in sc.dicts:
                return sc.dicts[name]
            sc = sc.parent
        return None


def call_name(f):
    if isinstance(f, ast.Name):
        return f.id
    if isinstance(f, ast.Attribute):
        return f.attr
    return None


def contains_token(e, sc):
    """does the expression mention a token value anywhere (used for the fail-closed test)"""
    for n in ast.walk(e):
        if isinstance(n, ast.Call) and call_name(n.func) == "_tokenvalue":
            return True
        if isinstance(n, ast.Name) and is_tok(sc.lookup(n.id)):
            return True
        if isinstance(n, ast.Subscript) and is_token_index(n, sc):
            return True
        if isinstance(n, ast.Subscript) and isinstance(n.value, ast.Name) and n.value.id == "new" and \
                isinstance(n.slice, ast.Constant) and n.slice.value in RAW_KEYS:
            return True
    return False


def is_token_index(n, sc):
    if not (isinstance(n.slice, ast.Constant) and n.slice.value == 1 and type(n.slice.value) is int):
        return False
    b = n.value
    if isinstance(b, ast.Name):
        return sc.lookup(b.id) == "token" or (b.id in TOKEN_NAMES and not is_tok(sc.lookup(b.id)) and
                                              sc.lookup(b.id) != "type")
    if isinstance(b, ast.Subscript) and isinstance(b.value, ast.Name) and b.value.id == "tokens":
        return True
    return False


def cls(e, sc):
    """class of an expression: token class (int), NAMEC (with .names/.atkw via name_info), PUNCT, OTHER"""
    if isinstance(e, ast.Constant):
        if isinstance(e.value, str):
            return NAMEC if has_letter(e.value) else PUNCT
        return OTHER
    if isinstance(e, (ast.Tuple, ast.List, ast.Set)):
        cs = [cls(x, sc) for x in e.elts]
        if cs and all(c in (NAMEC, PUNCT) for c in cs):
            return NAMEC if NAMEC in cs else PUNCT
        if any(is_tok(c) for c in cs):
            r = NORMU
            for c in cs:
                if is_tok(c):
                    r = min(r, c)
            return r
        return OTHER
    if isinstance(e, ast.Name):
        c = sc.lookup(e.id)
        if c in ("token", "type"):
            return OTHER
        if sc.lookup_dict(e.id) is not None:
            return NAMEC if any(has_letter(k) for k in sc.lookup_dict(e.id)) else PUNCT
        if e.id in NAME_TABLES and not is_tok(c):
            return NAMEC
        return c
    if isinstance(e, ast.Call):
        fn = call_name(e.func)
        if fn == "_tokenvalue":
            norm = any(k.arg == "normalize" and isinstance(k.value, ast.Constant) and k.value.value is True
                       for k in e.keywords) or (len(e.args) >= 2 and isinstance(e.args[1], ast.Constant)
                                                and e.args[1].value is True)
            return NORM if norm else RAW
        if fn in NORMALIZERS and len(e.args) == 1:
            c = cls(e.args[0], sc)
            return max(c, NORM) if is_tok(c) else (OTHER if not contains_token(e.args[0], sc) else NORM)
        if fn == "_normalizeatkeyword" and len(e.args) == 1:
            return NORMU
        if fn == "unescape" and len(e.args) == 1:
            c = cls(e.args[0], sc)
            return max(c, UNESC) if is_tok(c) else OTHER
        if fn == "lower" and isinstance(e.func, ast.Attribute) and not e.args:
            c = cls(e.func.value, sc)
            return max(c, LOWER) if is_tok(c) else OTHER
        if fn in ("strip", "lstrip", "rstrip") and isinstance(e.func, ast.Attribute):
            return cls(e.func.value, sc)
        if fn == "as_list" and len(e.args) == 1:
            return cls(e.args[0], sc)
        if fn == "keys" and isinstance(e.func, ast.Attribute):
            return NAMEC                          # the keys of a table of names
        return OTHER
    if isinstance(e, ast.Subscript):
        if is_token_index(e, sc):
            return RAW
        if isinstance(e.value, ast.Name) and e.value.id == "new" and isinstance(e.slice, ast.Constant):
            k = sc.lookup("new[%r]" % (e.slice.value,))          # the class stored under this key, if seen
            if is_tok(k):
                return k
            if e.slice.value in RAW_KEYS:
                return RAW
        c = cls(e.value, sc)
        return c if is_tok(c) else OTHER       # e[a:b], e[i] of a token value
    if isinstance(e, ast.BinOp) and isinstance(e.op, ast.Add):
        a, b = cls(e.left, sc), cls(e.right, sc)
        return meet(a, b) if (is_tok(a) or is_tok(b)) else OTHER
    if isinstance(e, ast.Attribute):
        if e.attr in RAW_ATTRS:
            return RAW
        if e.attr in NAME_ATTRS:
            return NAMEC
        if e.attr.isupper() or e.attr in ("margins", "knownNames"):
            return NAMEC                          # COLORS, MEDIA_TYPES, MarginRule.margins ...
        return OTHER
    if isinstance(e, ast.ListComp):
        inner = Scope(sc.mod, sc.qual, e, sc)
        for g in e.generators:
            bind(g.target, cls_iter(g.iter, sc), inner)
        return cls(e.elt, inner)
    if isinstance(e, ast.IfExp):
        return meet(cls(e.body, sc), cls(e.orelse, sc))
    return OTHER


def cls_iter(it, sc):
    """class of the elements when iterating"""
    if isinstance(it, ast.Name) and it.id in ("tokenizer", "tokens", "g"):
        return "token"
    return OTHER


def name_info(e, sc):
    """(atkw, text) of a NAMEC operand"""
    txt = ast.unparse(e)
    at = False
    for n in ast.walk(e):
        if isinstance(n, ast.Constant) and isinstance(n.value, str) and n.value.startswith("@"):
            at = True
        if isinstance(n, ast.Attribute) and NAME_ATTRS.get(n.attr):
            at = True
    if isinstance(e, ast.Name) and sc.lookup_dict(e.id):
        at = any(k.startswith("@") for k in sc.lookup_dict(e.id))
    return at, txt


def bind(target, c, sc):
    if isinstance(target, ast.Name):
        old = sc.env.get(target.id)
        if old is None:
            sc.env[target.id] = c
        elif is_tok(old) or is_tok(c):
            sc.env[target.id] = meet(old, c) if (is_tok(old) and is_tok(c)) else (old if is_tok(old) else c)
    elif isinstance(target, (ast.Tuple, ast.List)):
        for x in target.elts:
            bind(x, OTHER, sc)


def first_pass(body, sc):
    """flow-insensitive environment of one function scope (nested defs excluded)"""
    for st in body:
        if isinstance(st, (ast.FunctionDef, ast.ClassDef)):
            continue
        for n in walk_shallow(st):
            if isinstance(n, ast.Assign):
                v = n.value
                for tg in n.targets:
                    if isinstance(tg, (ast.Tuple, ast.List)) and isinstance(v, (ast.Tuple, ast.List)) and \
                            len(tg.elts) == len(v.elts):
                        for a, b in zip(tg.elts, v.elts):
                            bind(a, cls(b, sc), sc)
                    elif isinstance(tg, (ast.Tuple, ast.List)) and len(tg.elts) == 4 and isinstance(v, ast.Name) \
                            and (sc.lookup(v.id) == "token" or v.id in TOKEN_NAMES):
                        for k, a in enumerate(tg.elts):          # typ, val, lin, col = t
                            bind(a, RAW if k == 1 else OTHER, sc)
                    elif isinstance(tg, ast.Subscript) and isinstance(tg.value, ast.Name) and tg.value.id == "new" \
                            and isinstance(tg.slice, ast.Constant):
                        c = cls(v, sc)                               # new['key'] = token-derived value
                        if is_tok(c):
                            key = "new[%r]" % (tg.slice.value,)
                            top = sc
                            while top.parent is not None:
                                top = top.parent
                            old = top.env.get(key)
                            top.env[key] = c if not is_tok(old) else min(old, c)
                    elif isinstance(tg, ast.Name):
                        if isinstance(v, ast.Dict) and v.keys and all(
                                isinstance(k, ast.Constant) and isinstance(k.value, str) for k in v.keys):
                            sc.dicts[tg.id] = [k.value for k in v.keys]
                        elif isinstance(v, (ast.List,)) and not v.elts:
                            sc.env.setdefault(tg.id, "collect")
                        else:
                            bind(tg, cls(v, sc), sc)
            elif isinstance(n, ast.For):
                bind(n.target, cls_iter(n.iter, sc), sc)
            elif isinstance(n, ast.Expr) and isinstance(n.value, ast.Call) and \
                    isinstance(n.value.func, ast.Attribute) and n.value.func.attr == "append" and \
                    isinstance(n.value.func.value, ast.Name) and len(n.value.args) == 1:
                nm = n.value.func.value.id
                if sc.env.get(nm) == "collect" or is_tok(sc.env.get(nm)):
                    c = cls(n.value.args[0], sc)
                    if is_tok(c):
                        sc.env[nm] = c if sc.env.get(nm) == "collect" else min(sc.env[nm], c)


def walk_shallow(node):
    """ast.walk that does not enter nested function definitions / lambdas"""
    todo = [node]
    while todo:
        n = todo.pop()
        yield n
        for c in ast.iter_child_nodes(n):
            if isinstance(c, (ast.FunctionDef, ast.Lambda, ast.ClassDef)):
                continue
            todo.append(c)


SITES = []


def add(sc, kind, expr, c, atkw, ttype=None):
    SITES.append({"file": sc.mod, "func": sc.qual, "expr": " ".join(ast.unparse(expr).split()) if not isinstance(expr, str) else expr,
                  "kind": kind, "norm": NORM_NAME.get(c, c), "atkw": bool(atkw), "ttype": ttype or sc.ttype or ""})


def operand(e, sc, whole):
    c = cls(e, sc)
    if isinstance(e, ast.Subscript) and cls(e.value, sc) == NAMEC:
        return OTHER                              # TABLE[key]: the lookup is a site of its own (SLookup)
    if c == OTHER and contains_token(e, sc) and not isinstance(e, (ast.Call,)):
        raise Refused("%s: %s line %d: token value in a shape that is not understood: %s   (in %s)" % (
            sc.mod, sc.qual, getattr(e, "lineno", 0), ast.unparse(e), ast.unparse(whole)))
    return c


def sinks(body_nodes, sc):
    for top in body_nodes:
        if isinstance(top, (ast.FunctionDef, ast.ClassDef)):
            continue
        for n in walk_shallow(top):
            if isinstance(n, ast.Assign) and len(n.targets) == 1 and isinstance(n.targets[0], ast.Attribute) and \
                    isinstance(n.targets[0].value, ast.Name) and n.targets[0].value.id == "self" and \
                    n.targets[0].attr in STORE_ATTRS:
                c = cls(n.value, sc)
                if is_tok(c):
                    add(sc, "SStore", n, c, n.targets[0].attr in ("_atkeyword",))
            if isinstance(n, ast.Compare):
                left = n.left
                for op, right in zip(n.ops, n.comparators):
                    if isinstance(op, (ast.Eq, ast.NotEq, ast.In, ast.NotIn)):
                        a, b = operand(left, sc, n), operand(right, sc, n)
                        if is_tok(a) and b == NAMEC:
                            at, _ = name_info(right, sc)
                            add(sc, "SCompare", n, a, at)
                        elif is_tok(b) and a == NAMEC:
                            at, _ = name_info(left, sc)
                            add(sc, "SCompare", n, b, at)
                        elif is_tok(a) and is_tok(b):
                            add(sc, "SCompare", n, min(a, b), False)
                    left = right
            elif isinstance(n, ast.Call) and isinstance(n.func, ast.Attribute) and \
                    n.func.attr in ("startswith", "endswith") and len(n.args) == 1:
                a, b = operand(n.func.value, sc, n), cls(n.args[0], sc)
                if is_tok(a) and b == NAMEC:
                    at, _ = name_info(n.args[0], sc)
                    add(sc, "SPrefix", n, a, at)
            elif isinstance(n, ast.Subscript) and not isinstance(n.slice, ast.Slice):
                base = cls(n.value, sc)
                if base == NAMEC and not isinstance(n.ctx, ast.Store):
                    k = operand(n.slice, sc, n)
                    if is_tok(k):
                        at, _ = name_info(n.value, sc)
                        add(sc, "SLookup", n, k, at)
            elif isinstance(n, ast.Subscript) and isinstance(n.slice, ast.Slice):
                lo = n.slice.lower
                if isinstance(lo, ast.Constant) and type(lo.value) is int and lo.value >= 2:
                    c = cls(n.value, sc)
                    if is_tok(c):
                        add(sc, "SSlice", n, c, False)


def ttype_of(lam, tparam):
    """the token type a match lambda selects on:  t == types.FUNCTION / t == 'IDENT' / t in (...)"""
    out = []
    for n in ast.walk(lam.body):
        if isinstance(n, ast.Compare) and isinstance(n.left, ast.Name) and n.left.id == tparam:
            for r in n.comparators:
                for x in ([r] if not isinstance(r, (ast.Tuple, ast.List)) else r.elts):
                    if isinstance(x, ast.Constant) and isinstance(x.value, str):
                        out.append(x.value)
                    elif isinstance(x, ast.Attribute):
                        out.append(x.attr)
    return "|".join(out)


NAME_TTYPES = {"IDENT", "FUNCTION", "DIMENSION", "HASH", "ATKEYWORD"}


def prod_call(call, sc):
    """Prod(name=..., match=lambda t, v: ..., toSeq=lambda t, tokens: (type, value))"""
    kw = {k.arg: k.value for k in call.keywords}
    match, toseq = kw.get("match"), kw.get("toSeq")
    pname = ast.unparse(kw["name"]) if "name" in kw else "?"
    ttype, selected = "", False
    if isinstance(match, ast.Lambda) and len(match.args.args) == 2:
        tp, vp = [a.arg for a in match.args.args]
        msc = Scope(sc.mod, sc.qual + " Prod(%s).match" % pname, match, sc, {tp: "type", vp: RAW})
        ttype = ttype_of(match, tp)
        msc.ttype = ttype
        before = len(SITES)
        sinks([match.body], msc)
        selected = len(SITES) > before
        lambdas_in(match.body, msc)
    elif match is not None and not (isinstance(match, ast.Constant) and match.value is None):
        if not isinstance(match, (ast.Name, ast.Attribute)):
            raise Refused("%s: %s: Prod match of unknown shape: %s" % (sc.mod, sc.qual, ast.unparse(match)))
    name_typed = bool(set(ttype.split("|")) & NAME_TTYPES)
    if not (selected or name_typed):
        if isinstance(toseq, ast.Lambda):
            lambdas_in(toseq.body, sc)
        return
    ssc = Scope(sc.mod, sc.qual + " Prod(%s).toSeq" % pname, call, sc)
    ssc.ttype = ttype
    if toseq is None or (isinstance(toseq, ast.Constant) and toseq.value is None):
        add(ssc, "SStore", "default toSeq: (token type, token value)", RAW, False, ttype)
    elif isinstance(toseq, ast.Constant) and toseq.value is False:
        return
    elif isinstance(toseq, ast.Lambda) and len(toseq.args.args) == 2:
        tk = toseq.args.args[0].arg
        tsc = Scope(sc.mod, ssc.qual, toseq, sc, {tk: "token"})
        tsc.ttype = ttype
        body = toseq.body
        if isinstance(body, ast.Tuple) and len(body.elts) == 2:
            c = cls(body.elts[1], tsc)
            if is_tok(c):
                add(tsc, "SStore", body, c, False, ttype)
            else:
                add(tsc, "SStore", body, "NObject", False, ttype)
        else:
            raise Refused("%s: %s: toSeq body is not a pair: %s" % (sc.mod, sc.qual, ast.unparse(body)))
        sinks([body], tsc)
    elif isinstance(toseq, (ast.Name, ast.Attribute)):
        add(ssc, "SStore", "toSeq=" + ast.unparse(toseq), "NObject", False, ttype)
    else:
        raise Refused("%s: %s: toSeq of unknown shape: %s" % (sc.mod, sc.qual, ast.unparse(toseq)))


def lambdas_in(node, sc):
    """free-standing lambdas (not Prod arguments) are scopes of their own"""
    for n in walk_shallow(node):
        for c in ast.iter_child_nodes(n):
            if isinstance(c, ast.Lambda):
                params = {a.arg: OTHER for a in c.args.args}
                lsc = Scope(sc.mod, sc.qual + " <lambda>", c, sc, params)
                sinks([c.body], lsc)
                lambdas_in(c.body, lsc)


def do_function(fn, sc_parent, mod, qual):
    params = {}
    for a in fn.args.args + fn.args.kwonlyargs:
        params[a.arg] = RAW if (fn.name, a.arg) in RAW_PARAMS else ("token" if a.arg in ("token",) else OTHER)
    sc = Scope(mod, qual, fn, sc_parent, params)
    first_pass(fn.body, sc)
    first_pass(fn.body, sc)            # second round: variables assigned from variables defined later
    for n in ast.walk(fn):             # what the nested handlers store into the closure dictionary new[...]
        if isinstance(n, ast.FunctionDef) and n is not fn:
            tmp = Scope(mod, qual, n, sc, {a.arg: ("token" if a.arg == "token" else OTHER) for a in n.args.args})
            first_pass(n.body, tmp)
    # Prod(...) calls first (their lambdas are scopes of their own), then everything else
    prod_lams = set()
    for n in ast.walk(fn):
        if isinstance(n, ast.Call) and call_name(n.func) == "Prod" and owner_is(fn, n):
            prod_call(n, sc)
            for k in n.keywords:
                if isinstance(k.value, ast.Lambda):
                    prod_lams.add(id(k.value))
    sinks(fn.body, sc)
    for n in walk_shallow_list(fn.body):
        for c in ast.iter_child_nodes(n):
            if isinstance(c, ast.Lambda) and id(c) not in prod_lams:
                params = {a.arg: OTHER for a in c.args.args}
                lsc = Scope(mod, qual + " <lambda>", c, sc, params)
                sinks([c.body], lsc)
    for n in walk_shallow_list(fn.body):
        for c in ast.iter_child_nodes(n):
            if isinstance(c, ast.FunctionDef):
                do_function(c, sc, mod, qual + "." + c.name)


def walk_shallow_list(body):
    for st in body:
        if isinstance(st, (ast.FunctionDef, ast.ClassDef)):
            yield ast.Module(body=[st], type_ignores=[])
            continue
        for n in walk_shallow(st):
            yield n


def owner_is(fn, call):
    """the Prod call belongs to fn itself, not to a nested def"""
    for n in ast.walk(fn):
        if isinstance(n, ast.FunctionDef) and n is not fn:
            for m in ast.walk(n):
                if m is call:
                    return False
    return True


def do_module(rel):
    tree = ast.parse(src(rel))
    for node in tree.body:
        if isinstance(node, ast.FunctionDef):
            do_function(node, None, rel, node.name)
        elif isinstance(node, ast.ClassDef):
            for m in node.body:
                if isinstance(m, ast.FunctionDef):
                    do_function(m, None, rel, node.name + "." + m.name)


def coq_string(x):
    if not all(32 <= ord(c) < 127 for c in x):
        x = x.encode("ascii", "backslashreplace").decode()
    return '"' + x.replace('"', '""') + '"'


def collect():
    del SITES[:]
    for rel in MODULES:
        do_module(rel)
    if len(SITES) < 40:
        raise Refused("only %d sites found: the walker no longer sees the code" % len(SITES))
    return SITES


def main():
    sites = collect()
    if "--json" in sys.argv:
        print(json.dumps(sites, indent=1))
        return
    rows = []
    for x in sites:
        rows.append("  mkSite %s %s %s %s %s %s %s" % (coq_string(x["file"]), coq_string(x["func"]), coq_string(x["expr"]),
                                                     x["kind"], x["norm"], "true" if x["atkw"] else "false",
                                                     coq_string(x["ttype"])))
    body = ("Inductive skind := SCompare | SPrefix | SLookup | SStore | SSlice.\n"
            "Inductive snorm := NNone | NLower | NUnescape | NNormalize | NNormalizeU | NObject.\n"
            "Record site := mkSite { s_file : string; s_func : string; s_expr : string; s_kind : skind; "
            "s_norm : snorm; s_atkw : bool; s_ttype : string }.\n\n"
            "Definition sites : list site :=\n [" + ";\n  ".join(r.strip() for r in rows) + "].\n")
    emit("RespellSites", body, requires="From Coq Require Import String List.\nImport ListNotations.\nOpen Scope string_scope.")


if __name__ == "__main__":
    try:
        main()
    except Refused as e:
        sys.stderr.write("translator refused: %s\n" % e)
        sys.exit(2)
