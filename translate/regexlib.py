"""Python `re` pattern -> Coq term of type CssV.Regex.re, via CPython's own parser (re._parser).
Fail-closed: any node kind outside the supported subset raises Refused."""
import re
import re._parser as P
from re._constants import MAXREPEAT


class Refused(Exception):
    pass


def coq_str(s):
    """Python str -> Coq term of type str (list N)"""
    if all(32 <= ord(c) < 127 and c != '"' for c in s):
        return '(s "%s")' % s
    return "[" + "; ".join("%d%%N" % ord(c) for c in s) + "]"


def cat(items):
    items = [i for i in items if i != "Eps"]
    if not items:
        return "Eps"
    out = items[-1]
    for i in reversed(items[:-1]):
        out = "(Cat %s %s)" % (i, out)
    return out


def alt(items):
    out = items[-1]
    for i in reversed(items[:-1]):
        out = "(Alt %s %s)" % (i, out)
    return out


def cls(av, flags):
    neg = False
    rs = []
    for op, a in av:
        op = str(op)
        if op == "NEGATE":
            neg = True
        elif op == "LITERAL":
            rs.append((a, a))
        elif op == "RANGE":
            rs.append((a[0], a[1]))
        elif op == "CATEGORY":
            rs += category(str(a), flags)
        else:
            raise Refused("class item " + op)
    return "(Cls %s [%s])" % ("true" if neg else "false",
                              "; ".join("(%d%%N, %d%%N)" % r for r in rs))


_cat_cache = {}


def category(name, flags):
    """ranges of a character category under the given flags, computed from the running interpreter"""
    key = (name, bool(flags & re.ASCII))
    if key in _cat_cache:
        return _cat_cache[key]
    pat = {"CATEGORY_DIGIT": r"\d", "CATEGORY_SPACE": r"\s", "CATEGORY_WORD": r"\w"}.get(name)
    if pat is None:
        raise Refused("category " + name)
    rx = re.compile(pat, flags & (re.ASCII | re.UNICODE))
    rs, start = [], None
    for cp in range(0x110000 + 1):
        ok = cp < 0x110000 and rx.match(chr(cp)) is not None
        if ok and start is None:
            start = cp
        elif not ok and start is not None:
            rs.append((start, cp - 1))
            start = None
    _cat_cache[key] = rs
    return rs


def conv(sp, flags):
    items = []
    for op, av in sp:
        op = str(op)
        if op == "LITERAL":
            items.append("(Chr %d%%N)" % av)
        elif op == "NOT_LITERAL":
            items.append("(NotChr %d%%N)" % av)
        elif op == "ANY":
            if flags & re.DOTALL:
                items.append("(Cls true [])")
            else:
                items.append("Any")
        elif op == "IN":
            items.append(cls(av, flags))
        elif op == "BRANCH":
            items.append(alt([conv(b, flags) for b in av[1]]))
        elif op == "SUBPATTERN":
            group, add, dele, p = av
            if add or dele:
                raise Refused("inline flags")
            items.append(conv(p, flags))
        elif op in ("MAX_REPEAT", "MIN_REPEAT"):
            lo, hi, p = av
            hi_s = "None" if hi == MAXREPEAT else "(Some %d%%nat)" % hi
            if lo > 50 or (hi != MAXREPEAT and hi > 50):
                raise Refused("repeat bound too large")
            items.append("(%s %s %d%%nat %s)" % ("Rep" if op == "MAX_REPEAT" else "LazyRep", conv(p, flags), lo, hi_s))
        elif op in ("ASSERT", "ASSERT_NOT"):
            d, p = av
            p = list(p)
            if len(p) != 1 or str(p[0][0]) != "LITERAL":
                raise Refused("look-around of more than one literal")
            c = p[0][1]
            if op == "ASSERT" and d == 1:
                items.append("(Ahead %d%%N)" % c)
            elif op == "ASSERT_NOT" and d == 1:
                items.append("(NotAhead %d%%N)" % c)
            elif op == "ASSERT_NOT" and d == -1:
                items.append("(NotBehind %d%%N)" % c)
            else:
                raise Refused("look-behind assertion")
        elif op == "AT":
            a = str(av)
            if a in ("AT_BEGINNING", "AT_BEGINNING_STRING") and not (flags & re.MULTILINE):
                items.append("Bos")
            elif a == "AT_END" and not (flags & re.MULTILINE):
                items.append("Eos")
            else:
                raise Refused("anchor " + a)
        else:
            raise Refused("node " + op)
    return cat(items)


def to_coq(pattern, flags=0):
    if flags & (re.IGNORECASE | re.VERBOSE | re.LOCALE):
        raise Refused("flags")
    p = P.parse(pattern, flags)
    if p.state.flags & (re.IGNORECASE | re.VERBOSE | re.LOCALE):
        raise Refused("inline flags")
    return conv(p, p.state.flags | flags)
