"""serialize.py  ->  Gen/Prefs.v   (property C05)

Regenerated on every run, fail-closed:
  * Preferences.useDefaults : every `self.<name> = <constant>` (bool / None / str / `n * ' '` /
    `0 * self.lineSeparator`)                      -> Record prefs (one field per preference), prefs_default
  * Preferences.useMinified : the assignments      -> use_minified : prefs -> prefs, prefs_minified
  * Out._remove_last_if_S / Out.append / Out.value / CSSSerializer._atkeyword / _indentblock and the
    per-rule serialisers the skeleton model transcribes: the *shape* of each function (its AST with every
    string constant replaced by a hole) must be the pinned one -- otherwise the hand-written model in
    coq/theories/OutModel.v no longer describes the code and generation is refused; the string constants
    that sit in the holes of Out.append / _remove_last_if_S call sites are emitted in source order under
    role names (lit_strip_chars = '+>~,:{;)]/=}', lit_calc_ops = '-+*/', lit_comb = '+>~',
    lit_nospace = '}[]()/=', the type names, the single-character tests).
A changed literal therefore changes Gen/Prefs.v (theorems and correspondence are re-checked against it);
a changed control structure is refused (the tie is reported broken and the search runs).
"""
import ast
import hashlib

from translate.common import Refused, emit, src, find_func

BOOL_STR = {True: "true", False: "false"}


def coq_str(v):
    return "[" + "; ".join("%d%%N" % ord(c) for c in v) + "]"


def const_value(node, env):
    """the accepted right-hand sides of useDefaults/useMinified"""
    if isinstance(node, ast.Constant) and (isinstance(node.value, (bool, str)) or node.value is None):
        return node.value
    if isinstance(node, ast.BinOp) and isinstance(node.op, ast.Mult) and isinstance(node.left, ast.Constant) \
            and isinstance(node.left.value, int) and not isinstance(node.left.value, bool):
        r = node.right
        if isinstance(r, ast.Constant) and isinstance(r.value, str):
            return node.left.value * r.value
        if isinstance(r, ast.Attribute) and isinstance(r.value, ast.Name) and r.value.id == "self" \
                and isinstance(env.get(r.attr), str):
            return node.left.value * env[r.attr]
    raise Refused("unsupported preference value at line %d" % node.lineno)


def assignments(fn):
    out = {}
    order = []
    body = fn.body
    if body and isinstance(body[0], ast.Expr) and isinstance(body[0].value, ast.Constant):
        body = body[1:]
    for st in body:
        if not (isinstance(st, ast.Assign) and len(st.targets) == 1 and isinstance(st.targets[0], ast.Attribute)
                and isinstance(st.targets[0].value, ast.Name) and st.targets[0].value.id == "self"):
            raise Refused("%s: statement at line %d is not `self.<pref> = <constant>`" % (fn.name, st.lineno))
        name = st.targets[0].attr
        if name in out:
            raise Refused("%s: %s assigned twice" % (fn.name, name))
        out[name] = const_value(st.value, out)
        order.append(name)
    return out, order


class Holes(ast.NodeTransformer):
    """replace every str constant by a hole, collecting them in source order"""

    def __init__(self):
        self.lits = []

    def visit_Constant(self, node):
        if isinstance(node.value, str):
            self.lits.append(node.value)
            return ast.copy_location(ast.Constant(value="<str>"), node)
        return node


def shape(fn, opaque_tail=False):
    fn = ast.parse(ast.unparse(fn)).body[0]      # fresh copy
    if opaque_tail:
        # do_CSSUnknownRule: the model takes the Out-formatted text of the rule as an opaque string; what it
        # transcribes is the guard (wellformed and keepUnknownAtRules), the formatUnknownAtRules switch with the
        # unformatted concatenation, and the else branch.  The formatting loop after it is not part of the shape.
        ifs = [n for n in fn.body if isinstance(n, ast.If)]
        if len(ifs) != 1 or not ifs[0].body or not isinstance(ifs[0].body[0], ast.If):
            raise Refused("%s: expected `if <guard>: if not <format>: ... ; <formatting>` else ..." % fn.name)
        ifs[0].body = ifs[0].body[:1]
    if fn.body and isinstance(fn.body[0], ast.Expr) and isinstance(fn.body[0].value, ast.Constant):
        fn.body = fn.body[1:]                        # docstring
    h = Holes()
    fn = h.visit(fn)
    text = ast.dump(fn, annotate_fields=False, include_attributes=False)
    return hashlib.sha256(text.encode()).hexdigest()[:16], h.lits


# shape hashes of the functions OutModel.v transcribes (pinned when the model was written / last reviewed)
PINNED = {
    ("Out", "_remove_last_if_S"): "1692834851ecd36b",
    ("Out", "append"): "ffe61d9a6661873b",
    ("Out", "value"): "f4a6421a7f4f920b",
    ("CSSSerializer", "_atkeyword"): "a12350e2f728543c",
    ("CSSSerializer", "_indentblock"): "f06322690c47b78b",
    ("CSSSerializer", "_propertyname"): "794658aec6650170",
    ("CSSSerializer", "_valid"): "fdc645628f28accd",
    ("CSSSerializer", "do_CSSStyleSheet"): "83faa9c9b2cd85f0",
    ("CSSSerializer", "do_CSSComment"): "e51caa764d107b70",
    ("CSSSerializer", "do_CSSMediaRule"): "0ef2be1ede8f31c9",
    ("CSSSerializer", "do_CSSUnknownRule"): "54f0e3b418b1f3b9",
    ("CSSSerializer", "do_CSSStyleRule"): "6a4bce88a300779a",
    ("CSSSerializer", "do_css_CSSStyleDeclaration"): "7943aa506d634aa6",
    ("CSSSerializer", "do_Property"): "722a5d90cf13576f",
}

# role names of the string constants of Out.append in source order (docstring removed)
APPEND_ROLES = [
    ("lit_ty_STRING0", "STRING"), ("lit_ty_URI0", "URI"),
    ("lit_ty_COMMENT", "COMMENT"),
    ("lit_ty_S", "S"), ("lit_ty_S1", "S"), ("lit_keepS_val", " "),
    ("lit_ty_STRING", "STRING"), ("lit_ty_URI", "URI"), ("lit_ty_HASH", "HASH"),
    ("lit_attr_cssText", "cssText"), ("lit_attr_mediaText", "mediaText"),
    ("lit_strip_chars", "+>~,:{;)]/=}"),
    ("lit_linesep_strip", " \t"),
    ("lit_closebrace", "}"),
    ("lit_endspace", " "),
    ("lit_calc_ops", "-+*/"), ("lit_calc_space", " "),
    ("lit_comb", "+>~"), ("lit_ty_CHAR", "CHAR"), ("lit_comb_forced", " "),
    ("lit_funcend", ")"), ("lit_funcend_space", " "),
    ("lit_comma", ","), ("lit_colon", ":"), ("lit_openbrace", "{"),
    ("lit_semicolon", ";"), ("lit_ty_styletext", "styletext"),
    ("lit_nospace", "}[]()/="), ("lit_ty_FUNCTION", "FUNCTION"),
    ("lit_ty_STRING2", "STRING"), ("lit_fallback_test", " "), ("lit_fallback_space", " "),
]
# the values in APPEND_ROLES are documentation only: what is emitted is what the source says NOW, except
# for the type names and attribute names, whose change would alter the model's structure -> refused
STRUCTURAL = {"lit_ty_STRING0", "lit_ty_URI0", "lit_ty_COMMENT", "lit_ty_S", "lit_ty_S1", "lit_ty_STRING",
              "lit_ty_URI", "lit_ty_HASH", "lit_attr_cssText", "lit_attr_mediaText", "lit_ty_styletext",
              "lit_ty_FUNCTION", "lit_ty_STRING2", "lit_ty_CHAR"}


def main(print_hashes=False):
    tree = ast.parse(src("serialize.py"))
    pd, order = assignments(find_func(tree, ["Preferences", "useDefaults"]))
    pm, _ = assignments(find_func(tree, ["Preferences", "useMinified"]))
    for k in pm:
        if k not in pd:
            raise Refused("useMinified sets %s, which useDefaults does not define" % k)
    fields = []
    for k in order:
        v = pd[k]
        mv = pm.get(k, v)
        kinds = {type(v), type(mv)}
        if kinds == {bool}:
            fields.append((k, "bool"))
        elif kinds == {str}:
            fields.append((k, "str"))
        elif kinds <= {str, type(None)}:
            fields.append((k, "option str"))
        else:
            raise Refused("preference %s has values of mixed kinds %r / %r" % (k, v, mv))

    def val(k, v, ty):
        if ty == "bool":
            return BOOL_STR[v]
        if ty == "str":
            return coq_str(v)
        return "None" if v is None else "Some %s" % coq_str(v)

    b = []
    b.append("(* Preferences.useDefaults: one field per preference, in source order *)")
    b.append("Record prefs : Set := mkPrefs {\n  " + ";\n  ".join("%s : %s" % (k, t) for k, t in fields) + "\n}.")
    b.append("Definition prefs_default : prefs := {|\n  " + ";\n  ".join(
        "%s := %s" % (k, val(k, pd[k], t)) for k, t in fields) + "\n|}.")
    b.append("(* Preferences.useMinified: overrides the listed fields, keeps the others *)")
    b.append("Definition use_minified (p : prefs) : prefs := {|\n  " + ";\n  ".join(
        "%s := %s" % (k, val(k, pm[k], t) if k in pm else "p.(%s)" % k) for k, t in fields) + "\n|}.")
    b.append("Definition prefs_minified : prefs := use_minified prefs_default.")
    b.append("Definition pref_names : list str := [%s]." % "; ".join(coq_str(k) for k, _ in fields))
    b.append("Definition bool_prefs (p : prefs) : list bool := [%s]." % "; ".join(
        "p.(%s)" % k for k, t in fields if t == "bool"))
    b.append("Definition str_prefs (p : prefs) : list str := [%s]." % "; ".join(
        "p.(%s)" % k for k, t in fields if t == "str"))

    # ------------------------------------------------------------ shapes + literals
    got = {}
    lits = {}
    for path in PINNED:
        h, ls = shape(find_func(tree, list(path)), opaque_tail=(path[1] == "do_CSSUnknownRule"))
        got[path] = h
        lits[path] = ls
    if print_hashes:
        for path, h in got.items():
            print('    ("%s", "%s"): "%s",' % (path[0], path[1], h))
        print(lits[("Out", "append")])
        return
    for path, h in got.items():
        if PINNED[path] != h:
            raise Refused("the control structure of %s.%s changed (shape %s, pinned %s): "
                          "coq/theories/OutModel.v must be reviewed against the source" %
                          (path[0], path[1], h, PINNED[path]))
    al = lits[("Out", "append")]
    if len(al) != len(APPEND_ROLES):
        raise Refused("Out.append has %d string constants, %d expected" % (len(al), len(APPEND_ROLES)))
    b.append("(* string constants of Out.append (serialize.py:214-308), in source order *)")
    for (role, doc), v in zip(APPEND_ROLES, al):
        if role in STRUCTURAL and v != doc:
            raise Refused("Out.append: the constant in role %s is %r, the model is written for %r" % (role, v, doc))
        b.append("Definition %s : str := %s.   (* %r *)" % (role, coq_str(v), v))
    il = lits[("CSSSerializer", "_indentblock")]
    if len(il) != 2 or il[1] != "%s%s":
        raise Refused("_indentblock: string constants %r, expected the strip set and '%%s%%s'" % (il,))
    b.append("(* _indentblock: a line separator made only of these characters is not split on *)")
    b.append("Definition lit_indent_blank : str := %s.   (* %r *)" % (coq_str(il[0]), il[0]))
    # ------------------------------------------------------------ which preferences each function reads (data)
    def reads(path):
        fn = find_func(tree, list(path))
        out = []
        for n in ast.walk(fn):
            if isinstance(n, ast.Attribute) and isinstance(n.value, ast.Attribute) and n.value.attr == "prefs":
                if n.attr not in pd:
                    raise Refused("%s.%s reads prefs.%s, which useDefaults does not define" % (path[0], path[1], n.attr))
                if n.attr not in out:
                    out.append(n.attr)
            if isinstance(n, ast.Name) and n.id == "prefspace" and "spacer" not in out:
                out.append("spacer")
        return sorted(out)
    groups = {
        # everything a call of Out.append / Out.value can consult (the helpers it calls included)
        "out": [("Out", "_remove_last_if_S"), ("Out", "append"), ("Out", "value"), ("CSSSerializer", "_indentblock"),
                ("CSSSerializer", "_hash")],
        # the sheet skeleton: the per-rule serialisers the model transcribes (+ Out, through do_CSSFontFaceRule)
        "sheet": [("CSSSerializer", "do_CSSStyleSheet"), ("CSSSerializer", "do_CSSComment"),
                  ("CSSSerializer", "do_CSSMediaRule"), ("CSSSerializer", "do_CSSUnknownRule"),
                  ("CSSSerializer", "do_CSSStyleRule"), ("CSSSerializer", "do_CSSFontFaceRule"),
                  ("CSSSerializer", "do_css_CSSStyleDeclaration"), ("CSSSerializer", "do_Property"),
                  ("CSSSerializer", "_propertyname"), ("CSSSerializer", "_valid"), ("CSSSerializer", "_atkeyword"),
                  ("CSSSerializer", "_linenumbers")],
    }
    b.append("(* preferences read by each function (every `<x>.prefs.<name>` in its body), regenerated *)")
    per = {}
    for g, paths in groups.items():
        for path in paths:
            if path not in per:
                per[path] = reads(path)
                b.append("Definition reads_%s : list str := [%s].   (* %s *)" % (
                    path[1].strip("_"), "; ".join(coq_str(x) for x in per[path]), ", ".join(per[path])))
    tys = dict(fields)
    for g, paths in groups.items():
        names = sorted({x for path in paths for x in per[path]} | (set() if g == "out" else
                       {x for path in groups["out"] for x in per[path]}))
        b.append("(* two preference records agree on everything the `%s` functions read *)" % g)
        b.append("Definition agree_%s (p q : prefs) : Prop :=\n  %s." % (
            g, " /\\\n  ".join("p.(%s) = q.(%s)" % (x, x) for x in names) or "True"))
    rl = lits[("Out", "_remove_last_if_S")]
    if rl:
        raise Refused("_remove_last_if_S has string constants %r" % rl)
    emit("Prefs", "\n\n".join(b), requires="From CssV Require Import Base.")


if __name__ == "__main__":
    import sys
    try:
        main(print_hashes="--hashes" in sys.argv)
    except Refused as e:
        print("translate/prefs.py REFUSED: %s" % e)
        sys.exit(1)
