"""maintainer tool: run checks on the unchanged tree and validate evidence.  usage: tools_audit.py [--thorough] [--seeds 0,1] C07 C11 ..."""
import json, subprocess, sys, time, os
args = sys.argv[1:]
thorough = "--thorough" in args
seeds = [0]
if "--seeds" in args:
    seeds = [int(x) for x in args[args.index("--seeds") + 1].split(",")]
    del args[args.index("--seeds"):args.index("--seeds") + 2]
props = [a for a in args if not a.startswith("--")]
rows = []
for p in props:
    for seed in seeds:
        for tier in (["quick", "thorough"] if thorough else ["quick"]):
            t0 = time.time()
            r = subprocess.run(["./check", p, "--tier", tier], cwd="/verif", capture_output=True, text=True,
                               env=dict(os.environ, VERIF_SEED=str(seed)))
            dt = time.time() - t0
            out = r.stdout
            viol = [l for l in out.splitlines() if l.startswith("VIOLATION")]
            kf = [l for l in out.splitlines() if l.startswith("KNOWN-FINDING")]
            ev = "missing"
            try:
                e = json.load(open("/verif/evidence/%s.json" % p))
                v = subprocess.run(["python3-vt", "-c", "import json,jsonschema,sys;jsonschema.validate(json.load(open('/verif/evidence/%s.json')), json.load(open('/root/.vp/EVIDENCE.schema.json')))" % p], capture_output=True, text=True)
                c = e["coverage"]
                ev = ("valid" if v.returncode == 0 else "INVALID " + v.stderr[-200:]) + " obl=%s/%s eval=%s nontriv=%s" % (
                    c.get("discharged"), c.get("obligations"), c.get("evaluations"), c.get("distinct_nontrivial"))
                if e.get("tier") != tier or e.get("seed") != seed:
                    ev += " STALE"
            except Exception as ex:
                ev = "missing/unreadable %r" % ex
            print("%s %-8s seed=%d rc=%d %.0fs viol=%d known=%d  %s" % (p, tier, seed, r.returncode, dt, len(viol), len(kf), ev))
            if r.returncode or viol:
                print("   " + "\n   ".join(out.splitlines()[:12]))
            sys.stdout.flush()
st = subprocess.run(["git", "-C", "/repo", "status", "--short"], capture_output=True, text=True).stdout
print("repo status:", st or "clean")
