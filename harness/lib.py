"""Shared machinery of the /verif checks (see DESIGN.md section 2 and CONVENTIONS.md).

A property module  harness/props/cXX.py  defines  run(ctx)  and uses the
building blocks below:

  ctx.regen(name, ...)        run translate/<name>.py (fail-closed translator)
  ctx.coq_build(target, ...)  full .vo build of the given targets (coq_makefile + make)
  ctx.ocaml_build(name)       coqc extract/<name>.v  + ocamlfind ocamlopt -> binary
  ctx.run_binary(bin, lines)  feed lines to the extracted model, get lines back
  ctx.coq_eval(...)           evaluate terms inside Coq with vm_compute
  ctx.pool_map(f, cases)      run the implementation on cases in worker processes
  ctx.broken(stage, name, detail)      a theorem / translator / correspondence no longer checks
  ctx.violation(what, witness, ...)    the property fails on the implementation for `witness`
  ctx.finish(coverage, ...)   write evidence, print KNOWN-FINDING / VIOLATION lines, exit
"""
from __future__ import annotations

import fcntl
import hashlib
import json
import multiprocessing as mp
import os
import random
import re
import subprocess
import sys
import time
from pathlib import Path

VERIF = Path(__file__).resolve().parent.parent
REPO = Path(os.environ.get("VERIF_REPO", "/repo"))
COQ = VERIF / "coq"
BUILD = VERIF / "build"
PY = "/venv/bin/python"
GUARD = "CSS_PARSER_VERIF"

FORBIDDEN = re.compile(
    r"\b(Admitted|admit|Axiom|Axioms|Parameter|Parameters|Conjecture|Conjectures|"
    r"Admit Obligations|Unset Guard Checking|Unset Positivity Checking|"
    r"Unset Universe Checking|bypass_check|native_compute|type-in-type|impredicative-set)\b"
)
STMT = re.compile(r"^\s*(?:Local\s+|Global\s+|Program\s+|#\[[^\]]*\]\s*)*"
                  r"(Theorem|Lemma|Example|Corollary|Fact|Remark|Proposition)\s+([A-Za-z0-9_']+)", re.M)


class TieBroken(Exception):
    """translator refused the source, or generated text could not be produced"""


def sh(cmd, timeout=None, cwd=None, env=None, input=None):
    p = subprocess.run(cmd, cwd=cwd, env=env, input=input, text=True, capture_output=True,
                       timeout=timeout, shell=isinstance(cmd, str))
    return p.returncode, p.stdout, p.stderr


def strip_comments(text):
    out, depth, i = [], 0, 0
    while i < len(text):
        if text.startswith("(*", i):
            depth += 1
            i += 2
        elif text.startswith("*)", i) and depth:
            depth -= 1
            i += 2
        else:
            if not depth:
                out.append(text[i])
            i += 1
    return "".join(out)


class Lock:
    def __init__(self, name):
        BUILD.mkdir(exist_ok=True)
        self.path = BUILD / (name + ".lock")

    def __enter__(self):
        self.f = open(self.path, "w")
        fcntl.flock(self.f, fcntl.LOCK_EX)

    def __exit__(self, *a):
        fcntl.flock(self.f, fcntl.LOCK_UN)
        self.f.close()


def write_if_changed(path: Path, text: str) -> bool:
    path.parent.mkdir(parents=True, exist_ok=True)
    if path.exists() and path.read_text() == text:
        return False
    tmp = path.with_suffix(path.suffix + ".tmp%d" % os.getpid())
    tmp.write_text(text)
    os.replace(tmp, path)
    return True


def coq_files():
    fs = sorted(str(p.relative_to(COQ)) for d in ("theories", "props")
                for p in (COQ / d).rglob("*.v") if not p.name.startswith("."))
    return fs


def ensure_makefile():
    proj = "-Q theories CssV\n-Q props CssP\n-arg -w -arg -notation-overridden,-deprecated\n" + \
        "\n".join(coq_files()) + "\n"
    changed = write_if_changed(COQ / "_CoqProject", proj)
    if changed or not (COQ / "Makefile").exists():
        rc, out, err = sh(["coq_makefile", "-f", "_CoqProject", "-o", "Makefile"], cwd=COQ)
        if rc:
            raise RuntimeError("coq_makefile failed: " + err)
        for dep in COQ.glob(".Makefile.d"):
            dep.unlink()


def module_of(rel):  # theories/Gen/X.v -> CssV.Gen.X
    parts = Path(rel).with_suffix("").parts
    return ".".join(({"theories": "CssV", "props": "CssP"}[parts[0]],) + parts[1:])


def cone(target_rel):
    """transitive closure of project-local Requires of a .v file (paths relative to coq/)"""
    byname = {}
    for f in coq_files():
        byname[module_of(f)] = f
        byname[module_of(f).split(".", 1)[1]] = f
    seen, todo = [], [target_rel]
    while todo:
        f = todo.pop()
        if f in seen:
            continue
        seen.append(f)
        text = strip_comments((COQ / f).read_text())
        for m in re.finditer(r"(?:From\s+(\S+)\s+)?Require\s+(?:Import\s+|Export\s+)?(.*?)\.(?=\s|$)", text, re.S):
            pre = m.group(1)
            for name in m.group(2).split():
                for cand in ((pre + "." + name) if pre else name, name):
                    if cand in byname:
                        todo.append(byname[cand])
                        break
    return sorted(seen)


class Build:
    def __init__(self):
        self.ok = True
        self.log = ""
        self.failed = None          # first failing .v file
        self.error = ""
        self.assumptions = {}       # theorem -> text printed by Print Assumptions
        self.obligations = 0
        self.discharged = 0
        self.files = []
        self.statements = []
        self.forbidden = []


class Ctx:
    def __init__(self, prop, tier="quick", seed=0, replay=None):
        self.prop = prop
        self.tier = tier
        self.seed = seed
        self.rng = random.Random(seed)
        self.replay = replay
        self.t0 = time.time()
        self.breaks = []        # broken theorems / ties: dicts
        self.violations = []    # property failures on the implementation
        self.known_hits = {}    # finding id -> what
        self.notes = []
        self.build = None
        self.findings = [f for f in load_findings() if f["property"] == prop]

    # ---------------------------------------------------------------- translator
    def regen(self, *names):
        """run translate/<name>.py; each prints nothing and writes coq/theories/Gen/*.v.
        Returns True when all succeeded; otherwise records the tie as broken."""
        ok = True
        for n in names:
            env = dict(os.environ, PYTHONPATH=str(REPO / "src") + ":" + str(VERIF), PYTHONHASHSEED="0")
            env[GUARD] = "1"
            with Lock("regen"):
                rc, out, err = sh([PY, str(VERIF / "translate" / (n + ".py"))], cwd=VERIF, env=env, timeout=300)
            if rc:
                ok = False
                self.broken("translator", n, (out + err)[-3000:])
        return ok

    # ---------------------------------------------------------------- coq
    def coq_build(self, *targets, timeout=1500, jobs=16):
        """targets: paths relative to coq/ such as 'props/C08.v'. Full .vo build of their cones."""
        b = Build()
        self.build = b
        with Lock("coq"):
            ensure_makefile()
            files = []
            for t in targets:
                for f in cone(t):
                    if f not in files:
                        files.append(f)
            b.files = files
            for f in files:
                text = strip_comments((COQ / f).read_text())
                for m in FORBIDDEN.finditer(text):
                    b.forbidden.append("%s: %s" % (f, m.group(0)))
                b.statements += [(f, m.group(2)) for m in STMT.finditer(text)]
            b.obligations = len(b.statements)
            vos = [t[:-2] + ".vo" for t in targets]
            t0 = time.time()
            try:
                rc, out, err = sh(["timeout", str(timeout), "make", "-j%d" % jobs, "-k"] + vos, cwd=COQ,
                                  timeout=timeout + 30)
            except subprocess.TimeoutExpired:
                rc, out, err = 124, "", "make timed out"
            b.log = out + "\n" + err
            b.wall = time.time() - t0
            # make's exit status is authoritative; the mtime test only matters when make failed part-way
            # (with -k other targets are still built)
            built = [f for f in files if (COQ / (f[:-2] + ".vo")).exists()
                     and (rc == 0 or (COQ / (f[:-2] + ".vo")).stat().st_mtime >= (COQ / f).stat().st_mtime)]
            b.discharged = len([s for s in b.statements if s[0] in built])
            if rc != 0 or len(built) != len(files):
                b.ok = False
                m = re.search(r'File "\./([^"]+)", line (\d+)[^\n]*\n((?:.*\n){0,12})', b.log)
                if m:
                    b.failed = m.group(1)
                    b.error = m.group(0)[:2000]
                else:
                    missing = [f for f in files if f not in built]
                    b.failed = missing[0] if missing else "?"
                    b.error = b.log[-2000:]
            for t in targets:
                if (COQ / (t[:-2] + ".vo")).exists() and t.startswith("props/"):
                    b.assumptions.update(self._assumptions(t))
        if b.forbidden:
            self.broken("audit", "forbidden-construct", "; ".join(b.forbidden))
        if not b.ok:
            self.broken("proof", b.failed, b.error)
        return b

    def _assumptions(self, t):
        """Print Assumptions of every theorem a props file lists (it contains `Print Assumptions X.`
        lines itself; the output is collected here by a separate coqc run so that it does not depend
        on make's interleaved output). Cached per .vo content."""
        src = strip_comments((COQ / t).read_text())
        names = re.findall(r"Print\s+Assumptions\s+([A-Za-z0-9_'.]+)\s*\.", src)
        if not names:
            return {}
        vo = COQ / (t[:-2] + ".vo")
        key = hashlib.sha256(vo.read_bytes()).hexdigest()
        cache = COQ / (t[:-2] + ".assumptions")
        if cache.exists():
            c = json.loads(cache.read_text())
            if c.get("key") == key:
                return c["out"]
        terms = ["Require Import %s." % module_of(t), "Set Printing Width 100000."]
        for i, n in enumerate(names):
            terms.append('Goal True. idtac "@@%d". Abort.' % i)
            terms.append("Print Assumptions %s." % n)
        work = BUILD / "eval"
        work.mkdir(parents=True, exist_ok=True)
        f = work / ("pa_%s_%d.v" % (Path(t).stem, os.getpid()))
        f.write_text("\n".join(terms) + "\n")
        rc, out, err = sh(["timeout", "600", "coqc", "-Q", str(COQ / "theories"), "CssV", "-Q", str(COQ / "props"), "CssP", f.name], cwd=work)
        for g in work.glob(f.stem + ".*"):
            g.unlink()
        for g in work.glob("." + f.stem + ".*"):
            g.unlink()
        if rc:
            self.broken("proof", "Print Assumptions " + t, (out + err)[-1500:])
            return {}
        parts = re.split(r"@@(\d+)\n", out)
        res = {}
        for k in range(1, len(parts), 2):
            res[names[int(parts[k])]] = " ".join(parts[k + 1].split())
        cache.write_text(json.dumps({"key": key, "out": res}))
        return res

    def coqchk(self, target, timeout=1500):
        """independent re-check of the compiled cone with coqchk -o (thorough tier); returns the summary text"""
        with Lock("coq"):
            rc, out, err = sh(["timeout", str(timeout), "coqchk", "-silent", "-o", "-Q", "theories", "CssV", "-Q", "props", "CssP",
                               module_of(target)], cwd=COQ)
        txt = (out + err)
        i = txt.find("CONTEXT SUMMARY")
        summary = " ".join(txt[i:].split()) if i >= 0 else txt[-1500:]
        if rc != 0:
            self.broken("proof", "coqchk " + target, txt[-1500:])
        return summary

    # ---------------------------------------------------------------- extraction
    def ocaml_build(self, name):
        """coq/extract/<name>.v must `Extraction "<name>_model.ml" ...` (relative: it is compiled with
        cwd = build/ocaml/<name>); ocaml/<name>_driver.ml is the line-oriented driver."""
        out = BUILD / "ocaml" / name
        out.mkdir(parents=True, exist_ok=True)
        src = COQ / "extract" / (name + ".v")
        drv = VERIF / "ocaml" / (name + "_driver.ml")
        with Lock("ocaml_" + name):
            stamp = out / "stamp"
            deps = [src, drv] + [COQ / (f[:-2] + ".vo") for f in cone_extract(src)]
            h = hashlib.sha256()
            for d in deps:
                h.update(d.read_bytes() if d.exists() else b"missing")
            binary = out / (name + ".exe")
            if binary.exists() and stamp.exists() and stamp.read_text() == h.hexdigest():
                return binary
            (out / (name + ".v")).write_text(src.read_text())
            rc, o, e = sh(["timeout", "600", "coqc", "-Q", str(COQ / "theories"), "CssV", "-Q", str(COQ / "props"), "CssP",
                           "-w", "-extraction-opaque-accessed,-extraction", name + ".v"], cwd=out)
            if rc:
                self.broken("extraction", name, (o + e)[-2000:])
                return None
            mls = [p.name for p in out.glob("*_model.ml")]
            for p in out.glob("*_model.mli"):
                p.unlink()
            (out / (name + "_driver.ml")).write_text(drv.read_text())
            rc, o, e = sh(["ocamlfind", "ocamlopt", "-w", "-a", "-package", "str", "-linkpkg"] + mls +
                          [name + "_driver.ml", "-o", str(binary)], cwd=out)
            if rc:
                self.broken("extraction", name + " (ocaml)", (o + e)[-2000:])
                return None
            stamp.write_text(h.hexdigest())
            return binary

    def run_binary(self, binary, lines, timeout=1200, shards=1):
        if shards > 1 and len(lines) > shards:
            n = (len(lines) + shards - 1) // shards
            chunks = [lines[i:i + n] for i in range(0, len(lines), n)]
            procs = [subprocess.Popen([str(binary)], stdin=subprocess.PIPE, stdout=subprocess.PIPE, text=True)
                     for _ in chunks]
            import threading
            res = [None] * len(chunks)

            def work(i):
                res[i] = procs[i].communicate("\n".join(chunks[i]) + "\n", timeout=timeout)[0]
            th = [threading.Thread(target=work, args=(i,)) for i in range(len(chunks))]
            [t.start() for t in th]
            [t.join() for t in th]
            out = []
            for r in res:
                out += r.split("\n")[:-1] if r.endswith("\n") else r.split("\n")
            return out
        rc, out, err = sh([str(binary)], input="\n".join(lines) + "\n", timeout=timeout)
        if rc:
            raise RuntimeError("model binary failed: " + err[-500:])
        return out.split("\n")[:-1]

    def coq_eval(self, requires, terms, timeout=600):
        """Evaluate closed terms with vm_compute inside Coq; returns the printed normal forms (one str each).
        `requires` is the text of the Require lines."""
        work = BUILD / "eval" / ("%s_%d" % (self.prop, os.getpid()))
        work.mkdir(parents=True, exist_ok=True)
        body = [requires, "Set Printing Width 1000000.", "Set Printing Depth 1000000."]
        for i, t in enumerate(terms):
            body.append('Goal True. idtac "@@%d". Abort.' % i)
            body.append("Eval vm_compute in (%s)." % t)
        (work / "cases.v").write_text("\n".join(body) + "\n")
        rc, out, err = sh(["timeout", str(timeout), "coqc", "-Q", str(COQ / "theories"), "CssV", "-Q", str(COQ / "props"), "CssP",
                           "cases.v"], cwd=work)
        if rc:
            raise RuntimeError("coq_eval failed: " + (out + err)[-1500:])
        parts = re.split(r"@@(\d+)\n", out)
        res = [None] * len(terms)
        for k in range(1, len(parts), 2):
            txt = parts[k + 1].strip()
            txt = re.sub(r"^=\s*", "", txt)
            txt = re.sub(r"\n\s*:\s[^\n]*(\n\s+[^\n]*)*$", "", txt)
            res[int(parts[k])] = " ".join(txt.split())
        for p in work.iterdir():
            p.unlink()
        work.rmdir()
        return res

    # ---------------------------------------------------------------- implementation side
    def pool_map(self, func, cases, procs=14, chunksize=64, timeout=None):
        """func must be a module-level function; runs in worker processes that import css_parser afresh."""
        if not cases:
            return []
        ctxm = mp.get_context("fork")
        with ctxm.Pool(min(procs, max(1, len(cases) // chunksize + 1))) as pool:
            r = pool.map_async(func, cases, chunksize=chunksize)
            return r.get(timeout)

    # ---------------------------------------------------------------- bookkeeping
    def broken(self, stage, name, detail=""):
        self.breaks.append({"stage": stage, "name": name, "detail": detail})

    def match_known(self, witness_text):
        """returns the open finding whose signature (regex over a canonical witness text) matches"""
        for f in self.findings:
            if f.get("status") == "open" and re.search(f["signature"], witness_text, re.S):
                return f
        return None

    def violation(self, what, witness, sig_text=None, **extra):
        """record a failure of the property on the implementation. `sig_text` is the canonical text the
        known-findings signatures are matched against (default: json of witness)."""
        sig_text = sig_text if sig_text is not None else json.dumps(witness, sort_keys=True, default=str)
        f = self.match_known(what + " :: " + sig_text)
        if f:
            self.known_hits.setdefault(f["id"], (f, what, witness))
            return False
        self.violations.append(dict(what=what, witness=witness, **extra))
        return True

    def finish(self, coverage, assumptions=(), level="proof", search=None):
        """search: optional callable run when something broke but no failing input is known yet; it
        must return a witness dict (property fails on the implementation) or None."""
        viol = list(self.violations)
        lines = []
        if self.breaks and not viol and search is not None:
            try:
                w = search()
            except Exception as e:  # a crashing search must not hide the break
                self.notes.append("search raised %r" % (e,))
                w = None
            if w:
                viol.append(dict(what="found by search after a broken obligation", witness=w))
        (VERIF / "replays").mkdir(exist_ok=True)
        rc = 0
        if viol or self.breaks:
            rc = 1
            path = VERIF / "replays" / ("%s-%d.json" % (self.prop, self.seed))
            rep = {"property": self.prop, "seed": self.seed, "tier": self.tier,
                   "broken": self.breaks, "violations": viol[:20],
                   "replay_cmd": "./check %s --replay %s" % (self.prop, path)}
            path.write_text(json.dumps(rep, indent=1, default=str))
            line = "VIOLATION property=%s replay=%s" % (self.prop, path)
            if not viol:
                line += " no-failing-input-found"
            lines.append(line)
        # known findings: printed when the stored witness still reproduces (reported by the module
        # through ctx.violation -> known_hits) -- open entries that no longer reproduce are mentioned
        for f in self.findings:
            if f.get("status") != "open":
                continue
            if f["id"] in self.known_hits:
                print("KNOWN-FINDING: property=%s %s [%s]" % (self.prop, f["what"], f["id"]))
            else:
                self.notes.append("open finding %s did not reproduce in this run" % f["id"])
        b = self.build
        cov = dict(coverage)
        if b is not None:
            cov.setdefault("obligations", b.obligations)
            cov.setdefault("discharged", b.discharged)
            cov.setdefault("checker_cmd", "coq_makefile -f _CoqProject -o Makefile && make -j16 " +
                           " ".join(f[:-2] + ".vo" for f in b.files if f.startswith("props/")) +
                           "   (coqc 8.16.1, full .vo build; cone = %d files)" % len(b.files))
            cov.setdefault("print_assumptions", b.assumptions)
            cov.setdefault("cone_files", b.files)
        cov.setdefault("trusted_base", [])
        cov["known_findings_reproduced"] = sorted(self.known_hits)
        cov["broken"] = [x["stage"] + ":" + str(x["name"]) for x in self.breaks]
        cov["notes"] = self.notes
        ev = {"property_id": self.prop, "tier": self.tier, "seed": self.seed, "level": level,
              "coverage": cov, "assumptions": list(assumptions), "wall_s": round(time.time() - self.t0, 2),
              "violations": len(viol) + (1 if self.breaks and not viol else 0)}
        (VERIF / "evidence").mkdir(exist_ok=True)
        (VERIF / "evidence" / (self.prop + ".json")).write_text(json.dumps(ev, indent=1, default=str) + "\n")
        for l in lines:
            print(l)
        for x in self.breaks:
            print("  broken %s: %s\n    %s" % (x["stage"], x["name"], x["detail"][:1500].replace("\n", "\n    ")))
        for v in viol[:5]:
            print("  violation: %s\n    witness: %s" % (v["what"], json.dumps(v["witness"], default=str)[:1500]))
        print("%s %s tier=%s seed=%d wall=%.1fs obligations=%s discharged=%s evaluations=%s" % (
            self.prop, "FAIL" if rc else "ok", self.tier, self.seed, time.time() - self.t0,
            cov.get("obligations"), cov.get("discharged"), cov.get("evaluations")))
        sys.stdout.flush()
        sys.exit(rc)


def cone_extract(src):
    text = strip_comments(src.read_text())
    byname = {}
    for f in coq_files():
        byname[module_of(f)] = f
        byname[module_of(f).split(".", 1)[1]] = f
    out = []
    for m in re.finditer(r"(?:From\s+(\S+)\s+)?Require\s+(?:Import\s+|Export\s+)?(.*?)\.(?=\s|$)", text, re.S):
        for name in m.group(2).split():
            for cand in ((m.group(1) + "." + name) if m.group(1) else name, name):
                if cand in byname:
                    out += cone(byname[cand])
                    break
    return sorted(set(out))


def load_findings():
    out = []
    p = VERIF / "known_findings.json"
    if p.exists():
        out += json.loads(p.read_text())["findings"]
    d = VERIF / "known_findings.d"
    if d.exists():
        ids = {f["id"] for f in out}
        for q in sorted(d.glob("*.json")):
            for f in json.loads(q.read_text())["findings"]:
                if f["id"] not in ids:
                    out.append(f)
    return out


def budget_map(func, cases, budget_s=5, procs=12, overrun=None):
    """map func over cases in forked workers with a HARD per-case wall-clock budget: a worker arms
    ITIMER_REAL with the default SIGALRM action before each case, so a case stuck inside C code (the sre
    engine) kills the worker; the parent sees which case was in flight, records `overrun(case)` for it and
    restarts a worker on the rest of the slice.  Results are returned in input order."""
    import pickle, signal, tempfile
    n = len(cases)
    res = [None] * n
    if not n:
        return res
    procs = max(1, min(procs, n))
    step = (n + procs - 1) // procs
    slices = [(a, min(n, a + step)) for a in range(0, n, step)]
    tmpd = tempfile.mkdtemp(prefix='vbm', dir=str(BUILD))

    def spawn(a, b):
        path = os.path.join(tmpd, 'w%d_%d' % (a, b))
        pid = os.fork()
        if pid == 0:
            try:
                signal.signal(signal.SIGALRM, signal.SIG_DFL)
                with open(path, 'ab') as f:
                    for k in range(a, b):
                        signal.setitimer(signal.ITIMER_REAL, budget_s)
                        r = func(cases[k])
                        signal.setitimer(signal.ITIMER_REAL, 0)
                        pickle.dump((k, r), f)
                        f.flush()
            finally:
                os._exit(0)
        return pid, path, a, b

    live = [spawn(a, b) for a, b in slices]
    while live:
        pid, path, a, b = live.pop(0)
        os.waitpid(pid, 0)
        done = a
        try:
            with open(path, 'rb') as f:
                while True:
                    try:
                        k, r = pickle.load(f)
                    except EOFError:
                        break
                    res[k] = r
                    done = k + 1
        except FileNotFoundError:
            pass
        if done < b:
            res[done] = overrun(cases[done]) if overrun else ("EXC", "TimeBudget", "no result within %ss" % budget_s)
            if done + 1 < b:
                live.append(spawn(done + 1, b))
    import shutil
    shutil.rmtree(tmpd, ignore_errors=True)
    return res


# ---------------------------------------------------------------------- small helpers
def cps(s):
    """str -> space-separated decimal code points (the wire format of the extracted models)"""
    return " ".join(str(ord(c)) for c in s)


def uncps(s):
    return "".join(chr(int(x)) for x in s.split())


def shrink_seq(seq, fails, max_rounds=200):
    """greedy delta-debugging over a sequence (list or str); `fails(candidate)` -> bool"""
    seq = list(seq) if not isinstance(seq, str) else seq
    n = 2
    rounds = 0
    while len(seq) >= 1 and rounds < max_rounds:
        rounds += 1
        chunk = max(1, len(seq) // n)
        reduced = False
        i = 0
        while i < len(seq):
            cand = seq[:i] + seq[i + chunk:]
            if len(cand) < len(seq) and fails(cand):
                seq = cand
                reduced = True
            else:
                i += chunk
        if not reduced:
            if chunk == 1:
                break
            n = min(len(seq), n * 2)
    return seq
