"""per-property MANIFEST entries (text = what is proved over which quantifier; note = trusted base)"""
CHECKS = {
 "C08": {
  "text": "Theorems over ALL texts and both modes about the Gallina model of Tokenizer.tokenize running the "
          "productions regenerated from the source: tokenize_total (fuel never exhausted, every step consumes), "
          "tokenize_partition (raw matches concatenate to the text), tokenize_partition_full, raw_is_val "
          "(escape-free text: values are the raw matches), tokenize_positions (line/col = source position, "
          "recognised BOM zero width). The model is tied to /repo by regeneration of productions/tables and by "
          "an exhaustive small-scope + random correspondence of (type, value, line, col).",
  "note": "Trusted: Coq kernel+VM; translate/tokenizer.py, regexlib.py (CPython re._parser); extraction "
          "(ExtrOcamlBasic) + OCaml driver; correspondence harness; CPython re/str semantics. Modelled by hand: "
          "the tokenize loop. Excluded: doComments=False for partition, EOF position after a completed comment, "
          "final-sigma rule of str.lower.",
  "technique": "Coq proof by induction over the tokenizer loop + regex progress lemma; translator + differential correspondence",
 },
}
NOT_APPLICABLE = {}

# entries written by the property builders live in design_notes/CXX.md (python block under "MANIFEST entry");
# a property is claimed only once the maintainer has reviewed it and listed it in ACCEPTED
ACCEPTED = ["C01", "C02", "C03", "C09", "C04", "C05", "C06", "C07", "C10", "C11", "C12", "C13", "C14", "C15", "C16", "C17", "C18", "C19", "C20"]


def _load_notes():
    import ast
    from pathlib import Path
    d = Path(__file__).resolve().parent.parent / "design_notes"
    for pid in ACCEPTED:
        txt = (d / (pid + ".md")).read_text()
        i = txt.find("MANIFEST")
        j = txt.find('"text"', i)
        if i < 0 or j < 0:
            raise SystemExit("no MANIFEST block in design_notes/%s.md" % pid)
        k = txt.rfind("{", 0, j)
        depth, n, instr, q = 0, k, False, ""
        while n < len(txt):
            c = txt[n]
            if instr:
                if c == "\\":
                    n += 1
                elif c == q:
                    instr = False
            elif c in "\"'":
                instr, q = True, c
            elif c == "{":
                depth += 1
            elif c == "}":
                depth -= 1
                if depth == 0:
                    break
            n += 1
        val = ast.literal_eval(txt[k:n + 1])
        assert set(("text", "note", "technique")) <= set(val), (pid, val.keys())
        CHECKS[pid] = {x: val[x] for x in ("text", "note", "technique")}


_load_notes()

