"""per-property MANIFEST entries (text = what is proved over which quantifier; note = trusted base)"""
CHECKS = {
 "C08": {
  "text": "Theorems over ALL texts and both modes about the Gallina model of Tokenizer.tokenize running the "
          "productions regenerated from the source: tokenize_total (fuel never exhausted, every step consumes), "
          "tokenize_partition (raw matches concatenate to the text), tokenize_partition_full, raw_is_val "
          "(escape-free text: values are the raw matches), tokenize_positions (line/col = source position, "
          "recognised BOM zero width). The model is tied to /repo by regeneration of productions/tables and by "
          "an exhaustive small-scope + random correspondence of (type, value, line, col).",
  "note": "Trusted: Coq kernel+VM; translate/tokenizer.py, regexlib.py (CPython re._parser); extraction "
          "(ExtrOcamlBasic) + OCaml driver; correspondence harness; CPython re/str semantics. Modelled by hand: "
          "the tokenize loop. Excluded: doComments=False for partition, EOF position after a completed comment, "
          "final-sigma rule of str.lower.",
  "technique": "Coq proof by induction over the tokenizer loop + regex progress lemma; translator + differential correspondence",
 },
}
NOT_APPLICABLE = {}

# entries written by the property builders live in design_notes/CXX.md (python block under "MANIFEST entry");
# a property is claimed only once the maintainer has reviewed it and listed it in ACCEPTED
ACCEPTED = []


def _load_notes():
    import ast, re
    from pathlib import Path
    d = Path(__file__).resolve().parent.parent / "design_notes"
    for pid in ACCEPTED:
        txt = (d / (pid + ".md")).read_text()
        m = re.search(r"MANIFEST[^\n]*\n(?:.*\n)*?```(?:python)?\n(.*?)```", txt, re.S)
        if not m:
            raise SystemExit("no MANIFEST block in design_notes/%s.md" % pid)
        code = m.group(1).strip()
        code = re.sub(r"^[A-Za-z_]+\s*=\s*", "", code)
        if not code.startswith("{"):
            code = "{" + code + "}"
        val = ast.literal_eval(code.rstrip(",\n ") if code.endswith("}") else code)
        if pid in val:
            val = val[pid]
        assert set(("text", "note", "technique")) <= set(val), (pid, val.keys())
        CHECKS[pid] = val


_load_notes()

