"""setup: regenerate Gen/*.v, build props/*.vo of every claimed property (full .vo build), build the extracted drivers"""
import json
import sys
from harness.lib import Ctx, VERIF, COQ

man = json.loads((VERIF / "MANIFEST.json").read_text())
claimed = [c["property_id"] for c in man["checks"]]
ctx = Ctx("SETUP")
for t in sorted((VERIF / "translate").glob("*.py")):
    if t.stem in ("common", "regexlib", "__init__"):
        continue
    ctx.regen(t.stem)
props = ["props/%s.v" % p for p in claimed if (COQ / "props" / (p + ".v")).exists()]
if (COQ / "props" / "PP.v").exists():      # auxiliary engine (./check PP), not a property: built so that its driver can be extracted
    props.append("props/PP.v")
b = ctx.coq_build(*props, timeout=3000)
print("coq build ok=%s obligations=%d discharged=%d wall=%.0fs" % (b.ok, b.obligations, b.discharged, b.wall))
hard = list(ctx.breaks)
for d in sorted((VERIF / "ocaml").glob("*_driver.ml")):
    name = d.name[:-len("_driver.ml")]
    if (COQ / "extract" / (name + ".v")).exists():
        print("ocaml", name, ctx.ocaml_build(name))
for x in ctx.breaks:
    print("BROKEN", x["stage"], x["name"], x["detail"][:2000])
sys.exit(1 if hard else 0)
