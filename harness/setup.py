"""setup: regenerate, build every props/*.vo (full build), build every extracted driver"""
import sys
from pathlib import Path
from harness.lib import Ctx, VERIF, COQ

ctx = Ctx("SETUP")
ok = True
for t in sorted((VERIF / "translate").glob("*.py")):
    if t.stem in ("common", "regexlib", "__init__"):
        continue
    ok &= ctx.regen(t.stem)
props = sorted("props/" + p.name for p in (COQ / "props").glob("C*.v"))
b = ctx.coq_build(*props, timeout=3000)
print("coq build ok=%s obligations=%d discharged=%d wall=%.0fs" % (b.ok, b.obligations, b.discharged, b.wall))
for d in sorted((VERIF / "ocaml").glob("*_driver.ml")):
    name = d.name[:-len("_driver.ml")]
    print("ocaml", name, ctx.ocaml_build(name))
for x in ctx.breaks:
    print("BROKEN", x["stage"], x["name"], x["detail"][:2000])
sys.exit(1 if ctx.breaks else 0)
