"""driver:  python -m harness.check Cxx [--tier quick|thorough] [--replay file]"""
import argparse
import importlib
import os
import sys
import traceback

from harness.lib import Ctx, VERIF


def main():
    ap = argparse.ArgumentParser()
    ap.add_argument("prop")
    ap.add_argument("--tier", default=os.environ.get("VERIF_TIER", "quick"), choices=["quick", "thorough"])
    ap.add_argument("--replay", default=None)
    ap.add_argument("--seed", type=int, default=int(os.environ.get("VERIF_SEED", "0") or 0))
    a = ap.parse_args()
    prop = a.prop.upper()
    mod = importlib.import_module("harness.props." + prop.lower())
    ctx = Ctx(prop, a.tier, a.seed, a.replay)
    if a.replay:
        sys.exit(mod.replay(ctx, a.replay))
    try:
        mod.run(ctx)
    except SystemExit:
        raise
    except BaseException:
        # the check itself crashed: the property is not shown to hold
        ctx.broken("harness", "exception", traceback.format_exc()[-3000:])
        ctx.finish({"evaluations": 0, "distinct_nontrivial": 0, "rule": "harness crashed", "samples": []})


if __name__ == "__main__":
    main()
