"""C13 -- encoded output always decodes and re-parses to the same sheet.

proof:          coq/props/C13.v  (escapecss_decodes, escape_resolves, encode_decode_resolve, escape_matched_whole,
                escape_token_stable, escaped_<class>_first_token (token boundaries incl. every IDENT, via C09's lexeme theorems),
                escape_resolves_general (texts with backslashes), encoded_reparse_detects (C14's detector, all branches),
                charset_rule_first, encoding_mirrors_charset, history_encoding_accepted) over coq/theories/EscapeEnc.v + the shared tokenizer model
tie:            translate/escapeenc.py regenerates the handler's format / slice / handler name / @charset format /
                codec prefix (fail-closed); translate/tokenizer.py the escape regex and the resolved-type list;
                the extracted model is compared with str.encode(e, 'escapecss'), bytes.decode, the tokenizer,
                _codec3.detectencoding_str and the sheet's encoding property on generated cases; the Section
                hypotheses about a codec are validated for every codec used (all code points)
oracle/search:  the property's statement evaluated on the implementation: sheet.encoding = e; b = sheet.cssText;
                b.decode(e); @charset first; unencodable characters exactly as escapes; parseString(b) detects e and
                gives the same extracted object model
"""
import codecs
import json
import re
import time

from harness.lib import VERIF

QUICK_CODECS = ["ascii", "latin-1", "cp1252", "koi8-r", "shift_jis", "gbk", "utf-8", "utf-8-sig", "utf-16",
                "utf-16-le", "utf-32", "utf-32-be"]
BOM_FAMILY = ["utf-8-sig", "utf-16", "utf-16-le", "utf-16-be", "utf-32", "utf-32-le", "utf-32-be"]

# planted characters: Latin-1, C1 control, NBSP, soft hyphen, Cyrillic, euro, CJK, half-width katakana, line
# separator, replacement char, astral, a lone surrogate (no codec encodes it), yen / overline (not injective
# in shift_jis), U+FEFF (BOM as a character), DEL+1
PLANT = ["\xe9", "\x85", "\xa0", "\xad", "\u0434", "\u20ac", "\u4e2d", "\uff8a", "\u2028", "\ufffd", "\U0001f600",
         "\ud800", "\xa5", "\u203e", "\ufeff", "\x80", "\u0100", "\U0010ffff"]
# characters Python treats as white space / line breaks (str.isspace, str.splitlines, str.strip, re \s): anything in
# the code that strips, splits or matches \s sees them; U+001C-1F are ASCII (never escaped) but belong to the class
WS_PLANT = ["\x85", "\xa0", "\u1680"] + [chr(c) for c in range(0x2000, 0x200b)] + \
           ["\u2028", "\u2029", "\u202f", "\u205f", "\u3000", "\x1c", "\x1d", "\x1e", "\x1f"]
FOLLOW = ["", "a", "F", "0", "9", " ", "\n", ";", '"', "'", "\t", "g", "-", "\xe9", "\U0001f600"]

# (name, template, follow strings that keep the template one well-formed construct)
IDF = ["", "a", "F", "0", "9", "g", "-", "\xe9", "\U0001f600"]
POSITIONS = [
    ("comment", "/*%s*/ a{x:1}", FOLLOW),
    ("comment-in-rule", "a{/*%s*/x:1}", FOLLOW),
    ("type-selector", "%s{x:1}", IDF + [" b", "\nb"]),
    ("class", "a.%s{x:1}", IDF + [" b"]),
    ("id", "#%s{x:1}", IDF + [" b"]),
    ("attr-name", "a[%s=b]{x:1}", IDF),
    ("attr-value", "a[b=%s]{x:1}", IDF),
    ("attr-string", 'a[b="%s"]{x:1}', IDF + [" ", ";", "'"]),
    ("pseudo", "a:%s{x:1}", IDF),
    ("string-dq", 'a{content:"%s"}', IDF + [" ", ";", "'", "\t"]),
    ("string-sq", "a{content:'%s'}", IDF + [" ", ";", '"', "\t"]),
    ("string-nl", 'a{content:"%s\\a "}', [""]),
    ("url", "a{b:url(%s)}", IDF),
    ("url-dq", 'a{b:url("%s")}', IDF + [" ", ";", "'"]),
    ("unit", "a{w:1%s}", IDF),
    ("prop-name", "a{%s:1}", IDF),
    ("value-ident", "a{x:%s}", IDF + [" b", ";y:2"]),
    ("value-ident-2", "a{x:b %s}", IDF),
    ("function", "a{x:%s(1)}", IDF),
    ("unknown-hash", "@x #%s;", IDF),
    ("function-arg", "a{x:f(%s)}", IDF),
    ("value-list", "a{font-family:%s, b}", IDF),
    ("pseudo-element", "a::%s{x:1}", IDF),
    ("string-escaped", 'a{x:"\\%s"}', IDF),
    ("string-bs-before", 'a{x:"\\5c %s"}', IDF + [" 4", "\\5c 4"]),      # a literal backslash directly before the character
    ("string-bs-after", 'a{x:"%s\\5c 4"}', IDF),                         # ... and directly after it, before a hex digit
    ("string-bs-end", 'a{x:"%s\\5c "}', IDF),                            # value ending in a backslash
    ("font-family", "@font-face{font-family:%s}", IDF + [" b"]),
    ("import", '@import "%s";', IDF + [" ", ";"]),
    ("import-url", "@import url(%s);", IDF),
    ("import-media", '@import "i" %s;', IDF),
    ("namespace-prefix", '@namespace %s "u";', IDF),
    ("namespace-uri", '@namespace p "%s";', IDF + [" "]),
    ("media-type", "@media %s{a{x:1}}", IDF),
    ("media-inner", "@media all{%s{x:1}}", IDF),
    ("page-pseudo", "@page :%s{x:1}", IDF),
    ("unknown-keyword", "@%s y;", IDF),
    ("unknown-prelude", "@x %s;", IDF + [" b"]),
    ("unknown-block", "@x{%s}", IDF + [" b", ";"]),
    ("unknown-nested-at", "@x{@%s y;}", IDF),
    ("unknown-string", '@x "%s";', IDF + [" "]),
    ("important-sibling", "a{x:%s !important}", IDF),
    # first / last character of a URL (both URL readers strip(), helper.uri decides about quoting)
    ("url-dq-first", 'a{b:url("%sx.png")}', IDF),
    ("url-dq-last", 'a{b:url("x%s")}', ["", "\xe9"]),
    ("import-url-first", '@import url("%sx");', IDF),
    ("import-url-last", '@import url("x%s");', [""]),
    ("import-string-last", '@import "x%s";', [""]),
    ("fontface-src", '@font-face{src:url("%sx")}', IDF),
    ("fontface-src-last", '@font-face{src:url("x%s")}', [""]),
    # inside blocks of every kind (block text is indented line by line)
    ("media-string", '@media all{a{content:"%s"}}', IDF + [" ", ";"]),
    ("media-comment", "@media all{/*%s*/a{x:1}}", IDF + [" "]),
    ("media-attr-string", '@media all{a[b="%s"]{x:1}}', IDF),
    ("media-ident", "@media all{a{x:b%s}}", IDF),
    ("page-string", '@page{content:"%s"}', IDF + [" "]),
    ("unknown-block-string", '@x{a:"%s"}', IDF + [" "]),
    ("unknown-block-comment", "@x{/*%s*/}", IDF + [" "]),
    ("rule-comment-multi", "a{x:1;/*%s*/y:2}", IDF + [" "]),
]


# ----------------------------------------------------------------------------- implementation adapters
def quiet():
    import logging
    import css_parser
    css_parser.log.setLevel(logging.CRITICAL)
    css_parser.log.raiseExceptions = False
    return css_parser


def norm_enc(e):
    """codec identity up to Python's aliases; the codec itself turns utf-8-sig into utf-8 (_fixencoding)"""
    n = codecs.lookup(e).name
    return "utf-8" if n == "utf-8-sig" else n


ESC = re.compile(r"\\([0-9a-fA-F]{1,6})(?:\r\n|[\t\r\n\f ])?")


def resolve(x):
    return ESC.sub(lambda m: chr(int(m.group(1), 16)) if int(m.group(1), 16) <= 0x10ffff else m.group(0), x)


def extract_rule(r):
    """the object model of one rule as plain data (no serializer-dependent text where an attribute exists)"""
    t = r.type
    d = {"type": t}
    if t == r.CHARSET_RULE:
        d["encoding"] = r.encoding
    elif t == r.COMMENT:
        d["text"] = r.cssText
    elif t == r.STYLE_RULE:
        d["selector"] = r.selectorText
        d["sel"] = [[list(map(str, s.specificity)), s.selectorText] for s in r.selectorList]
        d["style"] = [[p.name, p.literalname, p.value, p.priority] for p in r.style.getProperties(all=True)]
        d["text"] = r.cssText
    elif t == r.UNKNOWN_RULE:
        d["atkeyword"] = r.atkeyword
        d["seq"] = [[i.type, i.value if isinstance(i.value, str) else i.value.cssText] for i in r.seq
                    if i.type != "S"]          # white space between the tokens is layout, not model
    elif t == r.IMPORT_RULE:
        d["href"] = r.href
        d["media"] = r.media.mediaText
        d["text"] = r.cssText
    elif t == r.NAMESPACE_RULE:
        d["prefix"], d["uri"] = r.prefix, r.namespaceURI
    elif t == r.MEDIA_RULE:
        d["media"] = r.media.mediaText
        d["rules"] = [extract_rule(x) for x in r.cssRules]
    elif t == r.PAGE_RULE:
        d["selector"] = r.selectorText
        d["style"] = [[p.name, p.value, p.priority] for p in r.style.getProperties(all=True)]
        d["text"] = r.cssText
    elif t == r.FONT_FACE_RULE:
        d["style"] = [[p.name, p.value, p.priority] for p in r.style.getProperties(all=True)]
    else:
        d["text"] = r.cssText
    return d


def extract(sheet):
    return [extract_rule(r) for r in sheet.cssRules]


def model_counter(m):
    """how often each character occurs in the extracted model, every piece of the sheet counted once (the
    serializer-made 'text' is only used where a rule has no attributes of its own; 'sel' and the normalised
    property name repeat the selector / literal name)"""
    import collections
    cnt = collections.Counter()

    def add(x):
        if isinstance(x, str):
            cnt.update(x)
        elif isinstance(x, (list, tuple)):
            for y in x:
                add(y)

    for r in m:
        keys = [k for k in r if k not in ("type", "sel", "rules")]
        if any(k != "text" for k in keys):
            keys = [k for k in keys if k != "text"]
        for k in keys:
            if k == "style":
                for p_ in r[k]:
                    add(p_[1:] if len(p_) == 4 else p_)
            else:
                add(r[k])
        if "rules" in r:
            cnt.update(model_counter(r["rules"]))
    return cnt


def unresolved_atkeyword_only(m1, m2):
    """True when m2 equals m1 except that at-keywords of unknown rules (the rule's keyword and ATKEYWORD items
    of its content) come back with their escapes unresolved -- the failure family of finding
    C13-atkeyword-unresolved (fixed by b051860; kept so that a regression is named for what it is)"""
    def fix(m):
        out = []
        for r in m:
            r = dict(r)
            if "atkeyword" in r:
                r["atkeyword"] = resolve(r["atkeyword"]).lower()
                r["seq"] = [[t, resolve(v).lower() if (t == "ATKEYWORD" or not isinstance(t, str)) else v]
                            for t, v in r["seq"]]     # a non-str type = a nested unknown rule, by its text
            if "rules" in r:
                r["rules"] = fix(r["rules"])
            out.append(r)
        return out
    return m1 != m2 and fix(m1) == fix(m2)


def expected_escaped(text, e):
    """independent statement of 'every character the encoding cannot express is a CSS escape'"""
    out = []
    for ch in text:
        try:
            ch.encode(e)
            out.append(ch)
        except UnicodeEncodeError:
            out.append("\\%X " % ord(ch))
    return "".join(out)


def oracle(case):
    """case = (source text, encoding).  Returns None or (description, sig_text)."""
    src, e = case
    cp = quiet()
    from css_parser import _codec3
    try:
        sh = cp.parseString(src)
        m0 = extract(sh)
        text0 = "\n".join(r.cssText for r in sh.cssRules if r.cssText)
        sh.encoding = e
        try:
            same = codecs.lookup(sh.encoding).name == codecs.lookup(e).name
        except (LookupError, TypeError):
            same = False
        if not same:
            return ("sheet.encoding does not mirror the assigned encoding", "%r -> %r" % (e, sh.encoding))
        m1 = extract(sh)
        if m1[1:] != [r for r in m0 if r["type"] != 2]:
            return ("assigning the encoding changed other rules", "")
        text = "\n".join(r.cssText for r in sh.cssRules if r.cssText)
        b = sh.cssText
    except Exception as ex:  # noqa
        return ("building / serializing the sheet raised %s" % type(ex).__name__, str(ex)[:200])
    if not isinstance(b, bytes):
        return ("cssText is not a byte string", type(b).__name__)
    try:
        d = b.decode(e)
    except UnicodeError as ex:
        return ("cssText does not decode under the sheet's encoding", str(ex)[:120])
    head = '@charset "%s";' % sh.encoding
    if not d.startswith(head) or not b.startswith("".encode(e) + head.encode(e)[len("".encode(e)):]):
        return ("output does not begin with the @charset rule naming the encoding", d[:40])
    # "represents every character the encoding cannot express as a CSS escape": resolving the escapes of the
    # decoded text gives the text (nothing glued, nothing eaten), and exactly the unencodable characters were escaped
    # (the exact spelling backslash-HEX-space is the model correspondence's business, not the property's)
    n_unenc = sum(1 for ch in text if expected_escaped(ch, e) != ch)
    if resolve(d) != resolve(text) or len(ESC.findall(d)) - len(ESC.findall(text)) != n_unenc:
        return ("the decoded output does not stand for the sheet's text with exactly the unencodable characters escaped",
                "decoded %r, text %r" % (d[:80], text[:80]))
    det = _codec3.detectencoding_str(b, True)[0]
    try:
        if norm_enc(det) != norm_enc(e):
            return ("parsing the bytes back detects another encoding", "%s detected as %s" % (e, det))
    except LookupError:
        return ("parsing the bytes back detects another encoding", "%s detected as %r" % (e, det))
    try:
        sh2 = cp.parseString(b)
        m2 = extract(sh2)
    except Exception as ex:  # noqa
        return ("re-parsing the encoded bytes raised %s" % type(ex).__name__, str(ex)[:200])
    if not m2 or m2[0].get("encoding") is None or norm_enc(m2[0]["encoding"]) != norm_enc(e):
        return ("re-parsed sheet does not carry the encoding", repr(m2[:1]))
    if m2[1:] != m1[1:]:
        # scope of C13: what the *encoding* changes.  A sheet that, before any encoding is assigned, does not
        # re-parse from its own str serialization to the same model is C03's subject (e.g. U+00A0 as a selector) ...
        if extract(cp.parseString(text0)) != m0:
            # ... but only when the PARSER already did not keep a planted character (then there is nothing for the
            # encoding to preserve); a character the model holds and the serializer loses is a failure here too
            kept = model_counter(m0)
            if any((ord(ch) >= 128 or (ord(ch) < 32 and ch not in "\t\n\r\f")) and kept[ch] < src.count(ch)
                   for ch in set(src)):
                return ("SKIP", "not text-stable")
        if unresolved_atkeyword_only(m1[1:], m2[1:]):
            return ("re-parsed object model differs: at-keyword of an unknown rule comes back with its escape "
                    "unresolved (ATKEYWORD token values are not escape-resolved)", "atkeyword-unresolved")
        k = next(i for i in range(max(len(m1), len(m2))) if m1[i:i + 1] != m2[i:i + 1])
        return ("re-parsed object model differs", "rule %d: %s  ->  %s" % (
            k, json.dumps(m1[k:k + 1], ensure_ascii=True)[:300], json.dumps(m2[k:k + 1], ensure_ascii=True)[:300]))
    return None


def oracle_safe(case):
    try:
        return oracle(case)
    except Exception as ex:  # noqa
        return ("oracle crashed: %r" % (ex,), "")


# ----------------------------------------------------------------------------- encoding assignment histories
def all_codec_names():
    """every codec name the interpreter knows: modules of the encodings package, alias keys and values
    (text codecs, non-text codecs such as rot13/hex/base64, special ones such as undefined/idna/css)"""
    import encodings
    import encodings.aliases
    import pkgutil
    names = set(encodings.aliases.aliases) | set(encodings.aliases.aliases.values())
    names |= {m.name for m in pkgutil.iter_modules(encodings.__path__) if m.name != "aliases"}
    return sorted(names | {"css", "utf-8", "latin-1", "utf-8-sig", "utf-16-le", "utf-32-be"})


ODD_NAMES = ["", " ", "a b", '"ascii"', "1x", "utf-8;", "utf 8", "\xe9", "utf-9", "no-such-codec", "ascii\n", "x" * 40,
             "-", "@charset", "ascii/*c*/", "url(x)", "\\61 scii", "u\\tf-8", "ASCII ", "0", "None"]
_KIND = {}


def codec_kind(name):
    """'reparse' = inside the property's quantifier (ASCII-transparent header, or the BOM family): the bytes must parse
    back;  'text' = a text codec outside it (EBCDIC, utf-7 ...): bytes, decode and @charset only;  None = not usable"""
    if name in _KIND:
        return _KIND[name]
    kind = None
    try:
        head = '@charset "%s"; a{}' % name.lower()
        b = head.encode(name, "escapecss")
        if isinstance(b, bytes) and b.decode(name) == head:
            ci = codecs.lookup(name)
            if ci.name in [codecs.lookup(x).name for x in BOM_FAMILY] or b == head.encode("ascii"):
                kind = "reparse"
            else:
                kind = "text"
    except Exception:  # noqa
        kind = None
    _KIND[name] = kind
    return kind


def sheet_state(sh):
    """what a refused assignment must leave unchanged"""
    try:
        b = sh.cssText
    except Exception as ex:  # noqa
        b = "RAISES " + type(ex).__name__
    return (sh.encoding, b, [r.type for r in sh.cssRules])


def sheet_invariant(cp, sh, m_rules):
    """the property for the encoding the sheet reports NOW.  m_rules = extracted model of the non-charset rules."""
    from css_parser import _codec3
    enc = sh.encoding
    has_rule = bool(len(sh.cssRules)) and sh.cssRules[0].type == sh.cssRules[0].CHARSET_RULE
    if not isinstance(enc, str) or not enc:
        return ("sheet.encoding is not an encoding name", repr(enc))
    if not has_rule and enc != "utf-8":
        return ("sheet without an @charset rule does not report the utf-8 default", repr(enc))
    try:
        b = sh.cssText
    except Exception as ex:  # noqa
        return ("sheet.cssText raises %s for the encoding the sheet reports" % type(ex).__name__,
                "%s: %s" % (enc, str(ex)[:100]))
    if not isinstance(b, bytes):
        return ("cssText is not a byte string", type(b).__name__)
    try:
        d = b.decode(enc)
    except Exception as ex:  # noqa
        return ("cssText does not decode under the encoding the sheet reports", "%s: %s" % (enc, str(ex)[:100]))
    head = '@charset "%s";' % enc
    if has_rule and not d.startswith(head):
        return ("output does not begin with the @charset rule naming the encoding", "%s: %r" % (enc, d[:40]))
    if not has_rule and d.startswith("@charset"):
        return ("output of a sheet without an @charset rule begins with one", d[:40])
    m1 = extract(sh)
    if [r for r in m1 if r["type"] != 2] != m_rules:
        return ("an encoding assignment changed the other rules", "")
    if codec_kind(enc) != "reparse":
        return None
    try:
        det = _codec3.detectencoding_str(b, True)[0]
        if norm_enc(det) != norm_enc(enc):
            return ("parsing the bytes back detects another encoding", "%s detected as %s" % (enc, det))
        m2 = extract(cp.parseString(b))
    except Exception as ex:  # noqa
        return ("re-parsing the encoded bytes raised %s" % type(ex).__name__, "%s: %s" % (enc, str(ex)[:100]))
    if has_rule and (not m2 or m2[0].get("encoding") is None or norm_enc(m2[0]["encoding"]) != norm_enc(enc)):
        return ("re-parsed sheet does not carry the encoding", "%s: %r" % (enc, m2[:1]))
    if [r for r in m2 if r["type"] != 2] != m_rules:
        return ("re-parsed object model differs", "%s: %s" % (enc, json.dumps([m_rules, m2], ensure_ascii=True)[:300]))
    return None


def history_oracle(case):
    """case = (source, [assigned names (None = remove)], raise mode).  After EVERY assignment, accepted or refused,
    the property must hold for the encoding the sheet reports; a refused assignment changes nothing."""
    src, names, rx = case
    cp = quiet()
    try:
        sh = cp.parseString(src)
        m_rules = [r for r in extract(sh) if r["type"] != 2]
        cp.log.raiseExceptions = bool(rx)
        r = sheet_invariant(cp, sh, m_rules)
        if r:
            return ("SKIP", "initial sheet: " + r[0])
        for k, name in enumerate(names):
            before = sheet_state(sh)
            raised = None
            try:
                sh.encoding = name
            except Exception as ex:  # noqa
                raised = type(ex).__name__
            where = "after assignment %d (%r%s, raiseExceptions=%s)" % (k, name, " -> " + raised if raised else "", bool(rx))
            after = sheet_state(sh)
            if not name:       # None or '' (falsy): "removes charsetrule if present" (cssstylesheet._setEncoding)
                accepted = raised is None
                if accepted and (after[0] != "utf-8" or 2 in after[2]):
                    return ("a falsy encoding did not remove the @charset rule", where)
            else:
                try:
                    accepted = raised is None and codecs.lookup(after[0]).name == codecs.lookup(name).name \
                        and (before[0] != after[0] or codec_kind(name) is not None)
                except Exception:  # noqa
                    accepted = False
                if raised is None and rx and not accepted and codec_kind(name) is not None and isinstance(name, str) \
                        and re.fullmatch(r"[A-Za-z_][A-Za-z0-9_-]*", name):
                    return ("a usable encoding was silently not assigned", where)
            if accepted and name and codec_kind(name) is None:
                return ("an encoding the serializer cannot write was accepted", where)
            if not accepted and after != before:
                return ("a refused encoding assignment changed the sheet",
                        "%s: encoding %r -> %r, cssText %s" % (where, before[0], after[0],
                                                              "unchanged" if before[1] == after[1] else
                                                              "%r -> %r" % (before[1][:40], after[1][:40])))
            r = sheet_invariant(cp, sh, m_rules)
            if r:
                return (r[0], where + ": " + r[1])
        return None
    finally:
        cp.log.raiseExceptions = False


def history_safe(case):
    try:
        return history_oracle(case)
    except Exception as ex:  # noqa
        import traceback
        return ("history oracle crashed: %r" % (ex,), traceback.format_exc()[-300:])


HIST_SHEETS = ["a{x:1}", '@charset "latin-1"; a{x:1}', '@charset "ascii";\n/*\xe9*/ #gr\xf6\xdfe{content:"x€ y"}',
               '/* c\xe4 € */ a.b€{content:"\xe4";background:url(b\xe4.png)} @\xe9 x;', "",
               '@charset "utf-8"; @import "\xe9"; a{x:1}', '@charset "koi8-r";', "/*c*/"]


def odd_case(rng, n):
    return "".join(c.upper() if rng.random() < 0.5 else c.lower() for c in n).replace("_", rng.choice("_-"))


def gen_histories(rng, n_random):
    names = all_codec_names()
    out = []
    # exhaustive part: every known name (and every odd one), once as the only assignment and once after a good
    # one, on a sheet with and without an @charset rule, in both modes
    for nm in names + ODD_NAMES:
        for src in HIST_SHEETS[:3]:
            for rx in (1, 0):
                out.append((src, [nm], rx))
        out.append((HIST_SHEETS[3], ["koi8-r", nm, "ascii"], 1))
    n_exh = len(out)
    for _ in range(n_random):
        k = rng.randint(1, 4)
        seq = []
        for _ in range(k):
            r = rng.random()
            if r < 0.55:
                nm = rng.choice(names)
                if rng.random() < 0.4:
                    nm = odd_case(rng, nm)
            elif r < 0.8:
                nm = rng.choice(QUICK_CODECS + BOM_FAMILY)
            elif r < 0.93:
                nm = rng.choice(ODD_NAMES)
            else:
                nm = None
            seq.append(nm)
        out.append((rng.choice(HIST_SHEETS), seq, rng.choice([1, 1, 0])))
    return out, n_exh


# ----------------------------------------------------------------------------- codec hypotheses
def codec_facts(e):
    """validate the Section hypotheses for codec e over ALL code points; returns a dict"""
    bom = "".encode(e)
    bad, nenc, asc_ok, transparent = [], 0, True, (bom == b"")
    for c in range(0x110000):
        ch = chr(c)
        try:
            b = ch.encode(e)
        except UnicodeEncodeError:
            if c < 128:
                asc_ok = False
            continue
        if not b.startswith(bom) or len(b) == len(bom):
            bad.append(c)
            continue
        nenc += 1
        try:
            good = b.decode(e) == ch
        except UnicodeError:
            good = False
        if not good:
            bad.append(c)
            if c < 128:
                asc_ok = False
        if c < 128 and b[len(bom):] != bytes([c]):
            transparent = False
    # characterisation of `good`: what each excluded character is encoded to and what those bytes decode to
    bad_detail = []
    for c in bad[:64]:
        b = chr(c).encode(e)
        try:
            back = " ".join("U+%04X" % ord(x) for x in b.decode(e))
        except UnicodeError:
            back = "UnicodeDecodeError"
        bad_detail.append("U+%04X -> %s -> %s" % (c, b[len(bom):].hex(), back))
    return {"codec": e, "bom": list(bom), "encodable": nenc, "bad": bad, "ascii_ok": asc_ok,
            "transparent": transparent, "bad_detail": bad_detail, "family": codec_family(e)}


FAMILY_NAMES = {"FSig": "utf-8-sig", "F16": "utf-16", "F16B": "utf-16", "F32": "utf-32", "F32B": "utf-32",
                "F16LE": "utf-16-le", "F16BE": "utf-16-be", "F32LE": "utf-32-le", "F32BE": "utf-32-be"}


def codec_family(e):
    """the hypothesis family_ok of EscapeEncDetect.v, decided from how the codec writes its BOM, '@' and 'c';
    None = no family (then encoded_reparse_detects says nothing about it).  For the non-@charset families the
    family's name must denote the same Python codec as e."""
    bom = "".encode(e)
    at, cc = "@".encode(e)[len(bom):], "c".encode(e)[len(bom):]
    fam = None
    if bom == b"" and all(chr(c).encode(e) == bytes([c]) for c in range(128)):
        return "FCharset"
    if bom == b"\xef\xbb\xbf":
        fam = "FSig"
    elif bom == b"\xff\xfe" and at == b"@\x00":
        fam = "F16"
    elif bom == b"\xfe\xff":
        fam = "F16B"
    elif bom == b"\xff\xfe\x00\x00":
        fam = "F32"
    elif bom == b"\x00\x00\xfe\xff":
        fam = "F32B"
    elif bom == b"" and at == b"@\x00" and cc == b"c\x00":
        fam = "F16LE"
    elif bom == b"" and at == b"\x00@":
        fam = "F16BE"
    elif bom == b"" and at == b"@\x00\x00\x00":
        fam = "F32LE"
    elif bom == b"" and at == b"\x00\x00\x00@":
        fam = "F32BE"
    if fam and codecs.lookup(FAMILY_NAMES[fam]).name != codecs.lookup(e).name:
        return None
    return fam


def codec_text_check(args):
    """dec_enc_text on whole texts: str.encode is the BOM followed by the per-character encodings, and decodes back"""
    e, texts = args
    bom = "".encode(e)
    n = 0
    for t in texts:
        try:
            parts = [ch.encode(e)[len(bom):] for ch in t]
        except UnicodeEncodeError:
            continue
        n += 1
        b = t.encode(e)
        if b != bom + b"".join(parts):
            return (e, t, "encode is not character-wise")
        if b.decode(e) != t:
            return (e, t, "decode(encode(text)) != text")
    return (e, None, n)


def transparent_codecs():
    """every codec Python lists that is ASCII transparent and stateless (thorough tier)"""
    import encodings.aliases
    out = []
    for e in sorted(set(encodings.aliases.aliases.values()) | {"utf_8_sig"}):
        try:
            ci = codecs.lookup(e)
            if not ci._is_text_encoding:
                continue
            bom = "".encode(e)
            if bom:
                continue
            if all(chr(c).encode(e) == bytes([c]) and bytes([c]).decode(e) == chr(c) for c in range(128)) \
                    and "a\\E9 b;".encode(e) == b"a\\E9 b;":
                out.append(e)
        except Exception:  # noqa
            continue
    return out


# ----------------------------------------------------------------------------- model adapters
HEXCH = "0123456789ABCDEFabcdef\\ "


def table_for(text, e):
    bom = "".encode(e)
    ent = []
    for ch in sorted(set(text) | set(HEXCH)):
        try:
            b = ch.encode(e)[len(bom):]
            ent.append("%d=%s" % (ord(ch), ".".join(str(x) for x in b)))
        except UnicodeEncodeError:
            ent.append("%d=-" % ord(ch))
    return (",".join(str(x) for x in bom) or "-"), ",".join(ent)


def cpl(t, sep=","):
    return sep.join(str(ord(c)) for c in t) or "-"


def uncpl(x, sep=","):
    return "" if x in ("-", "") else "".join(chr(int(v)) for v in x.split(sep))


def impl_encode(case):
    """(text, e) -> [bytes list | None, decoded | None, resolved-by-the-tokenizer | None]"""
    text, e = case
    import css_parser.serialize  # registers the handler  # noqa
    from css_parser.tokenize2 import Tokenizer
    try:
        b = text.encode(e, "escapecss")
    except Exception as ex:  # noqa
        return ["EXC " + type(ex).__name__, None, None]
    try:
        d = b.decode(e)
    except UnicodeError:
        return [list(b), None, None]
    res = None
    if "*/" not in d and not d.endswith("*") and not d.startswith("*"):
        toks = list(Tokenizer().tokenize("/*" + d + "*/"))
        if len(toks) == 1 and toks[0][0] == "COMMENT":
            res = toks[0][1][2:-2]
    return [list(b), d, res]


def impl_tokens(case):
    text, e = case
    import css_parser.serialize  # noqa
    from css_parser.tokenize2 import Tokenizer
    try:
        d = text.encode(e, "escapecss").decode(e)
        return [[t[0], t[1]] for t in Tokenizer().tokenize(d, fullsheet=True)]
    except Exception as ex:  # noqa
        return ["EXC", type(ex).__name__]


def impl_handler(c):
    import css_parser.serialize as S
    ch = chr(c)
    r, end = S._escapecss(UnicodeEncodeError("x", "a" + ch + "b", 1, 2, "r"))
    return r if end == 2 else "BAD-END"


def impl_sheet(case):
    """(rule sources, encoding or None) -> [get_encoding, text, model rule list]; the model gets each rule's own
    cssText, so the comparison is about the join, the @charset text, lower-casing and the default"""
    srcs, e = case
    cp = quiet()
    try:
        sh = cp.parseString("".join(srcs))
        if e is not None:
            sh.encoding = e
        rules = []
        for r in sh.cssRules:
            if r.type == r.CHARSET_RULE:
                rules.append("C." + cpl(r.encoding, "."))
            elif r.cssText:
                rules.append("O." + cpl(r.cssText, "."))
        pre_rules = []
        sh0 = cp.parseString("".join(srcs))
        for r in sh0.cssRules:
            if r.type == r.CHARSET_RULE:
                pre_rules.append("C." + cpl(r.encoding, "."))
            elif r.cssText:
                pre_rules.append("O." + cpl(r.cssText, "."))
        return [sh.encoding, sh.cssText.decode(sh.encoding), pre_rules]
    except Exception as ex:  # noqa
        return ["EXC", type(ex).__name__ + ": " + str(ex)[:100], []]


IDENT_NAME = re.compile(r"-?[A-Za-z_][A-Za-z0-9_-]*\Z")


def usable_name(name):
    """independent statement of which names the charset rule's setter must accept: an identifier naming a codec
    with which the serializer can write the rule"""
    return bool(name) and bool(IDENT_NAME.match(name)) and codec_kind(name) is not None


def impl_history(case):
    """(source, names, raise mode) -> [final encoding, final decoded text, initial rules in wire form]"""
    src, names, rx = case
    cp = quiet()
    try:
        sh = cp.parseString(src)
        rules = []
        for r in sh.cssRules:
            if r.type == r.CHARSET_RULE:
                rules.append("C." + cpl(r.encoding, "."))
            elif r.cssText:
                rules.append("O." + cpl(r.cssText, "."))
        cp.log.raiseExceptions = bool(rx)
        for n in names:
            try:
                sh.encoding = n
            except Exception:  # noqa
                pass
        return [sh.encoding, sh.cssText.decode(sh.encoding), rules]
    except Exception as ex:  # noqa
        return ["EXC", type(ex).__name__ + ": " + str(ex)[:100], []]
    finally:
        cp.log.raiseExceptions = False


def impl_detect(b):
    from css_parser import _codec3
    return list(_codec3.detectencoding_str(bytes(b), True))


# ----------------------------------------------------------------------------- generators
def gen_sheets(rng, n_random):
    """(position, source) list: every position x planted character x follow (exhaustive part), then random
    sheets with several planted positions"""
    out = []
    for name, tpl, follows in POSITIONS:
        for ch in PLANT:
            for f in follows:
                out.append((name, tpl % (ch + f)))
        for ch in WS_PLANT:                      # the white-space class at every position, alone and before a letter
            if ch not in PLANT:
                for f in follows[:2]:
                    out.append((name, tpl % (ch + f)))
    n_exh = len(out)
    for _ in range(n_random):
        k = rng.randint(1, 4)
        parts = []
        for _ in range(k):
            name, tpl, follows = rng.choice(POSITIONS)
            x = "".join(rng.choice(PLANT + WS_PLANT) + rng.choice(follows) for _ in range(rng.randint(1, 2)))
            if x[-1:] in " \n\t;" and name not in ("comment", "comment-in-rule"):
                x = x.rstrip(" \n\t;") or rng.choice(PLANT)
            parts.append(tpl % x)
        # @import / @namespace must precede other rules
        parts.sort(key=lambda p: 0 if p.startswith("@import") else 1 if p.startswith("@namespace") else 2)
        out.append(("random", "\n".join(parts)))
    return out, n_exh


ENC_ALPHA = PLANT + list("aF09g \n;\"'\\-{}@:/*.#(") + ["\\E9 ", "\\", "\r", "\f", "\t", "\x7f", "\x00"]


def gen_texts(rng, n):
    out = [c for c in PLANT] + [c + f for c in PLANT[:6] for f in FOLLOW]
    for _ in range(n):
        out.append("".join(rng.choice(ENC_ALPHA) for _ in range(rng.randint(1, 14))))
    return out


def gen_tok_texts(rng, n):
    out = []
    for name, tpl, follows in POSITIONS:
        for ch in PLANT[:8]:
            out.append(tpl % (ch + rng.choice(follows)))
    for _ in range(n):
        name, tpl, follows = rng.choice(POSITIONS)
        out.append(tpl % "".join(rng.choice(PLANT) + rng.choice(FOLLOW) for _ in range(rng.randint(1, 3))))
    return out


SHEET_RULES = ["a{x:1}", "/*c*/", '@import "i";', "@media all{a{x:1}}", "@x y;", "b{y:2}", '@charset "koi8-r";',
               '@charset "ascii";', "\xe9{x:1}"]
ENC_NAMES = ["ascii", "ASCII", "Latin-1", "UTF-8", "utf-16", "KOI8-R", "cp1252", "utf-8-sig", "Shift_JIS", "gbk",
             "UTF-32-BE", "utf_16_le", "iso8859-15", "mac-roman", "big5"]


def gen_sheet_cases(rng, n):
    out = [([], None), ([], "ascii"), (["a{x:1}"], None), (['@charset "ascii";', "a{x:1}"], None)]
    for _ in range(n):
        k = rng.randint(0, 4)
        rules = [rng.choice(SHEET_RULES) for _ in range(k)]
        cs = [r for r in rules if r.startswith("@charset")][:1]
        im = [r for r in rules if r.startswith("@import")]
        rest = [r for r in rules if not r.startswith("@charset") and not r.startswith("@import")]
        out.append((cs + im + rest, rng.choice(ENC_NAMES + [None])))
    return out


# ----------------------------------------------------------------------------- the check
def run(ctx):
    thorough = ctx.tier == "thorough"
    rng = ctx.rng
    P = 6
    ctx.regen("tokenizer", "quote", "escapeenc")
    ctx.coq_build("props/C13.v")
    binary = ctx.ocaml_build("escapeenc")

    codecs_used = list(QUICK_CODECS)
    if thorough:
        for e in transparent_codecs() + BOM_FAMILY:
            if norm_enc(e) not in [norm_enc(x) for x in codecs_used if x != "utf-8-sig"] or e == "utf-8-sig":
                if e not in codecs_used and codecs.lookup(e).name not in [codecs.lookup(x).name for x in codecs_used]:
                    codecs_used.append(e)

    # ---- Section hypotheses, per codec, all code points
    facts = {f["codec"]: f for f in ctx.pool_map(codec_facts, codecs_used, procs=P, chunksize=1)}
    hyp_texts = ["".join(chr(rng.choice([rng.randint(0, 127), rng.randint(128, 0x2fff), rng.randint(0x3000, 0xffff),
                                          rng.randint(0x10000, 0x10ffff)])) for _ in range(rng.randint(1, 8)))
                 for _ in range(3000 if thorough else 600)]
    dropped = []
    for e in list(codecs_used):
        f = facts[e]
        bad = set(f["bad"])
        texts = [t for t in hyp_texts if not (set(map(ord, t)) & bad)]
        pure = [t for t in ("".join(chr(c) for c in range(32, 127)), "\\E9 \\10FFFF ", "@charset \"x\";")]
        r = codec_text_check((e, texts + pure))
        problem = None
        if not f["ascii_ok"]:
            problem = "an ASCII character is not encodable / does not decode back"
        elif r[1] is not None:
            problem = "%s on %r" % (r[2], r[1])
        elif e not in BOM_FAMILY and not f["transparent"]:
            problem = "not ASCII transparent"
        elif f["family"] is None:
            problem = "belongs to no detection family of EscapeEncDetect.family_ok"
        if problem:
            if e in QUICK_CODECS:
                ctx.broken("hypothesis", "codec %s" % e, problem)
            codecs_used.remove(e)
            dropped.append([e, problem])
    bad_chars = {e: set(facts[e]["bad"]) for e in codecs_used}

    # ---- model vs implementation
    mism = []
    n_model = 0
    if binary:
        # (a) the handler's text
        cps = sorted(set(list(range(0, 0x110000, 1 if thorough else 257)) + [0, 9, 10, 15, 16, 127, 128, 255, 256, 0xfff,
                         0x1000, 0xffff, 0x10000, 0xfffff, 0x100000, 0x10ffff, 0xd800, 0xdfff] + [ord(c) for c in PLANT]))
        got = ctx.pool_map(impl_handler, cps, procs=P, chunksize=4096)
        out = ctx.run_binary(binary, ["H %d" % c for c in cps], shards=P)
        for c, g, o in zip(cps, got, out):
            n_model += 1
            if o == "NONE" or uncpl(o) != g:
                mism.append(("handler", c, g, o))
        # (b) encode / decode / resolve
        texts = gen_texts(rng, 2500 if thorough else 500)
        ecases = [(t, e) for e in codecs_used for t in (texts if e in QUICK_CODECS else texts[:150])]
        lines = []
        for t, e in ecases:
            bom, tb = table_for(t, e)
            lines.append("E %s %s %s" % (bom, tb, cpl(t)))
        impl = ctx.pool_map(impl_encode, ecases, procs=P, chunksize=256)
        out = ctx.run_binary(binary, lines, shards=P)
        for (t, e), i, o in zip(ecases, impl, out):
            n_model += 1
            parts = o.split("|")
            if len(parts) != 3:
                mism.append(("encode", t, e, i, o))
                continue
            mb, mu, mr = parts
            ib = "NONE" if not isinstance(i[0], list) else ",".join(map(str, i[0])) or "-"
            if mb != ib:
                mism.append(("encode bytes", t, e, ib[:80], mb[:80]))
            elif i[1] is not None and set(map(ord, t)) & bad_chars[e]:
                pass      # outside the hypothesis `good`: the codec does not decode this character back
            elif i[1] is None or uncpl(mu) != i[1]:
                mism.append(("decode", t, e, i[1], uncpl(mu)))
            elif i[2] is not None and uncpl(mr) != i[2]:
                mism.append(("resolve", t, e, i[2], uncpl(mr)))
            elif "\\" not in t and uncpl(mr) != t:
                mism.append(("escape_resolves instance", t, e, uncpl(mr)))
        # (c) tokens of the escaped text
        ttexts = gen_tok_texts(rng, 1500 if thorough else 300)
        tcases = [(t, e) for e in ("ascii", "latin-1", "koi8-r", "shift_jis") for t in ttexts]
        lines = []
        for t, e in tcases:
            bom, tb = table_for(t, e)
            lines.append("K %s %s %s" % (bom, tb, cpl(t)))
        impl = ctx.pool_map(impl_tokens, tcases, procs=P, chunksize=128)
        out = ctx.run_binary(binary, lines, shards=P)
        for (t, e), i, o in zip(tcases, impl, out):
            n_model += 1
            if set(map(ord, t)) & bad_chars[e]:
                continue
            m = None if o == "NONE" else [[uncpl(x.split(":")[0], "."), uncpl(x.split(":")[1], ".")] for x in o.split(";")]
            if m != i:
                mism.append(("tokens", t, e, i, m))
        # (d) @charset detection, (e) the sheet
        scases = gen_sheet_cases(rng, 600 if thorough else 200)
        simpl = ctx.pool_map(impl_sheet, scases, procs=P, chunksize=64)
        lines, keep = [], []
        for c, i in zip(scases, simpl):
            if i[0] == "EXC":
                mism.append(("sheet", c, i))
                continue
            keep.append((c, i))
            lines.append("S %s %s" % (cpl(c[1]) if c[1] else "-", ";".join(i[2]) or "-"))
        out = ctx.run_binary(binary, lines, shards=1) if lines else []
        dl = []
        for (c, i), o in zip(keep, out):
            n_model += 1
            me, mt = o.split("|")
            if uncpl(me) != i[0] or expected_escaped(uncpl(mt), i[0]) != i[1]:
                mism.append(("sheet", c, i[:2], uncpl(me), uncpl(mt)))
            dl.append(i[1].encode("ascii", "backslashreplace"))
        dl += [b'@charset "x', b'@charset "', b"@charset 'a';", b'@charset "";x', b"a{}", b"", b'@charset  "a";']
        dout = ctx.run_binary(binary, ["D " + (",".join(str(x) for x in b) or "-") for b in dl], shards=1)
        for b, o in zip(dl, dout):
            n_model += 1
            r = impl_detect(b)
            exp = [uncpl(o), True] if o != "NONE" else ["utf-8", False]
            if r != exp:
                mism.append(("detect", b.decode("latin-1"), r, o))
    hists, n_hexh = gen_histories(rng, 6000 if thorough else 800)
    if binary:
        # (f) histories of encoding assignments: final encoding and text
        himpl = ctx.pool_map(impl_history, hists, procs=P, chunksize=64)
        lines, keep = [], []
        for c, i in zip(hists, himpl):
            if i[0] == "EXC":
                mism.append(("history", c, i[:2]))
                continue
            ops = ";".join("0" if not n else ("+" if usable_name(n) else "-") + cpl(n, ".").replace("-", "")
                           for n in c[1]) or "-"
            keep.append((c, i))
            lines.append("A %s %s" % (";".join(i[2]) or "-", ops))
        out = ctx.run_binary(binary, lines, shards=P) if lines else []
        for (c, i), o in zip(keep, out):
            n_model += 1
            try:
                me, mt = o.split("|")
                ok = uncpl(me) == i[0] and expected_escaped(uncpl(mt), i[0]) == i[1]
            except Exception:  # noqa
                ok = False
            if not ok:
                mism.append(("history", c, i[:2], o[:200]))
    if mism:
        ctx.broken("correspondence", "EscapeEnc model vs implementation",
                   "%d of %d cases differ; first: %s" % (len(mism), n_model, json.dumps(mism[:3], default=str)[:1500]))

    # ---- property-level oracle on the implementation
    corpus = json.loads((VERIF / "corpus/C13.json").read_text()) if (VERIF / "corpus/C13.json").exists() else []
    sheets, n_exh = gen_sheets(rng, 1500 if thorough else 250)
    cases = [(c["src"], c["encoding"]) for c in corpus if "encoding" in c]
    for k, e in enumerate(codecs_used):
        if thorough:
            pool = sheets if e in QUICK_CODECS else sheets[k % 9::9]
        else:   # quick: everything under ascii, a rotating eighth of the exhaustive part + the random sheets elsewhere
            pool = sheets if e == "ascii" else sheets[k % 8:n_exh:8] + sheets[n_exh:]
        for name, srcx in pool:
            cases.append((srcx, e))
    res = ctx.pool_map(oracle_safe, cases, procs=P, chunksize=64)
    skipped_bad, nontrivial, not_stable = 0, set(), set()
    for (srcx, e), r in zip(cases, res):
        if set(map(ord, srcx)) & bad_chars.get(e, set()):
            skipped_bad += 1        # the codec itself does not decode this character back (outside `good`)
            continue
        try:
            srcx.encode(e)
        except UnicodeEncodeError:
            nontrivial.add((srcx, e))
        if r and r[0] == "SKIP":
            not_stable.add(srcx)
        elif r:
            ctx.violation(r[0], {"src": srcx, "encoding": e, "detail": r[1]}, sig_text=r[1])
    hcorpus = [(c["src"], c["history"], c.get("raise", 1)) for c in corpus if "history" in c]
    hres = ctx.pool_map(history_safe, hcorpus + hists, procs=P, chunksize=64)
    hist_skipped = 0
    for c, r in zip(hcorpus + hists, hres):
        if r and r[0] == "SKIP":
            hist_skipped += 1
        elif r:
            ctx.violation(r[0], {"src": c[0], "history": c[1], "raise": c[2], "detail": r[1]}, sig_text=r[1])
    # known findings: re-run the stored witnesses
    for f in ctx.findings:
        if f.get("status") == "open":
            w = f["witness"]
            r = oracle_safe((w["src"], w["encoding"]))
            if r and r[0] != "SKIP":
                ctx.violation(r[0], {"src": w["src"], "encoding": w["encoding"], "detail": r[1]}, sig_text=r[1])

    def search():
        t0 = time.time()
        best = None
        while time.time() - t0 < (300 if thorough else 60) and best is None:
            sh, _ = gen_sheets(rng, 300)
            batch = [(s_, rng.choice(codecs_used or QUICK_CODECS)) for _, s_ in sh[-300:]] + \
                    [(s_, e) for _, s_ in rng.sample(sh[:-300], 150) for e in ("ascii", "koi8-r")]
            out = ctx.pool_map(oracle_safe, batch, procs=P, chunksize=32)
            for (s_, e), r in zip(batch, out):
                if r and r[0] != "SKIP" and not ctx.match_known(r[0] + " :: " + r[1]) and not (set(map(ord, s_)) & bad_chars.get(e, set())):
                    best = (s_, e, r)
                    break
        if best is None:
            hs, _ = gen_histories(rng, 1500)
            out = ctx.pool_map(history_safe, hs, procs=P, chunksize=64)
            for c, r in zip(hs, out):
                if r and r[0] != "SKIP" and not ctx.match_known(r[0] + " :: " + r[1]):
                    names = list(c[1])

                    def hfails(cand):
                        rr = history_safe((c[0], list(cand), c[2]))
                        return bool(rr) and rr[0] == r[0]
                    from harness.lib import shrink_seq as _sh
                    names = _sh(names, hfails) or names
                    return {"src": c[0], "history": list(names), "raise": c[2], "fails": r[0],
                            "detail": (history_safe((c[0], list(names), c[2])) or r)[1]}
            return None
        s_, e, r = best
        from harness.lib import shrink_seq

        def fails(cand):
            c = "".join(cand)
            rr = oracle_safe((c, e))
            return bool(rr) and rr[0] == r[0] and not ctx.match_known(rr[0] + " :: " + rr[1])
        small = "".join(shrink_seq(list(s_), fails))
        return {"src": small, "encoding": e, "fails": r[0], "detail": (oracle_safe((small, e)) or r)[1]}

    ctx.finish({
        "evaluations": len(cases) + n_model + len(hists),
        "distinct_nontrivial": len(nontrivial),
        "rule": "end-to-end: %d position templates x (%d planted characters x the follow strings of each position + the %d "
                "characters Python treats as white space / line breaks x 2 follows) "
                "(%d sheets, exhaustive part) + random sheets with 1-4 planted positions, each x %d codecs; "
                "non-trivial = (sheet, codec) pairs in which at least one planted character is not encodable, "
                "i.e. the escape path runs; model correspondence: handler text per code point, "
                "encode/decode/resolve of random texts per codec, tokens of escaped sheets, sheet text + detection"
                % (len(POSITIONS), len(PLANT), len(WS_PLANT), n_exh, len(codecs_used)),
        "samples": [list(c) for c in cases[len(corpus) + 7:len(corpus) + 10]] + [list(cases[-1])] + [list(hists[5]), list(hists[-1])],
        "history_cases": len(hists),
        "history_rule": "every codec name the interpreter knows (%d: text, non-text, special) + %d odd / invalid names, each "
                        "as the only assignment on a sheet without and with an @charset rule in both raiseExceptions modes "
                        "and between two good assignments (%d histories, exhaustive part), + random histories of 1-4 "
                        "assignments (odd-case aliases, None); after every assignment: refused => encoding and bytes "
                        "unchanged; bytes decode under sheet.encoding, matching @charset first, re-parse to the same model"
                        % (len(all_codec_names()), len(ODD_NAMES), n_hexh),
        "history_skipped_initial_sheet": hist_skipped,
        "disagreements_checked": n_model,
        "oracle_cases": len(cases),
        "model_cases": n_model,
        "codecs": codecs_used,
        "codecs_dropped": dropped,
        "codec_nonroundtrip_chars": {e: ["U+%04X" % c for c in sorted(b)[:12]] for e, b in bad_chars.items() if b},
        "good_predicate": "good c = the codec decodes its own encoding of c back to c; complement, complete per codec "
                          "(character -> bytes written -> what they decode to): "
                          + json.dumps({e: facts[e]["bad_detail"] for e in codecs_used if facts[e]["bad"]}),
        "codec_families": {e: facts[e]["family"] for e in codecs_used},
        "cases_skipped_nonroundtrip_char": skipped_bad,
        "sheets_skipped_not_text_stable": len(not_stable),
        "sheets_skipped_not_text_stable_samples": sorted(not_stable)[:8],
        "trusted_base": TRUSTED,
    }, assumptions=ASSUME, search=search)


def replay(ctx, path):
    rep = json.loads(open(path).read())
    bad = 0
    for v in rep.get("violations", []):
        w = v["witness"]
        if "history" in w:
            r = history_safe((w["src"], w["history"], w.get("raise", 1)))
            print("replay %r history %r raise=%s -> %s" % (w["src"], w["history"], w.get("raise", 1),
                                                            (r[0] + " :: " + r[1]) if r else "holds"))
            bad += bool(r) and r[0] != "SKIP"
            continue
        r = oracle_safe((w["src"], w["encoding"]))
        print("replay %r under %s -> %s" % (w["src"], w["encoding"], (r[0] + " :: " + r[1]) if r else "holds"))
        bad += bool(r) and r[0] != "SKIP"
    return 1 if bad else 0


TRUSTED = [
    "Coq 8.16.1 kernel and VM (vm_compute in the closed examples); no native_compute",
    "translate/escapeenc.py (AST shape of _escapecss, register_error, do_CSSStyleSheet, do_CSSCharsetRule, "
    "helper.string, the codec's prefix) and translate/tokenizer.py + regexlib.py (escape regex, resolved-type list)",
    "Section hypotheses about a codec (dec_enc_text_hyp, ascii_encodable_hyp, ascii_transparent_hyp, family_ok): CPython's "
    "codecs are not modelled; validated here for every codec used over all 0x110000 code points and random texts",
    "extraction (ExtrOcamlBasic) + ocamlfind ocamlopt, ocaml/escapeenc_driver.ml",
    "correspondence harness harness/props/c13.py (generators, the object-model extractor, comparisons)",
    "CPython 3.12 str.encode error-handler protocol (the handler's replacement text is encoded by the codec itself), "
    "hex(), str.upper() as the semantics being modelled",
    "modelled, not verified: EscapeEnc.v is a hand-written transcription of serialize.py:27-39, 396-419, "
    "cssstylesheet.py:386-414 and the CHARSET branch of _codec3.detectencoding_str; BOM / UTF-16/32 detection and the "
    "parser above the tokenizer are covered by the end-to-end oracle only",
]
ASSUME = [
    "Print Assumptions for every theorem of props/C13.v: see coverage.print_assumptions (all closed)",
    "escape_resolves is stated for texts without a literal backslash (the serializer's own escapes are C10's subject); "
    "the end-to-end oracle has no such restriction",
    "re-parsed @charset of a utf-8-sig sheet reads utf-8: the css codec rewrites the name on purpose (_fixencoding), "
    "compared up to that documented normalisation and up to Python codec aliases",
    "characters a CPython codec encodes but does not decode back (U+00A5/U+203E in shift_jis, ...) are outside the "
    "quantifier (hypothesis `good`); listed in coverage.codec_nonroundtrip_chars",
    "default serializer preferences (lineNumbers=False)",
]
