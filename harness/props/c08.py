"""C08 -- tokenizing is total, lossless and reports true source positions.

proof:          coq/props/C08.v  (tokenize_total, tokenize_partition, tokenize_partition_full,
                tokenize_positions, raw_is_val) over the model coq/theories/Tokenizer.v
tie:            translate/tokenizer.py regenerates productions + tables from the source;
                the hand-written loop is compared with Tokenizer.tokenize on every case below
oracle/search:  the three statements evaluated directly on the implementation's token lists
"""
import itertools
import json
import time

from harness.lib import cps

ALPHABET = ["a", "n", "d", "u", "r", "l", "-", "_", "0", "5", ".", "\\", '"', "'", "/", "*", "(", ")", "@", "+",
            " ", "\n", "\r", "\f", "{", ";", "#", "%", "!", "\xe9", "﻿", "=", "~", "<", ">", "?", "\t", "A",
            "\xef", "\xbb", "\xbf", "\xfe", "\xff", "K"]
SMALL = ["a", "-", "0", ".", "\\", '"', "'", "/", "*", "(", ")", "@", "u", "+", " ", "\n", "\r", "\f", "\xe9",
         ";", "#", "%", "l", "r"]
SNIPPETS = ["@charset ", "@charset", "url(", "URL(", "u\\rl(", "/*", "*/", "and(", "and", "\\41 ", "\\000041", "\\\n",
            "\\110000 ", "\\g", "@import", "@IM\\port", "@media", "U+0-7F", "U+2??", "1/2)", "(1/2)", "<!--", "-->",
            "~=", "|=", "^=", "$=", "*=", "1.5em", "+.5%", "-0", "#fff", "!important", "\xef\xbb\xbf", "\xfe\xff",
            "'a\\'b'", '"x', "'y", "\r\n", "url(x)", "url( 'x' )", 'url("x', "url('y", "url(z", "@font-face", "@page",
            "@namespace", "@variables", "progid:DXImageTransform.Microsoft.x(", "a:b(", "\\", "\\\\", "e3", "1e3",
            "@\\6d\nedia", "@\\69\nmport x", "@\\78\ny", "(16\n/\n9)", "16 / 9)", "\\41\n", "\\41\r\n", "a\\\nb", "#\\31\n2",
            "1\\65\nm", "url(http://example.com/static/images/header background.png)", "url(aaaaaaaaaaaaaaaaaaaaaaaaaaaaaa b)",
            "/* a\n b\n c */", "/*\n*/", "u\\72\nl(x)", "'\\\n'", "\"a\\\r\nb\""]

COMPLETIONS = ["", "*/", '"', "'", "')", '")', ")"]


BUDGET_S = 5      # wall-clock seconds per text, enforced by lib.budget_map (texts are <= 60 characters;
                  # the unchanged tree needs milliseconds)


def impl_tokens(case):
    dc, fs, text = case
    from css_parser.tokenize2 import Tokenizer
    try:
        return [list(t) for t in Tokenizer(doComments=bool(dc)).tokenize(text, fullsheet=bool(fs))]
    except Exception as e:  # noqa
        return ["EXC", type(e).__name__, str(e)[:200]]


def _overrun(case):
    return ["EXC", "TimeBudget", "tokenizer did not finish within %d s" % BUDGET_S]


def impl_interleaved(case):
    """two texts tokenized by ONE Tokenizer object, generators advanced in lockstep (the object model does this:
    CSSStyleSheet.cssText and the rules it builds share util.Base's tokenizer), then a third, sequential use.
    Returns the three token lists; each must equal what a fresh tokenizer gives for the text alone."""
    fs, t1, t2 = case
    from css_parser.tokenize2 import Tokenizer
    try:
        tk = Tokenizer()
        g1, g2 = tk.tokenize(t1, fullsheet=bool(fs)), tk.tokenize(t2, fullsheet=bool(fs))
        o1, o2, d1, d2 = [], [], False, False
        while not (d1 and d2):
            if not d1:
                try:
                    o1.append(list(next(g1)))
                except StopIteration:
                    d1 = True
            if not d2:
                try:
                    o2.append(list(next(g2)))
                except StopIteration:
                    d2 = True
        o3 = [list(t) for t in tk.tokenize(t1, fullsheet=bool(fs))]
        return [o1, o2, o3]
    except Exception as e:  # noqa
        return ["EXC", type(e).__name__, str(e)[:200]]


def model_tokens(line):
    if line == "NONE":
        return None
    out = []
    for t in (line.split(";") if line else []):
        ty, val, raw, l, c = t.split("|")
        f = lambda x: "".join(chr(int(v)) for v in x.split(",") if v)  # noqa
        out.append([f(ty), f(val), f(raw), int(l), int(c)])
    return out


def pos_after(line, col, text):
    for ch in text:
        if ch == "\n":
            line, col = line + 1, 1
        else:
            col += 1
    return line, col


def oracle(dc, fs, text, toks):
    """the property's statements evaluated on the implementation's tokens; returns None or a description.
    Only for escape-free text (no backslash), where token values are the raw matches."""
    if toks and toks[0] == "EXC":
        return "tokenizer raised %s: %s" % (toks[1], toks[2])
    if not dc:
        ref = impl_tokens((1, fs, text))
        if ref and ref[0] == "EXC":
            return None
        want = [t for t in ref if t[0] != "COMMENT"]
        if fs and len(ref) >= 2 and ref[-2][0] == "COMMENT":
            # is the last comment one that full-sheet mode completed?  its source text runs from its reported
            # position to the end of the text; with doComments=False the code tokenizes that content (modelled as is)
            ln, col = ref[-2][2], ref[-2][3]
            lines_ = text.split("\n")
            off = sum(len(x) + 1 for x in lines_[:ln - 1]) + col - 1
            if text[0:1] in ("\xfe", "\xef") and ref[0][0] == "BOM" and ln == 1:
                off += len(ref[0][1])
            tail = text[off:]
            if not (len(tail) >= 4 and tail.endswith("*/")):
                return None
        if toks != want:
            for i, (a, b) in enumerate(itertools.zip_longest(toks, want)):
                if a != b:
                    return ("doComments=False: token %d is %r, the doComments=True stream without its comments has %r "
                            "(values and positions must not depend on the setting)" % (i, a, b))
        return None
    if "\\" in text:
        return None
    vals = "".join(t[1] for t in toks)
    if not fs:
        if vals != text:
            return "token values do not concatenate to the text"
    else:
        if not toks or toks[-1][0] != "EOF":
            return "full-sheet mode: last token is not EOF"
        if not any(vals == text + c for c in COMPLETIONS):
            return "full-sheet mode: values are not text + closing delimiter"
    # positions: a recognised leading BOM is zero width
    line, col = 1, 1
    completed = fs and vals == text + "*/"
    for i, t in enumerate(toks):
        if t[0] == "EOF" and completed:
            continue   # position of EOF after a completed comment: excluded from the statement (see DESIGN C08)
        if (t[2], t[3]) != (line, col):
            return "token %d %r reports %d:%d, starts at %d:%d" % (i, t[:2], t[2], t[3], line, col)
        if not (i == 0 and t[0] == "BOM"):
            line, col = pos_after(line, col, t[1])
    return None


def compare(case, impl, model):
    if impl and impl[0] == "EXC":
        return "implementation raised " + impl[1]
    if model is None:
        return "model is stuck (no production matches)"
    a = [[t[0], t[1], t[2], t[3]] for t in impl]
    b = [[t[0], t[1], t[3], t[4]] for t in model]
    if a != b:
        for i, (x, y) in enumerate(itertools.zip_longest(a, b)):
            if x != y:
                return "token %d: implementation %r, model %r" % (i, x, y)
    return None


def gen_cases(ctx, thorough):
    cases = []
    maxlen = 3
    for n in range(0, maxlen + 1):
        for tup in itertools.product(SMALL, repeat=n):
            t = "".join(tup)
            cases.append((1, 0, t))
            cases.append((1, 1, t))
    n_exh = len(cases)
    rng = ctx.rng
    nrand = 40000 if thorough else 6000
    for _ in range(nrand):
        k = rng.randint(1, 30)
        parts = []
        for _ in range(k):
            r = rng.random()
            if r < 0.45:
                parts.append(rng.choice(SNIPPETS))
            else:
                parts.append(rng.choice(ALPHABET))
        t = "".join(parts)[:60]
        cases.append((rng.choice([1, 1, 1, 0]), rng.choice([0, 1]), t))
    if thorough:
        step = 1
        for cp in range(0, 0x110000, step):
            cases.append((1, rng.choice([0, 1]), chr(cp)))
        for tup in itertools.product(SMALL[:16], repeat=4):
            cases.append((1, 1, "".join(tup)))
    return cases, n_exh


def run(ctx):
    thorough = ctx.tier == "thorough"
    ctx.regen("tokenizer")
    b = ctx.coq_build("props/C08.v")
    binary = ctx.ocaml_build("tok")
    corpus = json.loads((ctx_path("corpus/C08.json")).read_text()) if ctx_path("corpus/C08.json").exists() else []
    cases, n_exh = gen_cases(ctx, thorough)
    cases = [tuple(c) for c in corpus] + cases
    from harness.lib import budget_map
    impl = budget_map(impl_tokens, cases, budget_s=BUDGET_S, procs=14, overrun=_overrun)
    mism, nontrivial, viol = [], set(), 0
    if binary:
        ok_idx = [k for k, i in enumerate(impl) if not (i and i[0] == "EXC" and i[1] == "TimeBudget")]
        lines = ["%d %d %s" % (cases[k][0], cases[k][1], cps(cases[k][2])) for k in ok_idx]
        out_ok = ctx.run_binary(binary, lines, shards=14)
        out = ["NONE"] * len(cases)
        for k, o in zip(ok_idx, out_ok):
            out[k] = o
        for case, i, o in zip(cases, impl, out):
            if i and i[0] == "EXC" and i[1] == "TimeBudget":
                continue
            m = model_tokens(o)
            d = compare(case, i, m)
            if d:
                mism.append((case, d))
            # positions with escapes: the implementation's values have escapes resolved, so the raw width
            # of each token is taken from the model (the two agree on types and values here) and the
            # statement "token k starts at advance (1,1) (raw of its predecessors)" is evaluated on the
            # IMPLEMENTATION's reported positions
            if (m is not None and case[0] and i and i[0] != "EXC" and len(i) == len(m)
                    and all(a[0] == b[0] and a[1] == b[1] for a, b in zip(i, m))):
                line, col = 1, 1
                completed = "".join(t[2] for t in m) == case[2] + "*/"
                for k, (ti, tm) in enumerate(zip(i, m)):
                    if ti[0] == "EOF" and completed:
                        continue
                    if (ti[2], ti[3]) != (line, col):
                        ctx.violation("token %d %r reports %d:%d, starts at %d:%d (text with escapes)" % (
                            k, ti[:2], ti[2], ti[3], line, col),
                            {"dc": case[0], "fullsheet": case[1], "text": case[2], "token": k, "expect": "positions_raw",
                             "raws": [t[2] for t in m]}, sig_text=json.dumps(case[2]))
                        break
                    if not (k == 0 and tm[0] == "BOM"):
                        line, col = pos_after(line, col, tm[2])
    for case, i in zip(cases, impl):
        if len(i) >= 2 and i[0] != "EXC":
            nontrivial.add(case[2])
        d = oracle(case[0], case[1], case[2], i)
        if d:
            ctx.violation(d, {"dc": case[0], "fullsheet": case[1], "text": case[2]},
                          sig_text=json.dumps(case[2]))
    # the model is a pure function of (doComments, fullsheet, text): validate that reading of the code by using one
    # Tokenizer object for interleaved and repeated tokenizations (positions and values must not depend on it)
    rng2 = ctx.rng
    multi = [c for c in cases if "\n" in c[2] and len(c[2]) > 4]
    pairs = []
    for _ in range(3000 if not thorough else 20000):
        a, b2 = rng2.choice(multi), rng2.choice(multi)
        pairs.append((rng2.choice([0, 1]), a[2], b2[2]))
    inter = budget_map(impl_interleaved, pairs, budget_s=2 * BUDGET_S, procs=14, overrun=_overrun)
    fresh = {}
    for (fs, t1, t2), r in zip(pairs, inter):
        if r and r[0] == "EXC":
            ctx.violation("tokenizer raised %s when one object tokenizes two texts in lockstep" % r[1],
                          {"dc": 1, "fullsheet": fs, "text": t1, "text2": t2, "expect": "interleaved"}, sig_text=json.dumps(t1))
            continue
        for t in (t1, t2):
            if (fs, t) not in fresh:
                fresh[(fs, t)] = impl_tokens((1, fs, t))
        if r[0] != fresh[(fs, t1)] or r[1] != fresh[(fs, t2)] or r[2] != fresh[(fs, t1)]:
            ctx.violation("tokens (values or positions) depend on other use of the same Tokenizer object "
                          "(two generators advanced in lockstep, then a sequential re-use)",
                          {"dc": 1, "fullsheet": fs, "text": t1, "text2": t2, "expect": "interleaved"}, sig_text=json.dumps(t1))
    if mism:
        ctx.broken("correspondence", "Tokenizer.tokenize vs CssV.Tokenizer.tokenize",
                   "%d of %d cases differ; first: %s" % (len(mism), len(cases), json.dumps(mism[:3])))
    # known finding replay: stored witnesses are re-run so that KNOWN-FINDING lines are printed
    for f in ctx.findings:
        if f.get("status") == "open":
            w = f["witness"]
            toks = impl_tokens((w["dc"], w["fullsheet"], w["text"]))
            d = oracle_ext(w, toks)
            if d:
                ctx.violation(d, w, sig_text=json.dumps(w["text"]))

    def search():
        t0 = time.time()
        rng = ctx.rng
        while time.time() - t0 < (300 if thorough else 60):
            batch = []
            for _ in range(4000):
                t = "".join(rng.choice(SNIPPETS) if rng.random() < 0.4 else rng.choice(ALPHABET)
                            for _ in range(rng.randint(1, 12))).replace("\\", "")
                batch.append((1, rng.choice([0, 1]), t))
            res = budget_map(impl_tokens, batch, budget_s=BUDGET_S, procs=14, overrun=_overrun)
            for case, i in zip(batch, res):
                d = oracle(case[0], case[1], case[2], i)
                if d and not ctx.match_known(d + " :: " + json.dumps(case[2])):
                    return {"dc": case[0], "fullsheet": case[1], "text": case[2], "fails": d}
        return None

    extra = {"coqchk": ctx.coqchk("props/C08.v")} if thorough and b.ok else {}
    ctx.finish({
        **extra,
        "evaluations": len(cases),
        "distinct_nontrivial": len(nontrivial),
        "rule": "all texts of length <= 3 over a %d-symbol alphabet in both modes (%d cases, exhaustive part), "
                "then random concatenations of lexeme snippets and alphabet symbols (<= 60 chars), doComments on/off; "
                "thorough adds every code point as a one-character text and length-4 texts; "
                "non-trivial = distinct texts whose token list has >= 2 tokens" % (len(SMALL), n_exh),
        "samples": [list(c) for c in cases[n_exh + 5:n_exh + 9]] + [list(cases[1000])],
        "disagreements_checked": len(cases) if binary else 0,
        "interleaved_pairs": len(pairs),
        "trusted_base": TRUSTED,
    }, assumptions=ASSUME, search=search)


def oracle_ext(w, toks):
    """oracle for stored witnesses (may carry their own expectation)"""
    if w.get("expect") == "bom_zero_width":
        # U+FEFF at the start of a str must count as zero width
        text = w["text"]
        body = text[1:]
        ref = impl_tokens((w["dc"], w["fullsheet"], body))
        got = [t for t in toks if t[0] != "BOM"]
        if [t[2:] for t in got] != [t[2:] for t in ref] or "".join(t[1] for t in got) != "".join(t[1] for t in ref):
            return "U+FEFF at the start of the text is not treated as a zero-width byte-order mark"
        return None
    if w.get("expect") == "interleaved":
        r = impl_interleaved((w["fullsheet"], w["text"], w["text2"]))
        f1, f2 = impl_tokens((1, w["fullsheet"], w["text"])), impl_tokens((1, w["fullsheet"], w["text2"]))
        if r and r[0] == "EXC":
            return "tokenizer raised " + r[1]
        if r[0] != f1 or r[1] != f2 or r[2] != f1:
            return "tokens depend on other use of the same Tokenizer object"
        return None
    if w.get("expect") == "positions_raw":
        line, col = 1, 1
        raws = w["raws"]
        if len(raws) != len(toks):
            return "token count differs from the recorded run"
        for k, (t, r) in enumerate(zip(toks, raws)):
            if (t[2], t[3]) != (line, col):
                return "token %d %r reports %d:%d, starts at %d:%d" % (k, t[:2], t[2], t[3], line, col)
            if not (k == 0 and t[0] == "BOM"):
                line, col = pos_after(line, col, r)
        return None
    return oracle(w["dc"], w["fullsheet"], w["text"], toks)


def ctx_path(rel):
    from harness.lib import VERIF
    return VERIF / rel


def replay(ctx, path):
    rep = json.loads(open(path).read())
    bad = 0
    for v in rep.get("violations", []):
        w = v["witness"]
        from harness.lib import budget_map
        toks = budget_map(impl_tokens, [(w["dc"], w["fullsheet"], w["text"])], budget_s=BUDGET_S, procs=1, overrun=_overrun)[0]
        d = oracle(w["dc"], w["fullsheet"], w["text"], toks) if toks and toks[0] == "EXC" else oracle_ext(w, toks)
        print("replay %r -> %s" % (w["text"], d or "holds"))
        bad += bool(d)
    return 1 if bad else 0


TRUSTED = [
    "Coq 8.16.1 kernel and VM (vm_compute used for the finite checks on the generated tables); no native_compute",
    "translate/tokenizer.py + translate/regexlib.py (uses CPython's re._parser to parse the compiled patterns)",
    "extraction (ExtrOcamlBasic only: bool/option/unit/list/prod/sumbool/sumor to OCaml natives) + ocamlfind ocamlopt, "
    "ocaml/tok_driver.ml",
    "correspondence harness harness/props/c08.py (generators, comparison of (type, value, line, col))",
    "CPython 3.12 re/str semantics as the thing being modelled; per-character str.lower() table generated from the "
    "interpreter (final-sigma context rule of str.lower not modelled)",
    "modelled, not verified: Tokenizer.tokenize is a hand-written Gallina transcription (coq/theories/Tokenizer.v); "
    "tokenizer._pushed (push-back list) is taken to be empty",
]
ASSUME = [
    "Print Assumptions for every theorem of props/C08.v: see coverage.print_assumptions",
    "partition and positions are stated for doComments=True (with doComments=False comments are dropped by design)",
    "position of the EOF token that follows a comment completed in full-sheet mode is excluded (the code does not advance line/col there)",
]
