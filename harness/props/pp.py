"""PP -- the production-combinator engine css_parser.prodparser and the grammars built on it (not a property id:
a shared ENGINE whose theorems replace hypotheses of C01 / C02 / C05 / C06; see design_notes/PP.md).

proof:          coq/props/PP.v over coq/theories/ProdParser.v (+ ProdParserFacts.v, Gen/ProdTrees.v)
tie:            translate/prodtrees.py regenerates the production trees of mediaquery.py / medialist.py / value.py as
                data (fail closed); the hand-written interpreter ProdParser.pparse is compared with
                ProdParser(clear).parse(tokens, name, productions, **opts) on
                  * the real production objects of the twelve grammars (fresh objects captured from the constructors),
                  * synthetic production trees covering every flag (built from the same description on both sides),
                comparing wellformed, seq items (recursively through sub-objects), store, unused tokens and the two
                stash cells (savedTokens, tokenizer._pushed) afterwards; and the constructors (wellformed, seq,
                mediaType) with ProdParser.build.
oracle/search:  engine-level statements evaluated on the implementation alone: consumes-prefix (every seq item and every
                unused token comes from the input, in order) and stash discipline (at most one token handed back, and it
                is the first unused input token).
"""
import itertools
import json
import signal
import time

from harness.lib import VERIF

DEPTH = 60

# ----------------------------------------------------------------------------------------------- wire format


def wstr(x):
    return "-" if x == "" else ",".join(str(ord(c)) for c in x)


def wtoks(ts):
    return " ".join(["%d" % len(ts)] + [wstr(t[0]) + " " + wstr(t[1]) for t in ts])


def wm(m):
    k = m[0]
    if k in ("t", "f", "H"):
        return k
    if k in ("T", "V", "VN", "VS", "VP", "N"):
        return k + " " + wstr(m[1])
    if k in ("TI", "VI", "NI"):
        return " ".join([k, str(len(m[1]))] + [wstr(x) for x in m[1]])
    if k in ("A", "O"):
        return k + " " + wm(m[1]) + " " + wm(m[2])
    raise ValueError(k)


def wa(a):
    if a[0] == "c":
        return "c " + wstr(a[1])
    if a[0] == "sub":
        return "sub %s %d" % ("_" if a[1] is None else wstr(a[1]), a[2])
    return a[0]


def wtree(t):
    if t[0] == "P":
        p = t[1]
        return " ".join(["P", wstr(p["name"]), wm(p["m"]), "1" if p["opt"] else "0", wa(p["a"]),
                         "_" if p["store"] is None else wstr(p["store"])] +
                        ["1" if p[k] else "0" for k in ("stop", "stopkeep", "stopnm", "nextsor", "mayend", "storetok")])
    if t[0] == "Q":
        return " ".join(["Q", str(len(t[1])), str(t[2]), str(-1 if t[3] is None else t[3])] + [wtree(c) for c in t[1]])
    return " ".join(["C", str(len(t[1])), str(-1 if t[2] is None else int(t[2]))] + [wtree(c) for c in t[1]])


def wopts(o):
    return "%d %d %d" % (o.get("keepS", 0), o.get("checkS", 0), o.get("emptyOk", 0))


def line_of(case):
    k = case[0]
    if k == "R":
        _, gid, clear, saved, pushed, toks = case
        return "R %d %d %d %s %s %s" % (gid, DEPTH, clear, wtoks(saved), wtoks(pushed), wtoks(toks))
    if k == "B":
        _, gid, toks = case
        return "B %d %d %s" % (gid, DEPTH, wtoks(toks))
    _, clear, env, saved, pushed, toks = case
    return "Y %d %d %s %d %s %s %s %s" % (DEPTH, clear, wopts(env[0][0]), len(env),
                                          " ".join(wopts(o) + " " + wtree(t) for o, t in env),
                                          wtoks(saved), wtoks(pushed), wtoks(toks))


def ustr(a):
    return "".join(chr(c) for c in a)


def mitem(it):
    if "g" in it:
        return {"t": ustr(it["t"]), "g": it["g"], "wf": it["wf"], "mt": ustr(it["mt"]), "items": [mitem(x) for x in it["items"]]}
    return {"t": ustr(it["t"]), "v": ustr(it["v"])}


def model_out(line):
    o = json.loads(line)
    if o["out"] == "ret":
        return {"out": "ret", "wf": o["wf"], "none": o["none"],
                "keep": None if o["keep"] is None else [ustr(o["keep"][0]), ustr(o["keep"][1])],
                "items": [mitem(x) for x in o["items"]],
                "store": {ustr(k): [ustr(v) for v in vs] for k, vs in o["store"]},
                "unused": [[ustr(a), ustr(b)] for a, b in o["unused"]],
                "saved": [[ustr(a), ustr(b)] for a, b in o["saved"]],
                "pushed": [[ustr(a), ustr(b)] for a, b in o["pushed"]]}
    if o["out"] == "obj":
        return {"out": "obj", "wf": o["wf"], "mt": ustr(o["mt"]), "items": [mitem(x) for x in o["items"]]}
    return o


# ----------------------------------------------------------------------------------------------- implementation side
GID_OF_CLASS = {"MediaList": 0, "MediaQuery": 2, "PropertyValue": 3, "Value": 4, "ColorValue": 5, "DimensionValue": 6,
                "URIValue": 7, "CSSFunction": 8, "MSValue": 9, "CSSCalc": 10, "CSSVariable": 11}
NGIDS = 12


def mfun(m):
    """an independent reading of the match codes, in plain Python"""
    from css_parser.helper import normalize
    import re
    k = m[0]
    if k == "t":
        return lambda t, v: True
    if k == "f":
        return lambda t, v: False
    x = m[1] if len(m) > 1 else None
    if k == "T":
        return lambda t, v: t == x
    if k == "TI":
        tx = tuple(x)
        return lambda t, v: t in tx
    if k == "V":
        return lambda t, v: v == x
    if k == "VN":
        return lambda t, v: v != x
    if k == "VI":
        tx = tuple(x)
        return lambda t, v: v in tx
    if k == "VS":
        return lambda t, v: v in x
    if k == "VP":
        return lambda t, v: v.startswith(x)
    if k == "N":
        return lambda t, v: normalize(v) == x
    if k == "NI":
        tx = tuple(x)
        return lambda t, v: normalize(v) in tx
    if k == "H":
        rx = re.compile(r'^\#(?:[0-9abcdefABCDEF]{3}|[0-9abcdefABCDEF]{6})\Z')
        return lambda t, v: rx.match(v)
    a, b = mfun(m[1]), mfun(m[2])
    if k == "A":
        return lambda t, v: a(t, v) and b(t, v)
    return lambda t, v: a(t, v) or b(t, v)


class SynObj(object):
    """stands for the value classes: the constructor parses  pushtoken(t, tokens)  with a fresh ProdParser()"""

    def __init__(self, tokens, gid, env):
        from css_parser.prodparser import ProdParser
        self.gid = gid
        o, tree = env[gid]
        ok, seq, store, unused = ProdParser().parse(tokens, "syn%d" % gid, build_tree(tree, env),
                                                    keepS=bool(o.get("keepS")), checkS=bool(o.get("checkS")),
                                                    emptyOk=bool(o.get("emptyOk")))
        self.wellformed = ok
        self.seq = list(seq) if ok else []


def afun(a, env):
    import css_parser.helper as H
    from css_parser.helper import pushtoken
    k = a[0]
    if k == "d":
        return None
    if k == "F":
        return False
    if k == "n":
        return lambda t, tokens: (t[0], H.normalize(t[1]))
    if k == "l":
        return lambda t, tokens: (t[0], t[1].lower())
    if k == "sv":
        return lambda t, tokens: (t[0], H.stringvalue(t[1]))
    if k == "uv":
        return lambda t, tokens: (t[0], H.urivalue(t[1]))
    if k == "c":
        c = a[1]
        return lambda t, tokens: (c, t[1])
    if k == "sub":
        label, gid = a[1], a[2]
        return lambda t, tokens: (t[0] if label is None else label, SynObj(pushtoken(t, tokens), gid, env))
    raise ValueError(k)


def build_tree(t, env):
    from css_parser.prodparser import Prod, Sequence, Choice
    if t[0] == "P":
        p = t[1]
        return Prod(name=p["name"], match=mfun(p["m"]), optional=p["opt"], toSeq=afun(p["a"], env), toStore=p["store"],
                    stop=p["stop"], stopAndKeep=p["stopkeep"], stopIfNoMoreMatch=p["stopnm"], nextSor=p["nextsor"],
                    mayEnd=p["mayend"], storeToken=p["storetok"] or None)
    if t[0] == "Q":
        lo, hi = t[2], t[3]
        return Sequence(*[build_tree(c, env) for c in t[1]], minmax=lambda: (lo, hi))
    if t[2] is None:
        return Choice(*[build_tree(c, env) for c in t[1]])
    return Choice(*[build_tree(c, env) for c in t[1]], optional=bool(t[2]))


def fresh_prods(gid):
    """the production objects a constructor builds, unused (their cursor state is that of new objects)"""
    import css_parser
    from css_parser import prodparser as PM
    from css_parser.css import value as V
    from css_parser.stylesheets import MediaList, MediaQuery
    got = {}
    orig = PM.ProdParser.parse

    def fake(self, text, name, productions, **kw):
        got.update(p=productions, kw=kw, name=name)
        return False, [], None, None
    PM.ProdParser.parse = fake
    try:
        if gid == 0:
            MediaList("x")
        elif gid == 1:
            MediaQuery("x")
        elif gid == 2:
            MediaQuery(iter(()), _partof=True)
        else:
            [V.PropertyValue, V.Value, V.ColorValue, V.DimensionValue, V.URIValue, V.CSSFunction, V.MSValue, V.CSSCalc,
             V.CSSVariable][gid - 3]("x")
    finally:
        PM.ProdParser.parse = orig
    kw = {k: v for k, v in got["kw"].items() if k in ("keepS", "checkS", "emptyOk")}
    return got["p"], kw, got["name"]


def construct(gid, toks):
    from css_parser.css import value as V
    from css_parser.stylesheets import MediaList, MediaQuery
    gen = (t for t in toks)
    if gid == 0:
        return MediaList(gen)
    if gid == 1:
        return MediaQuery(gen)
    if gid == 2:
        return MediaQuery(gen, _partof=True)
    return [V.PropertyValue, V.Value, V.ColorValue, V.DimensionValue, V.URIValue, V.CSSFunction, V.MSValue, V.CSSCalc,
            V.CSSVariable][gid - 3](gen)


def canon_obj(v, label):
    cn = type(v).__name__
    if cn == "SynObj":
        return {"t": label, "g": v.gid, "wf": bool(v.wellformed), "mt": "", "items": [canon_item(x) for x in v.seq]}
    gid = GID_OF_CLASS.get(cn)
    if gid is None:
        return {"t": label, "v": "<%s>" % cn}
    mt = v.mediaType if cn == "MediaQuery" else ""
    return {"t": label, "g": gid, "wf": bool(v.wellformed), "mt": mt, "items": [canon_item(x) for x in v.seq]}


def canon_item(it):
    v, t = it.value, it.type
    if isinstance(v, str):
        return {"t": t, "v": v}
    if type(v).__name__ == "CSSComment":
        return {"t": "CSSComment", "v": v.cssText}
    return canon_obj(v, t if isinstance(t, str) else repr(t))


class Timeout(Exception):
    pass


def _alarm(*a):
    raise Timeout()


def impl_case(case):
    import logging
    import css_parser
    from css_parser import prodparser as PM
    css_parser.log.setLevel(logging.FATAL)
    css_parser.log.raiseExceptions = False
    k = case[0]
    signal.signal(signal.SIGALRM, _alarm)
    signal.alarm(10)
    try:
        if k == "B":
            _, gid, toks = case
            PM.savedTokens[:] = []
            PM.tokenizer._pushed = []
            o = construct(gid, [(a, b, 1, 1) for a, b in toks])
            r = canon_obj(o, "")
            return {"out": "obj", "wf": r["wf"], "mt": r["mt"], "items": r["items"]}
        if k == "R":
            _, gid, clear, saved, pushed, toks = case
            prods, kw, name = fresh_prods(gid)
        else:
            _, clear, env, saved, pushed, toks = case
            prods, name = build_tree(env[0][1], env), "syn"
            kw = {x: bool(env[0][0].get(x)) for x in ("keepS", "checkS", "emptyOk")}
        PM.savedTokens[:] = [(a, b, 1, 1) for a, b in reversed(saved)]      # model: head = top of the stack
        PM.tokenizer._pushed = [(a, b, 1, 1) for a, b in pushed]
        pp = PM.ProdParser(clear=bool(clear))
        ok, seq, store, unused = pp.parse([(a, b, 1, 1) for a, b in toks], name, prods, **kw)
        none = store is None and unused is None
        ul = [] if unused is None else list(unused)
        keep = None
        if ul and not isinstance(ul[0], tuple):
            keep, ul = [ul[0], ul[1]], ul[4:]
        st = {}
        for key, val in (store or {}).items():
            vs = val if isinstance(val, list) else [val]
            st[key] = [(x[1] if isinstance(x, tuple) else (x.value if isinstance(x.value, str) else "")) for x in vs]
        return {"out": "ret", "wf": bool(ok), "none": none, "keep": keep, "items": [canon_item(x) for x in seq], "store": st,
                "unused": [[t[0], t[1]] for t in ul],
                "saved": [[t[0], t[1]] for t in reversed(PM.savedTokens)],
                "pushed": [[t[0], t[1]] for t in list(PM.tokenizer._pushed)]}
    except Timeout:
        return {"out": "spin"}
    except RecursionError:
        return {"out": "depth"}
    except Exception as e:  # noqa
        return {"out": "crash", "exc": type(e).__name__ + ": " + str(e)[:120]}
    finally:
        signal.alarm(0)
        PM.savedTokens[:] = []
        PM.tokenizer._pushed = []


def same(i, m):
    if i["out"] != m["out"]:
        return False
    if i["out"] in ("ret", "obj"):
        return all(i[k] == m[k] for k in m if k != "out")
    return True


# ----------------------------------------------------------------------------------------------- generators
MEDIA_SNIPS = ["all", "print", "screen", "PRINT", "foo", "only", "not", "and", "AND", "(", "min-width", ":", "100px", ")",
               ",", " ", "/*c*/", "16/9", "red", "#fff", "1", "'s'", "u+0-7f", "x(", ";", "{", "ALL", "tv", "a\\nd", "-"]
MEDIA_CORE = ["all", "print", "not", "and", "(", "w", ":", "1px", ")", ",", " ", "/*c*/", "x"]
VALUE_SNIPS = ["1px", "2", "50%", "red", "#abc", "#abcd", "url(x)", "url( 'y' )", "'s'", "a", "b", ",", "/", " ", "/*c*/", "rgb(",
               "rgba(", "hsl(", "1", "3", ")", "f(", "calc(", "var(", "x", "+", "-", "*", "alpha(",
               "progid:DXImageTransform.Microsoft.x(", "u+0-7f", "!", ";", "\"unterminated", "}", "expression(", "CALC(",
               "RGB(", "10%", "0", "=", "2em", "-1"]
VALUE_CORE = ["1px", "a", "red", ",", "/", " ", "/*c*/", "f(", ")", "rgb(", "1", "calc(", "var(", "+", ";", "url(x)"]


def tokenize(text):
    from css_parser.tokenize2 import Tokenizer
    return [(t[0], t[1]) for t in Tokenizer().tokenize(text)]


def mutate(rng, toks):
    toks = list(toks)
    r = rng.random()
    if toks and r < 0.25:
        del toks[rng.randrange(len(toks))]
    elif toks and r < 0.45:
        i = rng.randrange(len(toks))
        toks.insert(i, toks[i])
    elif len(toks) > 1 and r < 0.6:
        i, j = rng.randrange(len(toks)), rng.randrange(len(toks))
        toks[i], toks[j] = toks[j], toks[i]
    elif r < 0.7:
        toks.insert(rng.randrange(len(toks) + 1), rng.choice([("EOF", ""), ("INVALID", "'x"), ("S", " "), ("COMMENT", "/**/"),
                                                               ("CHAR", ","), ("CHAR", ";"), ("CHAR", ")")]))
    return toks


GAPS = ["", " ", " ", "/*c*/", " /*c*/ ", "\n"]


def g_term(rng, depth=2):
    r = rng.random()
    gap = lambda: rng.choice(GAPS)  # noqa
    if depth <= 0 or r < 0.45:
        return rng.choice(["1px", "2", "50%", "red", "RED", "#abc", "#aabbcc", "#abcd", "url(x)", "url( 'y' )", "'s'", "\"q\"", "a",
                           "bold", "u+0-7f", "-1.5em", "+2", "0", "inherit", "1e3", "1/2"])
    if r < 0.55:
        return rng.choice(["rgb(", "RGB(", "rgba(", "hsl(", "hsla("]) + gap() + (gap() + rng.choice([",", ",", " ", ", "]) + gap()).join(
            rng.choice(["1", "2", "50%", "+3", "-1", "0.5", "a"]) for _ in range(rng.choice([2, 3, 3, 3, 4, 4, 5]))) + gap() + rng.choice([")", ")", ""])
    if r < 0.7:
        return rng.choice(["f(", "F(", "counter(", "x-y("]) + gap() + g_value(rng, depth - 1, 3) + gap() + rng.choice([")", ")", ")", ""])
    if r < 0.82:
        ops = [" + ", " - ", "*", " * ", "/", " / ", "+", " +", " /*c*/ + ", " "]
        e = rng.choice(["1px", "2", "50%", "var(x)", "a"])
        for _ in range(rng.randint(0, 3)):
            e += rng.choice(ops) + rng.choice(["1px", "2", "50%", "var(y)", "-1"])
        return rng.choice(["calc(", "CALC(", "calc( "]) + e + rng.choice([")", " )", ")", ""])
    if r < 0.92:
        return "var(" + gap() + rng.choice(["x", "y-z", "1", ""]) + gap() + rng.choice(["", "", ", " + g_term(rng, depth - 1), "," + g_term(rng, 0)]) + rng.choice([")", ")", ""])
    return rng.choice(["alpha(", "progid:DXImageTransform.Microsoft.gradient(", "expression("]) + rng.choice(
        ["opacity=50", "a, b", "x=1, y='z'", "f(1)", ""]) + rng.choice([")", ")", ""])


def g_value(rng, depth=2, n=4):
    out = g_term(rng, depth)
    for _ in range(rng.randint(0, n)):
        out += rng.choice([" ", " ", ", ", ",", " , ", "/", " / ", " /*c*/ ", "/*c*/", "  ", ";", " !important"][:10 if rng.random() < 0.9 else 12]) + g_term(rng, depth)
    return out


def g_mq(rng):
    gap = lambda: rng.choice(GAPS)  # noqa
    req = lambda: rng.choice([" ", " ", "  ", " /*c*/ ", "\n"])  # noqa

    def expr():
        v = rng.choice(["", "", ":" + gap() + rng.choice(["100px", "1", "16/9", "red", "landscape", "#fff", "2dppx", "'s'", "rgb(1,2,3)", "50%"])])
        return "(" + gap() + rng.choice(["min-width", "color", "orientation", "MAX-WIDTH", "x"]) + gap() + v + gap() + ")"
    r = rng.random()
    ands = "".join(req() + rng.choice(["and", "and", "AND", "a\\nd"]) + req() + expr() for _ in range(rng.randint(0, 3)))
    if r < 0.65:
        return rng.choice(["", "", "only" + req(), "not" + req(), "NOT" + req()]) + rng.choice(
            ["all", "print", "screen", "PRINT", "tv", "foo", "ALL", "amzn-kf8", "and"]) + ands
    return expr() + ands


def g_ml(rng):
    return (rng.choice(["", "", "/*c*/", " "]) + (rng.choice(GAPS) + "," + rng.choice(GAPS)).join(g_mq(rng) for _ in range(rng.randint(1, 4))))


def structured(rng, gid):
    if gid == 0:
        return g_ml(rng)
    if gid in (1, 2):
        return g_mq(rng) + rng.choice(["", "", "", ", print", " {", ";"])
    if gid == 3:
        return g_value(rng)
    text = g_term(rng, 2)
    for _ in range(40):
        ok = {4: text[0] in "abisu'\"", 5: text[:3].lower() in ("rgb", "hsl", "red") or text[0] == "#", 6: text[0] in "0123456789+-",
              7: text[:3] == "url", 8: text[:1] in "fFcx" and "(" in text, 9: text[:3] in ("alp", "pro", "exp"),
              10: text[:4].lower() == "calc", 11: text[:3] == "var"}[gid]
        if ok:
            break
        text = g_term(rng, 2)
    return text + rng.choice(["", "", "", " ", " x", ")"])


def real_cases(ctx, thorough):
    rng = ctx.rng
    cases = []
    media_gids, value_gids = (0, 1, 2), tuple(range(3, 12))
    # exhaustive small
    seen = set()
    for core, gids, n in ((MEDIA_CORE, media_gids, 4 if thorough else 3), (VALUE_CORE, value_gids, 3)):
        for k in range(0, n + 1):
            for tup in itertools.product(core, repeat=k):
                toks = tuple(tokenize("".join(tup)))
                for g in gids:
                    if (g, toks) not in seen:
                        seen.add((g, toks))
                        cases.append(("R", g, 1, [], [], list(toks)))
    n_exh = len(cases)
    # random, well-formed-ish and malformed
    for _ in range(80000 if thorough else 20000):
        media = rng.random() < 0.4
        g = rng.choice(media_gids if media else value_gids)
        if rng.random() < 0.6:
            toks = tokenize(structured(rng, g))
        else:
            snips = MEDIA_SNIPS if media else VALUE_SNIPS
            parts = []
            for _ in range(rng.randint(1, 12)):
                parts.append(rng.choice(snips))
                if rng.random() < 0.3:
                    parts.append(" ")
            toks = tokenize("".join(parts))
        if rng.random() < 0.3:
            toks = mutate(rng, toks)
        saved = [rng.choice(toks)] if toks and rng.random() < 0.08 else []
        pushed = [("CHAR", ";")] if rng.random() < 0.05 else []
        clear = 0 if (saved or pushed) and rng.random() < 0.5 else 1
        cases.append(("R", g, clear, saved, pushed, toks))
        if rng.random() < 0.5:
            cases.append(("B", g, toks))
    return cases, n_exh


SYN_TOKS = [("IDENT", "a"), ("IDENT", "b"), ("CHAR", ","), ("CHAR", "/"), ("CHAR", ";"), ("S", " "), ("COMMENT", "/**/"),
            ("NUMBER", "1"), ("CHAR", ")"), ("FUNCTION", "f("), ("INVALID", "'x"), ("EOF", ""), ("STRING", "'s'"),
            ("URI", "url( \"u\" )"), ("IDENT", "A\\b")]
SYN_MATCH = [("T", "IDENT"), ("V", ","), ("V", ";"), ("VS", ",/"), ("T", "S"), ("T", "NUMBER"), ("TI", ["IDENT", "NUMBER"]),
             ("V", ")"), ("T", "FUNCTION"), ("N", "a"), ("VN", ")"), ("t",), ("V", "a"), ("V", "b"), ("VI", [",", "/"]),
             ("A", ("T", "IDENT"), ("NI", ["a", "ab"])), ("O", ("T", "IDENT"), ("V", "(")), ("VP", "f"), ("T", "STRING"),
             ("T", "URI"), ("f",), ("H",)]


def P(name, m, opt=False, a=("d",), store=None, stop=False, stopkeep=False, stopnm=False, nextsor=False, mayend=False,
      storetok=False):
    return ("P", dict(name=name, m=m, opt=opt, a=a, store=store, stop=stop, stopkeep=stopkeep, stopnm=stopnm,
                      nextsor=nextsor, mayend=mayend, storetok=storetok))


def topt(t):
    if t[0] == "P":
        return t[1]["opt"]
    if t[0] == "Q":
        return t[2] == 0
    return bool(t[2]) if t[2] is not None else any(topt(c) for c in t[1])


def wf_tree(t):
    """the trees on which the Python loops end (ProdParserFacts.wf_tree)"""
    if t[0] == "P":
        return True
    if not t[1] or not all(wf_tree(c) for c in t[1]):
        return False
    if t[0] == "Q":
        if t[3] == 0:
            return False
        if t[3] is None and all(topt(c) for c in t[1]):
            return False
    return True


def rand_tree(rng, depth, gid, ngr):
    r = rng.random()
    if depth == 0 or r < 0.45:
        m = rng.choice(SYN_MATCH)
        a = ("d",)
        ra = rng.random()
        if ra < 0.1:
            a = ("F",)
        elif ra < 0.16:
            a = ("n",)
        elif ra < 0.2:
            a = ("c", "operator")
        elif ra < 0.24:
            a = ("l",)
        elif ra < 0.34 and gid + 1 < ngr:
            a = ("sub", rng.choice([None, "Obj"]), rng.randrange(gid + 1, ngr))
        elif m == ("T", "STRING") and ra < 0.7:
            a = ("sv",)
        elif m == ("T", "URI") and ra < 0.7:
            a = ("uv",)
        fl = lambda p: rng.random() < p  # noqa
        return P("p%d" % rng.randrange(100), m, opt=fl(0.25), a=a, store=rng.choice([None, None, "k", "j"]), stop=fl(0.04),
                 stopkeep=fl(0.03), stopnm=fl(0.15), nextsor=fl(0.2), mayend=fl(0.15), storetok=fl(0.1))
    n = rng.randint(1, 3)
    ch = [rand_tree(rng, depth - 1, gid, ngr) for _ in range(n)]
    if r < 0.75:
        lo = rng.choice([0, 0, 1, 1, 1, 2])
        hi = rng.choice([None, None, lo, lo + 1, max(1, lo), 3])
        if hi is not None and hi < max(lo, 1):
            hi = max(lo, 1)
        return ("Q", ch, lo, hi)
    return ("C", ch, rng.choice([None, None, None, True, False]))


def rand_env(rng):
    ngr = rng.choice([1, 1, 2, 3])
    env = []
    for g in range(ngr):
        while True:
            t = rand_tree(rng, 3, g, ngr)
            if t[0] != "P" and wf_tree(t):
                break
        o = {"keepS": int(rng.random() < 0.25), "checkS": int(rng.random() < 0.2), "emptyOk": int(rng.random() < 0.2)}
        env.append((o, t))
    return env


def fixed_envs():
    """hand-made trees, one or two per flag, run on every token list up to length 4 over a small alphabet"""
    I, C, S_, N = ("T", "IDENT"), ("V", ","), ("T", "S"), ("T", "NUMBER")
    e = []
    e.append([({}, ("Q", [P("i", I), ("Q", [P("c", C), P("i", I)], 0, None)], 1, 1))])
    e.append([({"keepS": 1}, ("Q", [P("i", I, nextsor=True), ("Q", [("C", [P("s", S_, a=("F",), mayend=True), P("c", C, opt=True)], True),
                                                                  P("end", ("V", ";"), stopkeep=True, opt=True),
                                                                  P("i", I, nextsor=True)], 0, None)], 1, 1))])
    e.append([({}, ("C", [("Q", [P("i", I, stopnm=True, store="k"), ("Q", [P("n", N, store="k")], 0, 2)], 1, 1),
                          ("Q", [P("n", N), P("i", I, opt=True), P("c", C, stop=True)], 1, 2)], None))])
    e.append([({"checkS": 1}, ("Q", [P("i", I), P("s", S_, opt=True), ("Q", [P("c", C), P("s", S_, mayend=True)], 0, None), P("n", N, stop=True)], 1, 1))])
    e.append([({}, ("Q", [("Q", [P("cm", ("T", "COMMENT"), opt=True, a=("d",))], 0, None), P("mq", ("O", I, ("V", "(")), a=("sub", "MQ", 1)),
                          ("Q", [P("c", C, a=("F",)), P("mq", I, a=("sub", "MQ", 1))], 0, None)], 1, 1)),
              ({}, ("C", [("Q", [P("i", ("A", I, ("NI", ["a"])), stopnm=True, store="t"), ("Q", [P("and", ("N", "b")), P("n", N)], 0, None)], 1, 1),
                          ("Q", [P("n", N, stopnm=True)], 1, 1)], None))])
    e.append([({"emptyOk": 1}, ("Q", [P("i", I, opt=True, nextsor=True, a=("sub", None, 1)), P("n", N, mayend=True, storetok=True, store="j")], 0, 2)),
              ({}, ("Q", [P("i", I, nextsor=True), P("c", C, stopnm=True, opt=True), P("n", N, stop=True, opt=True)], 1, 1))])
    return e


def all_prods(t, out):
    if t[0] == "P":
        out.append(t[1])
    else:
        for c in t[1]:
            all_prods(c, out)
    return out


def matching_tokens(env):
    fs = [mfun(p["m"]) for _, t in env for p in all_prods(t, [])]
    return [tk for tk in SYN_TOKS[:10] + SYN_TOKS[12:] if any(f(tk[0], tk[1]) for f in fs)]


def syn_cases(ctx, thorough):
    rng = ctx.rng
    cases = []
    small = SYN_TOKS[:8] + [SYN_TOKS[11]]
    for env in fixed_envs():
        for k in range(0, (5 if thorough else 4) + 1):
            alpha = small if k <= 3 else small[:6]
            for tup in itertools.product(alpha, repeat=k):
                cases.append(("Y", 1, env, [], [], list(tup)))
    n_exh = len(cases)
    for _ in range(10000 if thorough else 2500):
        env = rand_env(rng)
        good = matching_tokens(env) or SYN_TOKS[:4]
        for _ in range(10):
            toks = []
            for _ in range(rng.randint(0, 10)):
                r = rng.random()
                toks.append(rng.choice(good) if r < 0.7 else rng.choice(SYN_TOKS[5:7]) if r < 0.85 else
                            rng.choice(SYN_TOKS[:10]) if r < 0.97 else rng.choice(SYN_TOKS))
            saved = [rng.choice(SYN_TOKS[:5])] if rng.random() < 0.1 else []
            pushed = [rng.choice(SYN_TOKS[:5])] if rng.random() < 0.05 else []
            clear = 0 if (saved or pushed) and rng.random() < 0.6 else 1
            cases.append(("Y", clear, env, saved, pushed, toks))
    return cases, n_exh


# ----------------------------------------------------------------------------------------------- engine-level oracle
def flat_texts(items, out):
    for it in items:
        if "g" in it:
            flat_texts(it["items"], out)
        else:
            out.append(it)
    return out


def oracle(case, r):
    """statements about the implementation alone (no model): returns None or a description"""
    if r["out"] != "ret":
        return None
    toks = case[-1]
    clear = case[2] if case[0] == "R" else case[1]
    saved_in = case[3] if case[0] == "R" else case[3]
    stream = ([] if clear else list(saved_in)) + [list(t) for t in toks]
    # stash discipline: at most one token is handed back in each cell, and only by a parse that stopped early
    if len(r["saved"]) > (1 if clear else max(1, len(saved_in))):
        return "more than one token left in savedTokens after one parse"
    if r["saved"] and r["saved"][0] not in stream:
        return "the token left in savedTokens is not a token of the input"
    # consumes-prefix: the unused tokens are a suffix of the input up to dropped S (nextSor filter)
    un = [list(t) for t in r["unused"]]
    j = len(stream)
    for t in reversed(un):
        while j > 0 and stream[j - 1] != t:
            j -= 1
        if j == 0:
            return "an unused token does not come from the input (in order)"
        j -= 1
    return None


# ----------------------------------------------------------------------------------------------- API-level statements
def api_oracle(w):
    """statements about the public constructors (independent of the model); w = {"expect": kind, ...}"""
    import logging
    import css_parser
    from css_parser import prodparser as PM
    from css_parser.stylesheets import MediaList, MediaQuery
    from css_parser.css import value as V
    css_parser.log.setLevel(logging.FATAL)
    css_parser.log.raiseExceptions = False
    PM.savedTokens[:] = []
    PM.tokenizer._pushed = []
    k = w["expect"]
    try:
        if k == "mq_reparse":
            q = MediaQuery(w["text"])
            stopped = bool(list(PM.tokenizer._pushed))      # the ParseError branch l.579-589 pushed the token back
            if q.wellformed:
                out = q.mediaText
                if not MediaQuery(out).wellformed:
                    tail = " (the parse stopped at a Missing production under stopIfNoMoreMatch)" if stopped else ""
                    return "a MediaQuery reported wellformed serialises to text that is not a wellformed media query%s" % tail
            return None
        if k == "str_vs_tokens":
            a = MediaList(w["text"])
            b = MediaList(t for t in [(x, y, 1, 1) for x, y in tokenize(w["text"].strip())])
            if (a.wellformed, a.mediaText) != (b.wellformed, b.mediaText):
                return ("MediaList(text) and MediaList(tokens of the same text) differ: a token pushed back with "
                        "tokenizer.push is re-read only when the stream is prodparser.tokenizer's own generator")
            return None
        if k == "vars_str_vs_tokens":
            from css_parser.css import CSSVariablesDeclaration
            old = css_parser.ser.prefs.resolveVariables
            css_parser.ser.prefs.resolveVariables = False
            try:
                a = CSSVariablesDeclaration(cssText=w["text"]).cssText
                sh = css_parser.parseString("@variables { %s }" % w["text"])
                b = sh.cssRules[0].variables.cssText if sh.cssRules.length else ""
            finally:
                css_parser.ser.prefs.resolveVariables = old
            if a != b:
                return ("CSSVariablesDeclaration(text) and the same text parsed inside @variables differ: the `;` kept with "
                        "stopAndKeep is handed back with tokenizer.push, which only a stream of prodparser.tokenizer re-reads")
            return None
        if k == "ctor_tokens_no_raise":
            cls = getattr(V, w["cls"])
            try:
                cls(x for x in [(a, b, 1, 1) for a, b in w["tokens"]])
            except Exception as e:  # noqa
                return "%s(tokens) raises %s on a token list that holds only EOF" % (w["cls"], type(e).__name__)
            return None
        if k == "ctor_no_raise":
            cls = getattr(V, w["cls"])
            try:
                o = cls(w["text"])
            except Exception as e:  # noqa
                return "%s(text) raises %s for a text with a leading comment" % (w["cls"], type(e).__name__)
            if w["cls"] in ("Value", "URIValue") and o.wellformed and not isinstance(o.value, str):
                return "%s(text) with a leading comment takes the comment object as its value" % w["cls"]
            return None
    finally:
        PM.savedTokens[:] = []
        PM.tokenizer._pushed = []
    return None


def api_sweep(ctx, thorough):
    rng = ctx.rng
    ws = []
    for _ in range(6000 if thorough else 1500):
        txt = g_ml(rng) if rng.random() < 0.5 else g_mq(rng) + rng.choice(["", " ,", " and", " and ,", ", tv", " )", ";"])
        ws.append({"expect": "mq_reparse", "text": txt})
        ws.append({"expect": "str_vs_tokens", "text": txt})
    for _ in range(200 if thorough else 60):
        parts = []
        for _ in range(rng.randint(1, 3)):
            parts.append(rng.choice(["a", "b", "c-d"]) + rng.choice([":", ": ", " : "]) + g_term(rng, 1))
        ws.append({"expect": "vars_str_vs_tokens", "text": rng.choice(["; ", ";", " ; ", ";;", "; ;"]).join(parts) + rng.choice(["", ";", " ;"])})
    for cls, gid in (("Value", 4), ("ColorValue", 5), ("DimensionValue", 6), ("URIValue", 7), ("CSSFunction", 8), ("CSSCalc", 10),
                     ("CSSVariable", 11)):
        for _ in range(60):
            ws.append({"expect": "ctor_no_raise", "cls": cls, "text": rng.choice(["", "/*c*/", " /*c*/ ", " "]) + structured(rng, gid)})
    return ws


# ----------------------------------------------------------------------------------------------- run
def run(ctx):
    thorough = ctx.tier == "thorough"
    ctx.regen("tokenizer", "prodtrees")
    b = ctx.coq_build("props/PP.v")
    binary = ctx.ocaml_build("prodparser")
    cp = VERIF / "corpus" / "PP.json"
    corpus = [tuple(c) for c in json.loads(cp.read_text())] if cp.exists() else []
    rc, n_exh_r = real_cases(ctx, thorough)
    sc, n_exh_s = syn_cases(ctx, thorough)
    cases = corpus + rc + sc
    impl = ctx.pool_map(impl_case, cases, procs=8, chunksize=128)
    mism, nontrivial, crashes = [], 0, {}
    kinds = {"R": 0, "B": 0, "Y": 0}
    if binary:
        out = ctx.run_binary(binary, [line_of(c) for c in cases], shards=8)
        for case, i, o in zip(cases, impl, out):
            m = model_out(o)
            kinds[case[0]] += 1
            if i["out"] == "ret" and (i["items"] or i["saved"] or i["pushed"]) and len(case[-1]) >= 2:
                nontrivial += 1
            if i["out"] == "crash":
                crashes.setdefault(i["exc"].split(":")[0], []).append(case)
            if not same(i, m):
                mism.append({"case": case, "impl": i, "model": m})
    for case, i in zip(cases, impl):
        d = oracle(case, i)
        if d:
            ctx.violation(d, {"case": case, "impl": i}, sig_text=json.dumps(case))
    sweep = api_sweep(ctx, thorough) + [f["witness"] for f in ctx.findings if f.get("status") == "open"]
    for w in sweep:
        d = api_oracle(w)
        if d:
            ctx.violation(d, w, sig_text=json.dumps(w, sort_keys=True))
    if mism:
        ctx.broken("correspondence", "ProdParser.parse vs CssV.ProdParser.pparse",
                   "%d of %d cases differ; first: %s" % (len(mism), len(cases), json.dumps(mism[:2])[:2500]))
        # the engine's "property" is conformance with the verified model: a disagreeing case is the failing input
        mism.sort(key=lambda x: len(json.dumps(x["case"])))
        for x in mism[:5]:
            ctx.violation("implementation differs from the verified engine model (%s)" % diff_of(x["impl"], x["model"]),
                          {"case": x["case"], "impl": x["impl"], "expect_model": x["model"]}, sig_text=json.dumps(x["case"]))

    def search():
        t0 = time.time()
        while time.time() - t0 < (300 if thorough else 60):
            batch, _ = syn_cases(ctx, False)
            batch = batch[-2000:]
            for case, i in zip(batch, ctx.pool_map(impl_case, batch, procs=8, chunksize=128)):
                d = oracle(case, i)
                if d:
                    return {"case": case, "fails": d}
        return None

    extra = {"coqchk": ctx.coqchk("props/PP.v")} if thorough and b.ok else {}
    ctx.finish({
        **extra,
        "evaluations": len(cases),
        "distinct_nontrivial": nontrivial,
        "rule": "R: ProdParser(clear).parse on fresh production objects of the 12 real grammars; B: the constructors; "
                "Y: synthetic production trees (6 hand-made environments on every token list up to length 4/5 over a "
                "9-token alphabet, then random environments with sub-parsers and every flag). Real-grammar token lists: "
                "every concatenation of <= 3 snippets of a 13/16-snippet core alphabet (%d cases), then random snippet "
                "concatenations with token-level mutations (drop, duplicate, swap, insert EOF/INVALID/S/COMMENT), a "
                "pre-filled stash with clear on/off; non-trivial = parse returned with a non-empty seq or stash on >= 2 "
                "tokens" % n_exh_r,
        "samples": [json.loads(json.dumps(c)) for c in (cases[len(corpus) + n_exh_r + 3], cases[-5])],
        "disagreements_checked": len(cases) if binary else 0,
        "by_kind": kinds,
        "exhaustive_counts": {"real": n_exh_r, "synthetic": n_exh_s},
        "implementation_exceptions": {k: len(v) for k, v in crashes.items()},
        "api_statements_evaluated": len(sweep),
        "translator": json.loads((VERIF / "build" / "prodtrees.json").read_text()) if (VERIF / "build" / "prodtrees.json").exists() else None,
        "tokens_sane": sum(1 for c in cases for t in c[-1] if not (t[0] == "STRING" and t[1] == "")),
        "trusted_base": TRUSTED,
    }, assumptions=ASSUME, search=search)


def diff_of(i, m):
    if i["out"] != m["out"]:
        return "outcome %s vs %s" % (i["out"], m["out"])
    return ", ".join(k for k in m if k != "out" and i.get(k) != m.get(k))


def replay(ctx, path):
    rep = json.loads(open(path).read())
    bad = 0
    for v in rep.get("violations", []):
        if "expect" in v["witness"]:
            d = api_oracle(v["witness"])
            print("replay %s -> %s" % (json.dumps(v["witness"])[:200], d or "holds"))
            bad += bool(d)
            continue
        case = v["witness"]["case"]
        case = tuple(case)
        r = impl_case(case)
        d = oracle(case, r)
        if not d and "expect_model" in v["witness"] and not same(r, v["witness"]["expect_model"]):
            d = "implementation differs from the verified engine model (%s)" % diff_of(r, v["witness"]["expect_model"])
        print("replay %s -> %s" % (json.dumps(case)[:200], d or "holds"))
        bad += bool(d)
    return 1 if bad else 0


TRUSTED = [
    "Coq 8.16.1 kernel and VM; no native_compute",
    "translate/prodtrees.py (ast walk of the Sequence/Choice/Prod/PreDef call expressions; cross-checked against the "
    "runtime production objects) ",
    "extraction (ExtrOcamlBasic) + ocamlfind ocamlopt, ocaml/prodparser_driver.ml",
    "correspondence harness harness/props/pp.py: generators, canonical form of seq items / store / unused / stash",
    "modelled, not verified: ProdParser.parse, Sequence/Choice.nextProd, _SorTokens are hand-written Gallina "
    "transcriptions (coq/theories/ProdParser.v); css_parser.log.raiseExceptions is False (parse-time mode); the token "
    "stream is not a live prodparser.tokenizer generator (tokenizer._pushed is written, never re-read)",
]
ASSUME = ["Print Assumptions for every theorem of props/PP.v: see coverage.print_assumptions"]
