"""C16 -- selector specificity equals the CSS definition.

proof:          coq/props/C16.v over the model coq/theories/Selector.v (pre-pass + token-driven machine + append with its
                counters) and the selector grammar/renderer defined in the same file
tie:            translate/selconsts.py regenerates the `expected` constants, every test on `expected` (substring table),
                every handler return, the dispatch dict and append()'s literals; the hand-written control logic is
                compared with Selector._setSelectorText on (a) selectors generated from the Coq grammar (the Coq renderer
                produces the tokens, the real tokenizer must reproduce them from the text), (b) token soup,
                (c) all short token sequences
oracle/search:  specificity computed by construction in Python (independent of the model) against
                Selector(text).specificity, its re-parse, and CSSPageRule.specificity
"""
import itertools
import json
import os
import time

from harness.lib import VERIF

PROCS = 6

# ---------------------------------------------------------------------------------------------- implementation side
_ready = False


def _setup():
    global _ready
    if not _ready:
        import logging
        import css_parser
        css_parser.log.setLevel(logging.FATAL)
        _ready = True


def _items(sel):
    import css_parser
    out = []
    for it in sel.seq:
        v = it.value
        if isinstance(v, tuple):
            u = v[0]
            us = "A" if u == css_parser._ANYNS else ("N" if u is None else "U" + u)
            out.append([it.type, "P", us, v[1]])
        elif isinstance(v, str):
            out.append([it.type, "S", v, ""])
        else:
            out.append([it.type, "C", v.cssText, ""])
    return out


def impl_select(case):
    """case = (ns items, source) where source is a text or a list of (type, value) tokens.
    Runs Selector._setSelectorText with logging (not raising) errors, as the sheet parser does."""
    _setup()
    import css_parser
    from css_parser.css import Selector
    ns, source = case
    if not isinstance(source, str):
        source = [(t, v, 1, 1) for t, v in source]
    old = css_parser.log.raiseExceptions
    css_parser.log.raiseExceptions = False
    try:
        sel = Selector()
        sel.selectorText = (source, dict(ns))
        if not sel.wellformed:
            return ["REJ"]
        sp = sel.specificity
        return ["ACC", list(sp), _items(sel), sel.selectorText]
    except Exception as e:  # noqa
        return ["CRASH", type(e).__name__, str(e)[:200]]
    finally:
        css_parser.log.raiseExceptions = old


def impl_tokens(text):
    from css_parser.tokenize2 import Tokenizer
    return [[t[0], t[1]] for t in Tokenizer().tokenize(text)]


def impl_full(case):
    """end-to-end on a text: tokens of the real tokenizer, parse result, re-parse of the serialisation"""
    ns, text = case
    try:
        toks = impl_tokens(text)
    except Exception as e:  # noqa
        toks = ["EXC", type(e).__name__]
    r = impl_select((ns, text))
    rr = None
    if r[0] == "ACC":
        rr = impl_select((ns, r[3]))
    return toks, r, rr


def _held(sel):
    if not sel.wellformed:
        return ["EMPTY"]
    return ["ACC", list(sel.specificity), _items(sel), sel.selectorText]


def impl_history(case):
    """successive assignments to ONE Selector; case = (ns, [source, ...], raising). A DOM exception raised by the log
    in raising mode is a rejected assignment; what the object holds afterwards is reported."""
    _setup()
    import xml.dom
    import css_parser
    from css_parser.css import Selector
    ns, sources, raising = case
    old = css_parser.log.raiseExceptions
    css_parser.log.raiseExceptions = bool(raising)
    try:
        sel = Selector()
        for src in sources:
            if not isinstance(src, str):
                src = [(t, v, 1, 1) for t, v in src]
            try:
                sel.selectorText = (src, dict(ns))
            except xml.dom.DOMException:
                if not raising:
                    raise
        return _held(sel)
    except Exception as e:  # noqa
        return ["CRASH", type(e).__name__, str(e)[:200]]
    finally:
        css_parser.log.raiseExceptions = old


def impl_reassign(case):
    """case = (ns, good_text, bad_text, raising, via_rule): a Selector holding good_text (stand-alone or
    rule.selectorList[0] of a parsed sheet) gets bad_text assigned; returns what it reports afterwards."""
    _setup()
    import xml.dom
    import css_parser
    from css_parser.css import Selector
    ns, good, bad, raising, via_rule = case
    old = css_parser.log.raiseExceptions
    try:
        css_parser.log.raiseExceptions = False
        fresh_bad = Selector()
        try:
            fresh_bad.selectorText = (bad, dict(ns))
            if fresh_bad.wellformed:
                return ["SKIP", "the second text is accepted"]
        except Exception:  # noqa
            pass
        if via_rule:
            head = "".join("@namespace %s '%s';" % (p, u) for p, u in ns)
            sheet = css_parser.parseString(head + good + "{x:1}")
            rules = [r for r in sheet.cssRules if r.type == r.STYLE_RULE]
            if len(rules) != 1 or len(rules[0].selectorList) != 1:
                return ["SKIP", "sheet did not give one rule with one selector"]
            sel = rules[0].selectorList[0]
        else:
            sel = Selector()
            sel.selectorText = (good, dict(ns))
        if not sel.wellformed:
            return ["SKIP", "first text rejected"]
        before = [list(sel.specificity), sel.selectorText]
        css_parser.log.raiseExceptions = bool(raising)
        try:
            sel.selectorText = bad if via_rule else (bad, dict(ns))
        except xml.dom.DOMException:
            pass
        css_parser.log.raiseExceptions = False
        after = [list(sel.specificity), sel.selectorText]
        rr = Selector()
        rr.selectorText = (after[1], dict(ns))
        return ["OK", before, after, list(rr.specificity) if rr.wellformed else None]
    except Exception as e:  # noqa
        return ["CRASH", type(e).__name__, str(e)[:200]]
    finally:
        css_parser.log.raiseExceptions = old


def _page_state(r):
    items = [[i.type, i.value if isinstance(i.value, str) else i.value.cssText] for i in r._selectorText]
    return [list(r.specificity), items, r.selectorText]


def impl_page_history(case):
    """assignments to ONE CSSPageRule through selectorText / cssText; case = (steps, raising), step = (attr, text).
    After every step: [specificity, selector seq items, selectorText, re-parsed specificity of selectorText]."""
    _setup()
    import xml.dom
    import css_parser
    from css_parser.css import CSSPageRule
    steps, raising = case
    old = css_parser.log.raiseExceptions
    try:
        css_parser.log.raiseExceptions = False
        r = CSSPageRule()
        out = []
        for attr, text in steps:
            css_parser.log.raiseExceptions = bool(raising)
            try:
                setattr(r, attr, text)
            except xml.dom.DOMException:
                if not raising:
                    raise
            css_parser.log.raiseExceptions = False
            st = _page_state(r)
            try:
                st.append(list(CSSPageRule(selectorText=st[2]).specificity))
            except Exception as e:  # noqa
                st.append("reparse raised " + type(e).__name__)
            out.append(st)
        return ["OK", out]
    except Exception as e:  # noqa
        return ["CRASH", type(e).__name__, str(e)[:200]]
    finally:
        css_parser.log.raiseExceptions = old


def impl_block_class(block):
    """observable class of a block (the part of _setCssText that is not modelled), measured on a FRESH rule with a
    fixed selector and judged by selectorText only: O committed in both modes, L committed only when errors are
    logged, R never committed"""
    _setup()
    import xml.dom
    import css_parser
    from css_parser.css import CSSPageRule
    old = css_parser.log.raiseExceptions
    res = []
    try:
        for raising in (False, True):
            css_parser.log.raiseExceptions = False
            r = CSSPageRule()
            css_parser.log.raiseExceptions = raising
            try:
                r.cssText = "@page probe:first" + block
            except xml.dom.DOMException:
                pass
            css_parser.log.raiseExceptions = False
            res.append(r.selectorText == "probe:first")
        return "O" if res == [True, True] else ("L" if res == [True, False] else ("R" if res == [False, False] else "?"))
    except Exception as e:  # noqa
        return "?"
    finally:
        css_parser.log.raiseExceptions = old


def impl_rule_reassign(case):
    """style rule: case = (ns, [selector texts], attr, bad_text, raising): a parsed rule gets a rejected rule-level
    assignment (cssText or selectorText); returns per Selector (selectorText, specificity) before and after"""
    _setup()
    import xml.dom
    import css_parser
    ns, sels, attr, bad, raising = case
    old = css_parser.log.raiseExceptions
    try:
        css_parser.log.raiseExceptions = False
        head = "".join("@namespace %s '%s';" % (p, u) for p, u in ns)
        sheet = css_parser.parseString(head + ",".join(sels) + "{x:1}")
        rules = [r for r in sheet.cssRules if r.type == r.STYLE_RULE]
        if len(rules) != 1 or len(rules[0].selectorList) != len(sels):
            return ["SKIP", "sheet did not give one rule with the selectors"]
        rule = rules[0]
        before = [[s.selectorText, list(s.specificity)] for s in rule.selectorList]
        btext = rule.selectorText
        css_parser.log.raiseExceptions = bool(raising)
        try:
            setattr(rule, attr, bad)
        except xml.dom.DOMException:
            pass
        css_parser.log.raiseExceptions = False
        after = [[s.selectorText, list(s.specificity)] for s in rule.selectorList]
        return ["OK", before, after, btext, rule.selectorText]
    except Exception as e:  # noqa
        return ["CRASH", type(e).__name__, str(e)[:200]]
    finally:
        css_parser.log.raiseExceptions = old


BAD_RULE_CSS = ["#p #q #r > {x:1}", "#p.q r {x:1", "#p, , #q {x:1}", "#p.q {x:1} #z", "#p:not( {x:1}", "#a#b[ {y:2}",
                "@media print { #p{x:1} }", "#p.q r", "{x:1}", "#p #q {x:1}}"]
BAD_RULE_SEL = ["#p #q #r >", "#p, , #q", "#p:not(", "#a#b[", ",", "#p.q {", "#p #q,"]

BAD_TEXTS = ["#p #q #r >", "div.a.b.c[", "h1, h2", "x:not(", "a >", ".a..b", ":x(", "#a]", "a b +", "[a=", "p|", "::",
             "}", "#a#b#c.d.e f g >", ".k.l.m:not(#z", "a[b=\"[\"", "#i.j k,"]


def oracle_reassign(good, expected, r):
    """a Selector always reports the specificity of the selector it holds"""
    if r[0] == "SKIP":
        return None
    if r[0] == "CRASH":
        return "re-assignment raised %s: %s" % (r[1], r[2])
    before, after, rr = r[1], r[2], r[3]
    if before[0] != [0] + list(expected):
        return "specificity %s, CSS definition gives %s" % (before[0], [0] + list(expected))
    if after[1] != before[1]:
        return "a rejected assignment changed selectorText from %r to %r" % (before[1], after[1])
    if after[0] != before[0]:
        return "after a rejected assignment the selector %r reports %s, CSS definition gives %s" % (
            after[1], after[0], before[0])
    if rr != after[0]:
        return "selector %r reports %s but its serialisation re-parses to %s" % (after[1], after[0], rr)
    return None


def impl_sheet_reparse(case):
    """case = (ns, [[selector text, ...] per rule], prefs): a sheet with @namespace rules and style rules is parsed,
    serialised under the given serializer preferences and parsed again; per-rule specificity lists of both parses"""
    _setup()
    import css_parser
    ns, rules, prefs = case

    def specs(sheet):
        return [[list(s.specificity) for s in r.selectorList] for r in sheet.cssRules if r.type == r.STYLE_RULE]
    old = css_parser.log.raiseExceptions
    try:
        css_parser.log.raiseExceptions = False
        head = "".join(("@namespace %s '%s';" % (p, u)) if p else ("@namespace '%s';" % u) for p, u in ns)
        css = head + "".join(",".join(sels) + "{x:1}" for sels in rules)
        sheet = css_parser.parseString(css)
        first = specs(sheet)
        pr = css_parser.ser.prefs
        try:
            if prefs == "minified":
                pr.useMinified()
            elif prefs == "usedns":
                pr.keepUsedNamespaceRulesOnly = True
            text = sheet.cssText
        finally:
            pr.useDefaults()
        if isinstance(text, bytes):
            text = text.decode("utf-8")
        second = specs(css_parser.parseString(text))
        return ["OK", first, second, text]
    except Exception as e:  # noqa
        try:
            css_parser.ser.prefs.useDefaults()
        except Exception:  # noqa
            pass
        return ["CRASH", type(e).__name__, str(e)[:200]]
    finally:
        css_parser.log.raiseExceptions = old


def oracle_sheet_reparse(exp, r):
    if r[0] == "CRASH":
        return "sheet serialise + re-parse raised %s: %s" % (r[1], r[2])
    want = [[[0] + list(e) for e in rule] for rule in exp]
    if r[1] != want:
        return "parsed sheet reports %s, CSS definition gives %s" % (r[1], want)
    if r[2] != want:
        return "after serialising the sheet (%r) and parsing it again the specificities are %s, were %s" % (
            r[3][:200], r[2], want)
    return None


def oracle_rule_reassign(exp, r):
    if r[0] == "SKIP":
        return None
    if r[0] == "CRASH":
        return "rule-level assignment raised %s: %s" % (r[1], r[2])
    before, after = r[1], r[2]
    if r[3] != r[4]:
        return None      # the assignment was accepted after all
    for (bt, bs), (at, as_), e in zip(before, after, exp):
        if at != bt:
            return "a rejected rule-level assignment changed a selector from %r to %r" % (bt, at)
        if as_ != [0] + list(e):
            return "after a rejected rule-level assignment the selector %r reports %s, CSS definition gives %s" % (
                at, as_, [0] + list(e))
    if len(after) != len(before):
        return "a rejected rule-level assignment changed the number of selectors"
    return None


def impl_selectorlist(case):
    """case = (ns, source): SelectorList.selectorText = (text or token list, ns), errors logged"""
    _setup()
    import css_parser
    from css_parser.css import SelectorList
    ns, source = case
    if not isinstance(source, str):
        source = [(t, v, 1, 1) for t, v in source]
    old = css_parser.log.raiseExceptions
    css_parser.log.raiseExceptions = False
    try:
        sl = SelectorList()
        sl.selectorText = (source, dict(ns))
        if not sl.wellformed:
            return ["REJ"]
        return ["ACC", [[list(s.specificity), _items(s)] for s in sl]]
    except Exception as e:  # noqa
        return ["CRASH", type(e).__name__, str(e)[:200]]
    finally:
        css_parser.log.raiseExceptions = old


def parse_list_result(x):
    if x in ("CRASH", "REJ"):
        return [x]
    ms = []
    for m in x[4:].split("@"):
        r = parse_result("ACC " + m)
        ms.append([r[1], r[2]])
    return ["ACC", ms]


def impl_page(text):
    _setup()
    import css_parser
    old = css_parser.log.raiseExceptions
    css_parser.log.raiseExceptions = False
    try:
        from css_parser.css import CSSPageRule
        r = CSSPageRule(selectorText=text)
        sp = list(r.specificity)
        r2 = CSSPageRule(selectorText=r.selectorText)
        return ["OK", sp, r.selectorText, list(r2.specificity)]
    except Exception as e:  # noqa
        return ["CRASH", type(e).__name__, str(e)[:200]]
    finally:
        css_parser.log.raiseExceptions = old


# ---------------------------------------------------------------------------------------------- wire format
def cps(x):
    return ",".join(str(ord(c)) for c in x)


def uncps(x):
    return "".join(chr(int(c)) for c in x.split(",") if c)


def ns_wire(ns):
    return ";".join("%s:%s" % (cps(p), cps(u)) for p, u in ns)


def parse_result(x):
    if x == "CRASH":
        return ["CRASH"]
    if x == "REJ":
        return ["REJ"]
    head, _, items = x.partition("|")
    _, b, c, d = head.split(" ")
    its = []
    for it in (items.split(";") if items else []):
        ty, kind, a, bb = it.split("~")
        if kind == "P":
            a = a[0] + uncps(a[1:])
            its.append([uncps(ty), "P", a, uncps(bb)])
        else:
            its.append([uncps(ty), kind, uncps(a), ""])
    return ["ACC", [0, int(b), int(c), int(d)], its]


def compare(model, impl):
    if model[0] != impl[0]:
        return "model %s, implementation %s" % (model[0], impl[:3])
    if model[0] == "ACC":
        if model[1] != impl[1]:
            return "specificity: model %s, implementation %s" % (model[1], impl[1])
        if model[2] != impl[2]:
            return "seq: model %s, implementation %s" % (model[2], impl[2])
    return None


# ---------------------------------------------------------------------------------------------- grammar generator
NAMES = ["a", "b", "div", "x-y", "_u", "-m", "A", "Sp", "h1", "\xe9t", "li", "first-line", "FIRST-LETTER", "before",
         "After", "hover", "where", "WHERE", "lang", "nth-child", "n", "en", "odd", "not-x", "p", "q"]
FNAMES = ["lang", "nth-child", "where", "WHERE", "Where", "nth-of-type", "x", "dir", "f-g", "\xe9"]
SVALS = [" ", "\n", "  ", "\t", " \n "]
CVALS = ["/**/", "/*c*/", "/* x */", "/*:*/", "/***/"]
# every value the machine compares token / item values against, used as DATA (quoted attribute values, pseudo arguments,
# escaped identifiers in the soup): data must never be taken for syntax
META = ["[", "]", "(", ")", "*", "|", ":", ".", "#", "+", ">", "~", ",", "-", "=", " ", "not(", "::", ":x", ".c", "#h", "*|*",
        "/**/", "[x]", "][", ":where(", ":first-line", "|=", "~="]
STRS = ['"x"', "'y'", '"a b"', '"\\""', '""', "' '", '"+"'] + ['"%s"' % m for m in META] + ["'%s'" % m for m in META[:14]]
HASHES = ["#a", "#1a", "#-x", "#A_b", "#\xe9"]
DIMS = ["2n", "-3n", "3px", "10n"]
NUMS = ["1", "+1", "-2", "0", "2.5"]
NSMAP = [("p", "u:p"), ("q", "u:q"), ("", "u:default")]
LEGACY = (":first-line", ":first-letter", ":before", ":after")


class Gen:
    """random derivation of the grammar of coq/theories/Selector.v: returns the prefix-notation words for the
    OCaml driver and the specificity triple computed by construction"""

    def __init__(self, rng, ns):
        self.r = rng
        self.prefixes = [p for p, _ in ns if p]

    def st(self, x):
        return "=" + cps(x)

    def wsl(self, nospace_start=False, nospace_end=False, p=0.35):
        out, last_s = [], nospace_start
        while self.r.random() < p and len(out) < 3:
            if last_s or self.r.random() < 0.4:
                out.append(("C", self.r.choice(CVALS)))
                last_s = False
            else:
                out.append(("S", self.r.choice(SVALS)))
                last_s = True
        if nospace_end and out and out[-1][0] == "S":
            out.pop()
        return out

    def w_wsl(self, w):
        return [str(len(w))] + [x for k, v in w for x in (k, self.st(v))]

    def cm(self):
        n = 0
        while self.r.random() < 0.15 and n < 2:
            n += 1
        return [str(n)] + [self.st(self.r.choice(CVALS)) for _ in range(n)]

    def name(self):
        return self.r.choice(NAMES)

    def nsq(self, attr=False):
        x = self.r.random()
        if x < 0.6 or (not self.prefixes and x < 0.8):
            return ["ND"]
        if x < 0.7:
            return ["NA"]
        if x < 0.8 or not self.prefixes:
            return ["NN"]
        return ["NP", self.st(self.r.choice(self.prefixes))]

    def attr(self):
        w = self.w_wsl(self.wsl()) + self.nsq() + [self.st(self.name())] + self.w_wsl(self.wsl())
        if self.r.random() < 0.4:
            return w + ["R0"]
        op = self.r.choice(["EQ", "IN", "DA", "PR", "SU", "SB"])
        v = ["VI", self.st(self.name())] if self.r.random() < 0.5 else ["VS", self.st(self.r.choice(STRS))]
        return w + ["R1", op] + self.w_wsl(self.wsl()) + v + self.w_wsl(self.wsl())

    def expr(self):
        n = self.r.randint(1, 4)
        out, prev = [str(n)], None
        for i in range(n):
            k = self.r.choice(["E+", "E-", "ED", "EN", "ES", "EI"])
            if k == "ED":
                t = ["ED", self.st(self.r.choice(DIMS))]
            elif k == "EN":
                t = ["EN", self.st(self.r.choice(NUMS))]
            elif k == "ES":
                t = ["ES", self.st(self.r.choice(STRS))]
            elif k == "EI":
                t = ["EI", self.st(self.name())]
            else:
                t = [k]
            # a separator is needed after every token but the last so that the text re-tokenizes to the same tokens
            if i < n - 1:
                w = self.wsl(p=0.5)
                if not w:
                    w = [("S", " ")] if self.r.random() < 0.7 else [("C", "/**/")]
            else:
                w = self.wsl()
            out += t + self.w_wsl(w)
        return out

    def pseudo(self, want_element):
        """returns (words, triple, is_element)"""
        if self.r.random() < 0.6:
            n = self.name()
            legacy = (":" + n.lower()) in LEGACY
            if want_element:
                dbl = 0 if legacy and self.r.random() < 0.6 else 1
            else:
                dbl = 0
                while legacy:
                    n = self.name()
                    legacy = (":" + n.lower()) in LEGACY
            el = bool(dbl) or legacy
            return ["PI", str(dbl), self.st(n)], ((0, 0, 1) if el else (0, 1, 0)), el
        n = self.r.choice(FNAMES)
        dbl = 1 if want_element else 0
        tr = (0, 0, 1) if dbl else ((0, 0, 0) if n.lower() == "where" else (0, 1, 0))
        return ["PF", str(dbl), self.st(n)] + self.w_wsl(self.wsl()) + self.expr(), tr, bool(dbl)

    def negarg(self):
        k = self.r.choice(["NT", "NU", "NH", "NC", "NAT", "NPS", "NPS"])
        if k == "NT":
            return ["NT"] + self.nsq() + [self.st(self.name())], (0, 0, 1)
        if k == "NU":
            return ["NU"] + self.nsq(), (0, 0, 0)
        if k == "NH":
            return ["NH", self.st(self.r.choice(HASHES))], (1, 0, 0)
        if k == "NC":
            return ["NC", self.st(self.name())], (0, 1, 0)
        if k == "NAT":
            return ["NAT"] + self.attr(), (0, 1, 0)
        w, tr, _ = self.pseudo(self.r.random() < 0.2)
        return ["NPS"] + w, tr

    def simple(self):
        k = self.r.choice(["SH", "SC", "SC", "SA", "SP", "SP", "SN"])
        if k == "SH":
            return ["SH", self.st(self.r.choice(HASHES))], (1, 0, 0)
        if k == "SC":
            return ["SC", self.st(self.name())], (0, 1, 0)
        if k == "SA":
            return ["SA"] + self.attr(), (0, 1, 0)
        if k == "SP":
            w, tr, _ = self.pseudo(False)
            return ["SP"] + w, tr
        a, tr = self.negarg()
        return ["SN"] + self.w_wsl(self.wsl()) + a + self.w_wsl(self.wsl()), tr

    def compound(self):
        tr = [0, 0, 0]

        def add(t):
            for i in range(3):
                tr[i] += t[i]
        x = self.r.random()
        if x < 0.45:
            head = ["HT"] + self.nsq() + [self.st(self.name())]
            add((0, 0, 1))
        elif x < 0.6:
            head = ["HU"] + self.nsq()
        else:
            head = ["H0"]
        n = self.r.choice([0, 0, 1, 1, 1, 2, 3])
        pe = self.r.random() < 0.2
        if head == ["H0"] and n == 0 and not pe:
            n = 1
        rest = [str(n)]
        for _ in range(n):
            w, t = self.simple()
            rest += self.cm() + w
            add(t)
        if pe:
            w, t, _ = self.pseudo(True)
            tail = ["P1"] + self.cm() + w
            add(t)
        else:
            tail = ["P0"]
        return head + rest + tail, tr

    def comb(self):
        k = self.r.choice(["CD", "CD", "CC", "CA", "CS"])
        if k == "CD":
            return ["CD"] + self.w_wsl(self.wsl(nospace_end=True, p=0.2)) + [self.st(self.r.choice(SVALS))] + \
                self.w_wsl(self.wsl(nospace_start=True, p=0.2))
        return [k] + self.w_wsl(self.wsl()) + self.w_wsl(self.wsl())

    def selector(self):
        words, tr = self.compound()
        total = list(tr)
        m = self.r.choice([0, 0, 1, 1, 2, 3])
        more = [str(m)]
        for _ in range(m):
            c, t = self.compound()
            more += self.comb() + c
            for i in range(3):
                total[i] += t[i]
        return self.w_wsl(self.wsl()) + words + more + self.w_wsl(self.wsl()), total


def gen_ast_cases(rng, n):
    cases = []
    for _ in range(n):
        ns = [x for x in NSMAP if rng.random() < 0.7]
        words, tr = Gen(rng, ns).selector()
        cases.append((ns, words, tr))
    return cases


# ---------------------------------------------------------------------------------------------- token soup
SOUP = [("IDENT", "a"), ("IDENT", "p"), ("IDENT", "not"), ("CHAR", ":"), ("CHAR", "."), ("CHAR", "*"), ("CHAR", "|"),
        ("CHAR", "["), ("CHAR", "]"), ("CHAR", "("), ("CHAR", ")"), ("CHAR", "="), ("CHAR", "+"), ("CHAR", "-"),
        ("CHAR", ">"), ("CHAR", "~"), ("CHAR", ","), ("S", " "), ("COMMENT", "/**/"), ("HASH", "#h"),
        ("FUNCTION", "not("), ("FUNCTION", "f("), ("FUNCTION", "NOT("), ("FUNCTION", "where("), ("STRING", '"s"'),
        ("STRING", '" "'), ("NUMBER", "1"), ("DIMENSION", "2n"), ("INCLUDES", "~="), ("DASHMATCH", "|="),
        ("PREFIXMATCH", "^="), ("SUFFIXMATCH", "$="), ("SUBSTRINGMATCH", "*="), ("ATKEYWORD", "@x"),
        ("IMPORT_SYM", "@import"), ("PERCENTAGE", "1%"), ("URI", "url(x)"), ("IDENT", "before"), ("IDENT", "\\3a x"),
        ("IDENT", "b\\("), ("IDENT", ":"), ("IDENT", "*"), ("EOF", ""), ("CHAR", "+-"), ("CHAR", ""), ("CHAR", "+>"),
        ("universal", "*|*|*"), ("universal", "p|*"), ("class", ".k"), ("pseudo-class", ":x"), ("pseudo-element", "::y("),
        ("negation", ":not("), ("namespace_prefix", "q|"), ("STRING", "x"), ("CHAR", "{"), ("IDENT", "FIRST-LINE"),
        ("CHAR", ";"), ("UNICODE-RANGE", "U+1"), ("IDENT", "K"), ("FUNCTION", "n\\ot(")]
SOUP += [("IDENT", "\\p"), ("IDENT", "\\q"), ("IDENT", "p\\-"), ("IDENT", "\\-p"), ("IDENT", "\\70 "), ("IDENT", "P")]   # prefixes with escapes
SOUP += [("STRING", '"%s"' % m) for m in META] + [("IDENT", m) for m in META] + [("STRING", m + m) for m in META[:14]] + \
    [("HASH", "#" + m) for m in META[:6]] + [("DIMENSION", "1" + m) for m in META[:4]]
SMALL = [("IDENT", "a"), ("CHAR", ":"), ("CHAR", "."), ("CHAR", "*"), ("CHAR", "|"), ("CHAR", "["), ("CHAR", "]"),
         ("CHAR", ")"), ("CHAR", "="), ("CHAR", "+"), ("CHAR", ">"), ("S", " "), ("COMMENT", "/**/"), ("HASH", "#h"),
         ("FUNCTION", "not("), ("FUNCTION", "f("), ("STRING", '"["'), ("NUMBER", "1"), ("IDENT", "p"),
         ("DASHMATCH", "|=")]
TEXT_ALPHA = list("ab*|.:#[]()=~^$+>- ,\"'\\@1n") + ["/**/", "not(", "::", "p|", "lang(", " ", "first-line", "\\3a ", "\n"]


def gen_soup(rng, n, ast_tokens):
    cases = []
    for i in range(n):
        ns = [x for x in NSMAP if rng.random() < 0.7]
        x = rng.random()
        if x < 0.45 or not ast_tokens:
            toks = [rng.choice(SOUP) for _ in range(rng.randint(0, 9))]
        else:
            toks = list(rng.choice(ast_tokens))
            for _ in range(rng.randint(1, 3)):
                y = rng.random()
                if toks and y < 0.35:
                    del toks[rng.randrange(len(toks))]
                elif toks and y < 0.55:
                    k = rng.randrange(len(toks))
                    toks.insert(k, toks[k])
                elif len(toks) > 1 and y < 0.75:
                    k = rng.randrange(len(toks) - 1)
                    toks[k], toks[k + 1] = toks[k + 1], toks[k]
                else:
                    toks.insert(rng.randint(0, len(toks)), rng.choice(SOUP))
        cases.append((ns, [tuple(t) for t in toks]))
    return cases


def pool_for_lists(soup, n_soup, ast_tokens, rng):
    return [soup[rng.randrange(n_soup)][1], [tuple(x) for x in ast_tokens[rng.randrange(len(ast_tokens))]]]


def gen_texts(rng, n):
    out = []
    for _ in range(n):
        ns = [x for x in NSMAP if rng.random() < 0.7]
        out.append((ns, "".join(rng.choice(TEXT_ALPHA) for _ in range(rng.randint(1, 12)))))
    return out


# ---------------------------------------------------------------------------------------------- @page selectors
PAGE_NAMES = ["toc", "Auto2", "x-y", "_p", "first", "left", "a"]
PAGE_PSEUDO = ["first", "left", "right", "FIRST", "Left", "f\\irst"]
PAGE_BLOCKS = ["{}", "{ margin: 1cm }", "{margin:0;size:a4}", '{ @top-left { content: "x" } margin: 1cm }', "{ foo: bar }",
               "{;}", "{ margin: 1cm } ", "{ margin: }", "{ color }", "{ @media print {} }", "{ @top-left { content: } }",
               "{ margin: 1cm; @page {} }", "{ margin: 1cm", '{ @top-left { content: "x" }', "{ margin:1cm } x", "",
               "{ margin: 1cm }}", "{ margin: 1cm;", '{ @top-left { content: "x" ', "{ marg/**/in: 1cm }", "{ margin: 1cm }x{}"]
PAGE_BAD_SEL = [":", "auto", "a :first", "a b", ":first:left", ":first x", "a{", ": first", ":1", "a:", "::first", ",",
                "a,b", ".a", "#a", "a.b", '"s"', ":first/**/:left", "a /**/:left", "1a", "a:first b", ":left :first"]


def gen_page_selector(rng):
    """a derivation of the page grammar of Selector.v: text and (named, first, left-or-right) by construction"""
    ws = lambda: rng.choice(["", "", " ", "/**/", " /*c*/ ", "\n"])  # noqa
    name = rng.choice(["", ""] + PAGE_NAMES)
    pseudo = rng.choice(["", ""] + PAGE_PSEUDO)
    mid = rng.choice(["", "", "", "/**/", "/*a*//*b*/"]) if name else ""
    text = ws() + name + mid + ((":" + pseudo) if pseudo else "") + ws()
    low = pseudo.replace("\\", "").lower()
    return text, [1 if name else 0, 1 if low == "first" else 0, 1 if low in ("left", "right") else 0]


def gen_page_histories(rng, n):
    out = []
    for _ in range(n):
        steps, exp = [], []
        cur = [0, 0, 0]
        for _ in range(rng.randint(2, 5)):
            x = rng.random()
            if x < 0.3:      # valid selector through selectorText
                text, tr = gen_page_selector(rng)
                steps.append(("selectorText", text, None))
            elif x < 0.45:   # invalid selector through selectorText
                steps.append(("selectorText", rng.choice(PAGE_BAD_SEL), None))
            elif x < 0.9:    # cssText: valid or invalid selector + any block
                if rng.random() < 0.8:
                    sel, tr = gen_page_selector(rng)
                else:
                    sel = rng.choice(PAGE_BAD_SEL)
                    if "{" in sel:
                        sel = "a b"
                block = rng.choice(PAGE_BLOCKS)
                sep = "" if sel.startswith((":", " ", "/", "\n")) or not sel else " "
                steps.append(("cssText", "@page" + sep + sel + block, block))
            else:            # not an @page rule at all
                steps.append(("cssText", rng.choice(["a { x:1 }", "@media print {}", "toc:first {}", ""]), None))
        out.append((steps, rng.random() < 0.5))
    return out


def page_definition(selector_text):
    """(named, first, left/right) read off a serialised page selector; None when it is not of the grammar"""
    import re as _re
    x = _re.sub(r"/\*.*?\*/", "", selector_text, flags=_re.S).strip()
    m = _re.match(r"^(-?[A-Za-z_][-\w]*)?(?::([A-Za-z\\]+))?$", x)
    if not m:
        return None
    ps = (m.group(2) or "").replace("\\", "").lower()
    if ps and ps not in ("first", "left", "right"):
        return None
    return [1 if m.group(1) else 0, 1 if ps == "first" else 0, 1 if ps in ("left", "right") else 0]


# ---------------------------------------------------------------------------------------------- the check
def oracle_full(ns, text, expected, full):
    """property statement on the implementation; None or a description"""
    toks, r, rr = full
    if r[0] == "CRASH":
        return "Selector raised %s on a well-formed selector: %s" % (r[1], r[2])
    if r[0] == "REJ":
        return "well-formed selector rejected"
    if r[1] != [0] + list(expected):
        return "specificity %s, CSS definition gives %s" % (r[1], [0] + list(expected))
    if rr is None or rr[0] != "ACC":
        return "serialisation %r does not re-parse" % (r[3],)
    if rr[1] != r[1]:
        return "specificity changes on re-parse of %r: %s -> %s" % (r[3], r[1], rr[1])
    return None


def run(ctx):
    thorough = ctx.tier == "thorough"
    rng = ctx.rng
    ctx.regen("selconsts")      # Gen/Prefs.v, Gen/Quote.v (used by the serialiser model) are regenerated by C05 / C03
    ctx.coq_build("props/C16.v")
    binary = ctx.ocaml_build("selector")
    cp = VERIF / "corpus" / "C16.json"
    corpus = json.loads(cp.read_text()) if cp.exists() else {}
    mism, n_eval, nontrivial = [], 0, set()
    samples = []

    # ---- (a) grammar stream: AST -> Coq renderer -> tokens/text -> implementation
    n_ast = 60000 if thorough else 6000
    asts = gen_ast_cases(rng, n_ast)
    ast_tokens = []
    stats = {"accepted_by_impl": 0, "with_negation": 0, "with_function": 0, "with_namespace": 0, "with_comment": 0}
    if binary:
        lines = ["A|%s|%s" % (ns_wire(ns), " ".join(w)) for ns, w, _ in asts]
        out = ctx.run_binary(binary, lines, shards=PROCS)
        texts, parsed = [], []
        for (ns, w, tr), o in zip(asts, out):
            if o.startswith("BAD"):
                mism.append(("ast", " ".join(w)[:300], "driver could not read the AST: " + o))
                texts.append((ns, ""))
                parsed.append(None)
                continue
            head, toks, res = o.split("|", 2)
            decl, b, c, d, sepfree = [int(x) for x in head.split(" ")]
            decl = decl and sepfree      # both side conditions of the theorems must hold for generated derivations
            mtoks = [[uncps(t.split(":")[0]), uncps(t.split(":")[1])] for t in toks.split(";")]
            texts.append((ns, "".join(v for _, v in mtoks)))
            parsed.append((decl, [b, c, d], mtoks, parse_result(res)))
        fulls = ctx.pool_map(impl_full, texts, procs=PROCS, chunksize=128)
        found = []
        for (ns, w, tr), (_, text), p, full in zip(asts, texts, parsed, fulls):
            if p is None:
                continue
            n_eval += 1
            decl, coq_tr, mtoks, mres = p
            itoks, r, rr = full
            ast_tokens.append(mtoks)
            if not decl:
                mism.append(("ast", text, "generated derivation is not Declared in Coq"))
                continue
            if coq_tr != list(tr):
                mism.append(("ast", text, "sp_selector (Coq) %s differs from the harness's by-construction triple %s"
                             % (coq_tr, list(tr))))
            if itoks != mtoks:
                mism.append(("ast", text, "Coq renderer tokens differ from the tokenizer's: %s vs %s" % (mtoks, itoks)))
                continue
            d = compare(mres, r[:3])
            if d:
                mism.append(("ast", text, d))
            if mres[0] == "ACC" and mres[1] != [0] + coq_tr:
                mism.append(("ast", text, "model result %s contradicts specificity_correct (%s)" % (mres[1], coq_tr)))
            v = oracle_full(ns, text, tr, full)
            if v:
                found.append((len(text), v, {"kind": "selector", "text": text, "ns": ns, "expected": [0] + list(tr)}))
            else:
                stats["accepted_by_impl"] += 1
                nontrivial.add(text)
            stats["with_negation"] += ":not(" in text
            stats["with_function"] += "PF" in w
            stats["with_namespace"] += "|" in text
            stats["with_comment"] += "/*" in text
            if len(samples) < 5 and len(text) > 12:
                samples.append({"text": text, "ns": ns, "specificity": [0] + list(tr)})

        for _, v, wit in sorted(found, key=lambda x: x[0]):     # shortest failing selectors first
            ctx.violation(v, wit, sig_text=json.dumps(wit["text"]))

        # ---- (b) token soup / mutated renderings / random texts; (c) all short token sequences
        soup = [(c[0], [tuple(t) for t in c[1]]) for c in corpus.get("tokens", [])]
        soup += gen_soup(rng, 40000 if thorough else 6000, ast_tokens)
        for ns, text in [tuple(c) for c in corpus.get("texts", [])] + gen_texts(rng, 20000 if thorough else 3000):
            try:
                soup.append(([tuple(x) for x in ns], [tuple(t) for t in impl_tokens(text)]))
            except Exception:  # noqa
                pass
        n_soup = len(soup)
        depth = 4 if thorough else 3
        for n in range(0, depth + 1):
            for tup in itertools.product(SMALL, repeat=n):
                soup.append(([("p", "u:p")], list(tup)))
        lines = ["T|%s|%s" % (ns_wire(ns), ";".join("%s:%s" % (cps(t), cps(v)) for t, v in toks)) for ns, toks in soup]
        out = ctx.run_binary(binary, lines, shards=PROCS)
        res = ctx.pool_map(impl_select, soup, procs=PROCS, chunksize=512)
        acc = 0
        for (ns, toks), o, r in zip(soup, out, res):
            n_eval += 1
            m = parse_result(o)
            d = compare(m, r[:3])
            acc += m[0] == "ACC"
            if d:
                mism.append(("tokens", [list(map(list, ns)), [list(t) for t in toks]], d))
        stats["soup_cases"] = n_soup
        stats["exhaustive_cases"] = len(soup) - n_soup
        stats["soup_and_exhaustive_accepted"] = acc

        # ---- (s) the serialiser model (do_css_Selector over the shared Out model) against selectorText, on every
        #          accepted case of the grammar stream and of the token stream
        scases = [(ns, [tuple(x) for x in p_[2]], full[1]) for (ns, w, tr), p_, full in zip(asts, parsed, fulls)
                  if p_ is not None and full[1][0] == "ACC"]
        n_grammar_ser = len(scases)      # ser_tokens (token level) is compared on grammar derivations only
        scases += [(ns, toks, r) for (ns, toks), r in zip(soup, res) if r[0] == "ACC"]
        sout = ctx.run_binary(binary, ["S|%s|%s" % (ns_wire(ns), ";".join("%s:%s" % (cps(a), cps(b)) for a, b in toks))
                                       for ns, toks, _ in scases], shards=PROCS)
        stats["serialisations_compared"] = len(scases)
        for k_, ((ns, toks, r), o) in enumerate(zip(scases, sout)):
            n_eval += 1
            mt, mtoks_ = None, None
            if o.startswith("="):
                a_, _, b_ = o[1:].partition("|")
                mt = uncps(a_)
                mtoks_ = [[uncps(x.split(":")[0]), uncps(x.split(":")[1])] for x in b_.split(";") if x]
            if mt != r[3]:
                mism.append(("serialise", [list(map(list, ns)), [list(x) for x in toks]],
                             "model %r, selectorText %r" % (mt, r[3])))
            elif k_ < n_grammar_ser:
                try:
                    it_ = impl_tokens(r[3])
                except Exception as e_:  # noqa
                    it_ = ["EXC", type(e_).__name__]
                if it_ != mtoks_:
                    mism.append(("ser_tokens", r[3], "ser_tokens (model) %s, Tokenizer(selectorText) %s" % (mtoks_, it_)))

        # ---- (g) SelectorList: comma separated grammar selectors (oracle: every member its own triple) and comma soup
        gl = [(ns, text, tr, toks) for (ns, w, tr), (_, text), toks in zip(asts, texts, ast_tokens) if text]
        lcases, lexp = [], []
        for k in range(0, min(len(gl) - 3, 9000 if thorough else 1800), 3):
            n = rng.choice([1, 2, 2, 3])
            part = gl[k:k + n]
            ns = sorted(set(x for p_ in part for x in p_[0]))
            if len({a for a, _ in ns}) != len(ns):
                continue
            toks = []
            for i_, p_ in enumerate(part):
                if i_:
                    toks.append(("CHAR", ","))
                toks += [tuple(x) for x in p_[3]]
            lcases.append((ns, toks))
            lexp.append([p_[2] for p_ in part])
        n_good = len(lcases)
        for _ in range(8000 if thorough else 1500):
            ns = [x for x in NSMAP if rng.random() < 0.7]
            toks = []
            for _ in range(rng.randint(1, 4)):
                toks += list(rng.choice(pool_for_lists(soup, n_soup, ast_tokens, rng)))
                if rng.random() < 0.8:
                    toks.append(rng.choice([("CHAR", ","), ("CHAR", ","), ("IDENT", ","), ("STRING", '","'), ("CHAR", "")]))
            lcases.append((ns, toks))
        lines = ["L|%s|%s" % (ns_wire(ns), ";".join("%s:%s" % (cps(a), cps(b)) for a, b in toks)) for ns, toks in lcases]
        lout = ctx.run_binary(binary, lines, shards=PROCS)
        lres = ctx.pool_map(impl_selectorlist, lcases, procs=PROCS, chunksize=128)
        stats["selectorlists"] = len(lcases)
        lfound = []
        for k, ((ns, toks), o, r) in enumerate(zip(lcases, lout, lres)):
            n_eval += 1
            m = parse_list_result(o)
            if m[0] != r[0] or (m[0] == "ACC" and m[1] != r[1]):
                mism.append(("selectorlist", [list(map(list, ns)), [list(x) for x in toks]], "model %s, implementation %s"
                             % (str(m)[:300], str(r)[:300])))
            if k < n_good:
                text = "".join(v for _, v in toks)
                want = [[0] + list(e) for e in lexp[k]]
                got = [x[0] for x in r[1]] if r[0] == "ACC" else r[:2]
                if got != want:
                    lfound.append((len(text), "SelectorList members report %s, CSS definition gives %s" % (got, want),
                                   {"kind": "selectorlist", "ns": ns, "tokens": [list(x) for x in toks], "text": text,
                                    "expected": want}))
        for _, v, wit in sorted(lfound, key=lambda x: x[0])[:50]:
            ctx.violation(v, wit, sig_text=json.dumps(wit["text"]))

        # ---- (d) re-assignment histories on one Selector object (commit guard), both error modes
        pool = [toks for _, toks in soup[:n_soup]] + [[tuple(x) for x in ts] for ts in ast_tokens[:3000]]
        hists = []
        for _ in range(20000 if thorough else 3000):
            ns = [x for x in NSMAP if rng.random() < 0.7]
            hists.append((ns, [rng.choice(pool) for _ in range(rng.randint(2, 4))], rng.random() < 0.5))
        lines = ["H|%s|%s" % (ns_wire(ns), "#".join(";".join("%s:%s" % (cps(a), cps(b)) for a, b in toks) for toks in hs))
                 for ns, hs, _ in hists]
        out = ctx.run_binary(binary, lines, shards=PROCS)
        res = ctx.pool_map(impl_history, hists, procs=PROCS, chunksize=256)
        stats["histories"], stats["histories_skipped_model_crash_in_raising_mode"] = len(hists), 0
        for (ns, hs, raising), o, r in zip(hists, out, res):
            n_eval += 1
            m = ["EMPTY"] if o == "EMPTY" else parse_result(o)
            if raising and m[0] == "CRASH":
                stats["histories_skipped_model_crash_in_raising_mode"] += 1
                continue
            d = compare(m, r[:3])
            if d:
                mism.append(("history", [list(map(list, ns)), [[list(x) for x in h] for h in hs], raising], d))

        # property-level oracle on re-assignment: valid text (grammar stream) then a rejected text
        good = [(ns, text, tr) for (ns, w, tr), (_, text) in zip(asts, texts) if text][:(12000 if thorough else 2500)]
        bad_pool = BAD_TEXTS + ["".join(v for _, v in toks) for _, toks in soup[:n_soup:7]]
        rcases = [(ns, text, rng.choice(bad_pool), rng.random() < 0.5, rng.random() < 0.3) for ns, text, tr in good]
        rres = ctx.pool_map(impl_reassign, rcases, procs=PROCS, chunksize=128)
        stats["reassignments"] = sum(1 for r in rres if r[0] == "OK")
        rfound = []
        for (ns, text, tr), case, r in zip(good, rcases, rres):
            n_eval += 1
            v = oracle_reassign(text, tr, r)
            if v:
                rfound.append((len(text) + len(case[2]), v, {"kind": "reassign", "ns": ns, "text": text, "then": case[2],
                                                              "raising": case[3], "via_rule": case[4],
                                                              "expected": [0] + list(tr)}))
        for _, v, wit in sorted(rfound, key=lambda x: x[0]):
            ctx.violation(v, wit, sig_text=json.dumps([wit["text"], wit["then"]]))

        # the model's own normalizer against the shared Tokenizer.normalize (validated in C08) and helper.normalize
        from css_parser.helper import normalize as pynorm
        nv = sorted({v for _, v in SOUP} | set(NAMES) | {":" + n for n in NAMES} | {"a\\", "\\", "\\\\(", "A\\g\\41 B"})
        for v, o in zip(nv, ctx.run_binary(binary, ["N|" + cps(v) for v in nv])):
            a, b = o.split("|")
            if not (uncps(a) == uncps(b) == pynorm(v)):
                mism.append(("normalize", v, "Selector.normalize %r, Tokenizer.normalize %r, helper.normalize %r"
                             % (uncps(a), uncps(b), pynorm(v))))

    # ---- (e) @page rules: histories on ONE CSSPageRule through selectorText and cssText, both error modes
    phist = gen_page_histories(rng, 12000 if thorough else 2500)
    pres_ = ctx.pool_map(impl_page_history, [([(a, x) for a, x, _ in steps], raising) for steps, raising in phist],
                         procs=PROCS, chunksize=128)
    bclass = {b: impl_block_class(b) for b in PAGE_BLOCKS}
    stats["page_block_classes"] = "".join(sorted(bclass.values()))
    stats["page_histories"] = len(phist)
    plines = []
    for steps, raising in phist:
        ws_ = []
        for attr, text, block in steps:
            try:
                toks = impl_tokens(text) if text else []
            except Exception:  # noqa
                toks = []
            enc = lambda ts: ";".join("%s:%s" % (cps(a), cps(b)) for a, b in ts)  # noqa
            if attr == "selectorText":
                ws_.append("S/" + enc(toks))
            else:
                ispage = bool(toks) and toks[0][0] == "PAGE_SYM"
                sel = []
                for ty, v in toks[1:]:
                    if ty == "CHAR" and v == "{":
                        break
                    sel.append((ty, v))
                ws_.append("C/%d/%s/%s" % (ispage, bclass.get(block, "R") if block is not None else "R", enc(sel)))
        plines.append("P|%d|%s" % (raising, "#".join(ws_)))
    pout = ctx.run_binary(binary, plines, shards=PROCS) if binary else [None] * len(plines)
    pfound = []
    for (steps, raising), r, o in zip(phist, pres_, pout):
        n_eval += 1
        wit = {"kind": "pagehistory", "steps": [[a, x] for a, x, _ in steps], "raising": raising}
        if r[0] != "OK":
            pfound.append((len(str(steps)), "CSSPageRule raised %s: %s" % (r[1], r[2]), wit))
            continue
        # correspondence with page_assign
        if o is not None:
            for k, (st, ms) in enumerate(zip(r[1], o.split("@"))):
                if ms == "UNMOD" or not ms:
                    break
                spec_s, _, items_s = ms.partition("~")
                mspec = [int(x) for x in spec_s.split(" ")]
                mitems = [[uncps(i.split(":")[0]), uncps(i.split(":")[1])] for i in items_s.split(";") if i]
                if mspec != st[0] or mitems != st[1]:
                    mism.append(("page", wit, "step %d: model %s %s, implementation %s %s" % (k, mspec, mitems, st[0], st[1])))
                    break
        # oracle: after every step the rule reports the definition applied to its CURRENT selectorText
        for k, st in enumerate(r[1]):
            d = page_definition(st[2])
            if d is None:
                continue
            if st[0] != d:
                pfound.append((len(str(steps[:k + 1])), "after step %d the @page rule with selector %r reports %s, definition "
                               "gives %s" % (k, st[2], st[0], d), dict(wit, steps=wit["steps"][:k + 1])))
                break
            if st[3] != st[0]:
                pfound.append((len(str(steps[:k + 1])), "@page selector %r reports %s but re-parses to %s" % (st[2], st[0], st[3]),
                               dict(wit, steps=wit["steps"][:k + 1])))
                break
    for _, v, wit in sorted(pfound, key=lambda x: x[0])[:50]:
        ctx.violation(v, wit, sig_text=json.dumps(wit["steps"]))

    # ---- (f) style rules: a rejected rule-level assignment (cssText / selectorText) leaves every Selector of the list
    #          with its own text and the by-construction specificity
    if binary:
        gsel = [(ns, text, tr) for (ns, w, tr), (_, text) in zip(asts, texts) if text and "," not in text]
        rcases, rexp = [], []
        for k in range(0, min(len(gsel) - 1, 8000 if thorough else 1600), 2):
            (ns, t1, tr1), (ns2, t2, tr2) = gsel[k], gsel[k + 1]
            ns = ns if ns == ns2 else sorted(set(ns) | set(ns2))
            if len({p_ for p_, _ in ns}) != len(ns):
                continue
            sels = [t1, t2] if rng.random() < 0.6 else [t1]
            attr = rng.choice(["cssText", "selectorText"])
            rcases.append((ns, sels, attr, rng.choice(BAD_RULE_CSS if attr == "cssText" else BAD_RULE_SEL), rng.random() < 0.5))
            rexp.append([tr1, tr2][:len(sels)])
        rres = ctx.pool_map(impl_rule_reassign, rcases, procs=PROCS, chunksize=64)
        stats["rule_reassignments"] = sum(1 for r in rres if r[0] == "OK")
        sfound = []
        for case, exp, r in zip(rcases, rexp, rres):
            n_eval += 1
            wit = {"kind": "rulereassign", "ns": case[0], "selectors": case[1], "attr": case[2], "then": case[3],
                   "raising": case[4], "expected": [[0] + list(e) for e in exp]}
            v = oracle_rule_reassign(exp, r)
            if v:
                sfound.append((len(str(case[1])), v, wit))
        for _, v, wit in sorted(sfound, key=lambda x: x[0])[:50]:
            ctx.violation(v, wit, sig_text=json.dumps([wit["selectors"], wit["then"]]))

    # ---- (h) sheets: @namespace rules + style rules, serialised under default / minified / keepUsedNamespaceRulesOnly
    #          preferences and parsed again: per-rule specificity lists must be the by-construction ones both times
    if binary:
        gs = [(ns, text, tr) for (ns, w, tr), (_, text) in zip(asts, texts) if text and "," not in text.replace('","', "")]
        hcases, hexp = [], []
        k = 0
        n_sheets = 6000 if thorough else 1200
        while k < len(gs) - 4 and len(hcases) < n_sheets:
            n_rules = rng.choice([1, 1, 2, 3])
            rules, exp, nsu = [], [], []
            for _ in range(n_rules):
                n_sel = rng.choice([1, 1, 2])
                part = gs[k:k + n_sel]
                k += n_sel
                rules.append([x[1] for x in part])
                exp.append([x[2] for x in part])
                for x in part:
                    nsu += [y for y in x[0] if y not in nsu]
            if len({a for a, _ in nsu}) != len(nsu):
                continue
            hcases.append((nsu, rules, rng.choice(["default", "minified", "minified", "usedns"])))
            hexp.append(exp)
        hres = ctx.pool_map(impl_sheet_reparse, hcases, procs=PROCS, chunksize=64)
        stats["sheet_reparses"] = len(hcases)
        hfound = []
        for case, exp, r in zip(hcases, hexp, hres):
            n_eval += 1
            v = oracle_sheet_reparse(exp, r)
            if v:
                hfound.append((len(str(case[1])), v, {"kind": "sheetreparse", "ns": case[0], "rules": case[1], "prefs": case[2],
                                                      "expected": exp}))
        for _, v, wit in sorted(hfound, key=lambda x: x[0])[:50]:
            ctx.violation(v, wit, sig_text=json.dumps([wit["rules"], wit["prefs"]]))

    if mism and os.environ.get("C16_DUMP"):
        open(os.environ["C16_DUMP"], "w").write(json.dumps(mism, indent=0, default=str))
    if mism:
        ctx.broken("correspondence", "Selector._setSelectorText vs CssV.Selector.select",
                   "%d cases differ; first: %s" % (len(mism), json.dumps(mism[:3], default=str)[:2500]))

    # ---- stored witnesses of open findings are re-run
    for f in ctx.findings:
        if f.get("status") == "open":
            d = replay_one(f["witness"])
            if d:
                ctx.violation(d, f["witness"], sig_text=json.dumps(f["witness"].get("text")))

    def search():
        t0 = time.time()
        while time.time() - t0 < (300 if thorough else 60):
            batch = gen_ast_cases(rng, 3000)
            if not binary:
                return None
            lines = ["A|%s|%s" % (ns_wire(ns), " ".join(w)) for ns, w, _ in batch]
            out = ctx.run_binary(binary, lines, shards=PROCS)
            texts = []
            for (ns, w, tr), o in zip(batch, out):
                toks = o.split("|", 2)[1] if not o.startswith("BAD") else ""
                texts.append((ns, "".join(uncps(t.split(":")[1]) for t in toks.split(";") if t)))
            fulls = ctx.pool_map(impl_full, texts, procs=PROCS, chunksize=128)
            best = None
            for (ns, w, tr), (_, text), full in zip(batch, texts, fulls):
                v = oracle_full(ns, text, tr, full)
                if v and not ctx.match_known(v + " :: " + json.dumps(text)):
                    if best is None or len(text) < len(best["text"]):
                        best = {"kind": "selector", "text": text, "ns": ns, "expected": [0] + list(tr), "fails": v}
            if best:
                return best
            ph = gen_page_histories(rng, 1500)
            pr = ctx.pool_map(impl_page_history, [([(a, x) for a, x, _ in s], r_) for s, r_ in ph], procs=PROCS, chunksize=128)
            for (s, r_), res_ in zip(ph, pr):
                if res_[0] != "OK":
                    continue
                for k, st in enumerate(res_[1]):
                    d = page_definition(st[2])
                    if d is not None and (st[0] != d or st[3] != st[0]):
                        cand = {"kind": "pagehistory", "steps": [[a, x] for a, x, _ in s][:k + 1], "raising": r_,
                                "fails": "@page rule with selector %r reports %s (re-parse %s), definition gives %s"
                                         % (st[2], st[0], st[3], d)}
                        if best is None or len(str(cand["steps"])) < len(str(best.get("steps", best.get("text")))):
                            best = cand
                        break
            if best:
                return best
            rc = [(ns, text, rng.choice(BAD_TEXTS), rng.random() < 0.5, rng.random() < 0.3)
                  for (ns, w, tr), (_, text) in zip(batch, texts) if text]
            rr_ = ctx.pool_map(impl_reassign, rc, procs=PROCS, chunksize=128)
            trs = [tr for (ns, w, tr), (_, text) in zip(batch, texts) if text]
            for case, tr, r in zip(rc, trs, rr_):
                v = oracle_reassign(case[1], tr, r)
                if v and (best is None or len(case[1]) < len(best["text"])):
                    best = {"kind": "reassign", "ns": case[0], "text": case[1], "then": case[2], "raising": case[3],
                            "via_rule": case[4], "expected": [0] + list(tr), "fails": v}
            if best:
                return best
        return None

    ctx.finish({
        "evaluations": n_eval,
        "distinct_nontrivial": len(nontrivial),
        "rule": "grammar stream: random derivations of the Coq selector grammar (compounds, all combinators, attribute "
                "operators, functional pseudos, :not() of every simple kind, namespaces, whitespace/comment layout) "
                "rendered by the extracted Coq renderer, re-tokenized by the real tokenizer; token stream: random and "
                "mutated token lists incl. synthetic types, tokenized random texts, and ALL token sequences of length "
                "<= %d over a %d-token alphabet; re-assignment histories (2-4 assignments to one Selector, logging and "
                "raising mode) and valid-then-rejected assignments (stand-alone and rule.selectorList[0]); histories of "
                "selectorText/cssText assignments on one CSSPageRule (valid / invalid selector x block classes, both modes) "
                "and rejected rule-level assignments on parsed style rules; quoted "
                "attribute values / pseudo arguments / soup values include every literal the machine compares against; "
                "non-trivial = distinct grammar texts accepted with the "
                "by-construction specificity and stable on re-parse" % (4 if thorough else 3, len(SMALL)),
        "samples": samples,
        "distribution": stats,
        "disagreements_checked": n_eval if binary else 0,
        "trusted_base": TRUSTED,
    }, assumptions=ASSUME, search=search)


def replay_one(w):
    if w.get("kind") == "page":
        r = impl_page(w["text"])
        if r[0] != "OK":
            return "CSSPageRule raised %s" % r[1]
        if r[1] != w["expected"] or r[3] != r[1]:
            return "@page specificity %s (re-parse %s), definition gives %s" % (r[1], r[3], w["expected"])
        return None
    ns = [tuple(x) for x in w.get("ns", [])]
    if w.get("kind") == "pagehistory":
        r = impl_page_history(([tuple(x) for x in w["steps"]], w["raising"]))
        if r[0] != "OK":
            return "CSSPageRule raised %s" % r[1]
        for k, st in enumerate(r[1]):
            d = page_definition(st[2])
            if d is not None and st[0] != d:
                return "after step %d the @page rule with selector %r reports %s, definition gives %s" % (k, st[2], st[0], d)
            if d is not None and st[3] != st[0]:
                return "@page selector %r reports %s but re-parses to %s" % (st[2], st[0], st[3])
        return None
    if w.get("kind") == "sheetreparse":
        ns = [tuple(x) for x in w["ns"]]
        return oracle_sheet_reparse(w["expected"], impl_sheet_reparse((ns, w["rules"], w["prefs"])))
    if w.get("kind") == "selectorlist":
        r = impl_selectorlist(([tuple(x) for x in w["ns"]], [tuple(x) for x in w["tokens"]]))
        got = [x[0] for x in r[1]] if r[0] == "ACC" else r[:2]
        return None if got == w["expected"] else "SelectorList members report %s, CSS definition gives %s" % (got, w["expected"])
    if w.get("kind") == "rulereassign":
        ns = [tuple(x) for x in w["ns"]]
        return oracle_rule_reassign([e[1:] for e in w["expected"]],
                                    impl_rule_reassign((ns, w["selectors"], w["attr"], w["then"], w["raising"])))
    if w.get("kind") == "reassign":
        return oracle_reassign(w["text"], w["expected"][1:],
                               impl_reassign((ns, w["text"], w["then"], w["raising"], w["via_rule"])))
    return oracle_full(ns, w["text"], w["expected"][1:], impl_full((ns, w["text"])))


def replay(ctx, path):
    rep = json.loads(open(path).read())
    bad = 0
    for v in rep.get("violations", []):
        w = v["witness"]
        d = replay_one(w)
        print("replay %r -> %s" % (w.get("text"), d or "holds"))
        bad += bool(d)
    return 1 if bad else 0


TRUSTED = [
    "Coq 8.16.1 kernel and VM (vm_compute for the finite checks on the generated tables); no native_compute",
    "translate/selconsts.py (Python ast): constants, substring table computed with Python's own `in`, return sites, "
    "dispatch dict, append() literals; shape of every handler checked against the shape the model was written for",
    "extraction (ExtrOcamlBasic only) + ocamlfind ocamlopt, ocaml/selector_driver.ml (incl. its AST reader)",
    "correspondence harness harness/props/c16.py (generators, canonicalisation of seq items, comparison)",
    "modelled, not verified: Selector._setSelectorText control logic is a hand-written Gallina transcription "
    "(coq/theories/Selector.v); it takes the tokenizer's token list as input (the tokenizer model is C08's)",
    "str.lower() per-character table generated from the interpreter (final-sigma rule not modelled); "
    "Selector.normalize = helper.normalize checked on the harness's value pool only",
    "named hypothesis of the text-level specificity_reparse (ser_text_tokenizes): the tokenizer reads the serialised "
    "text of a grammar selector as ser_tokens describes -- validated on every generated derivation "
    "(ser_seq = selectorText, Tokenizer(selectorText) = ser_tokens), not proved; the token-level theorem needs no "
    "hypothesis; shared models used: Upto.v, OutModel.v + Gen/Prefs.v, Gen/Quote.v (regenerated by their owners' checks)",
    "do_CSSPageRuleSelector is not modelled: @page re-parse stability is oracle-only; of CSSPageRule._setCssText only the commit discipline is modelled: brace matching, "
    "declarations and margin rules enter as the observed block class (O/L/R, measured on a fresh rule by selectorText)",
    "CSSPageRule.__parseSelectorText is a hand transcription (no regenerated constants), tied by correspondence",
]
ASSUME = [
    "Print Assumptions for every theorem of props/C16.v: see coverage.print_assumptions",
    "grammar side conditions (Declared): names are identifiers spelled without backslash escapes, functional pseudo names "
    "other than not, layout tokens are S/COMMENT tokens, prefixes are declared; list theorem: sep_free per member",
    "the `element` attribute of Selector is not modelled",
]
