"""C17 -- numeric and colour values keep their meaning.

proof:          coq/props/C17.v over coq/theories/Numbers.v, Colors.v (exact decimal lexemes, binary64 as the
                Section variable dbl with its error-bound hypothesis, '%f' as exact half-even rounding)
tie:            translate/colors.py regenerates the split regex, _strip_zeros constants, zero-unit list, the
                leading-zero prefixes, reHexcolor, the colour table, the checks table, the _hash constants;
                the hand-written parts (split, do_css_Value, hex/rgb/hsl arithmetic, dbl_exec) are compared with the
                implementation on every case below (floats through as_integer_ratio, never as text)
oracle/search:  the property statement evaluated on the implementation with exact Fractions and an independent
                CSS3 colour specification (hex replication, 147 names typed into Colors.v, rgb/hsl formulas)
"""
import itertools
import json
import re
import time
from fractions import Fraction

from harness.lib import cps, VERIF

ZERO_UNITS_SPEC = ("cm", "mm", "in", "px", "pc", "pt", "em", "ex")      # CSS 2.1 4.3.2 lengths the serializer may drop
UNITS = ["", "%", "px", "PX", "em", "ex", "cm", "mm", "in", "pt", "pc", "s", "ms", "deg", "rad", "hz", "kHz", "dpi",
         "e3", "E-3", "x", "rem", "vw", "_u", "-m", "\xe9m", "Px", "eM"]
# units written with escapes: (text, unit CSS means). The first group needs no escape, the second does.
ESC_UNITS_SAFE = [("p\\78 ", "px"), ("\\70 x", "px"), ("P\\X", "px"), ("\\65 m", "em"), ("٣px", "٣px"),
                  ("e\\m", "em")]
ESC_UNITS_NEEDED = [("\\31 px", "1px"), ("\\.5px", ".5px"), ("p\\a x", "p\nx"), ("px\\a ", "px\n")]
EPS53 = Fraction(1, 2 ** 53)
TINY = Fraction(1, 2 ** 1075)
HALF6 = Fraction(1, 2 * 10 ** 6)
OVERFLOW = Fraction(2 ** 1024 - 2 ** 970)     # smallest magnitude float() rounds to inf


# ------------------------------------------------------------------------------- implementation side
def _setup():
    import logging
    import css_parser
    css_parser.log.setLevel(logging.FATAL)
    return css_parser


def fnum(v):
    """python number -> (kind, numerator, denominator), exact"""
    if isinstance(v, bool) or v is None:
        return ("?", 0, 1)
    if isinstance(v, int):
        return ("I", v, 1)
    if isinstance(v, float):
        if v != v or v in (float("inf"), float("-inf")):
            return ("INF", 0, 1)
        n, d = v.as_integer_ratio()
        return ("F", n, d)
    return ("?", 0, 1)


def impl_num(case):
    """(olz, text) -> what the implementation reports for a single numeric value and for its re-parsed cssText"""
    olz, text = case
    cp = _setup()
    from css_parser.css import PropertyValue
    cp.ser.prefs.omitLeadingZero = bool(olz)
    try:
        pv = PropertyValue(text)
        if len(pv) != 1 or type(pv[0]).__name__ != "DimensionValue":
            return {"err": "not one DimensionValue: %s" % [type(x).__name__ for x in pv]}
        d = pv[0]
        out = {"sign": d._sign, "val": fnum(d.value), "unit": d.dimension or "", "type": d.type}
        try:
            out["ser"] = d.cssText
        except Exception as e:  # noqa
            out["ser_exc"] = type(e).__name__
            return out
        try:
            pv2 = PropertyValue(out["ser"])
            if len(pv2) != 1 or type(pv2[0]).__name__ != "DimensionValue":
                out["second"] = None
            else:
                d2 = pv2[0]
                out["second"] = {"sign": d2._sign, "val": fnum(d2.value), "unit": d2.dimension or "", "type": d2.type}
        except Exception as e:  # noqa
            out["second"] = None
            out["second_exc"] = type(e).__name__
        return out
    except Exception as e:  # noqa
        return {"err": type(e).__name__}
    finally:
        cp.ser.prefs.omitLeadingZero = False


def impl_split(text):
    _setup()
    from css_parser.css.value import DimensionValue
    r = DimensionValue._DimensionValue__reUnNumDim.findall(text)
    return list(r[0]) if r else None


def _color_tuple(c):
    return [fnum(c.red), fnum(c.green), fnum(c.blue), fnum(c.alpha)]


def impl_hash(case):
    mz, text = case
    cp = _setup()
    from css_parser.css import PropertyValue
    cp.ser.prefs.minimizeColorHash = bool(mz)
    try:
        try:
            pv = PropertyValue(text)
        except Exception as e:  # noqa
            return {"err": type(e).__name__}
        if len(pv) != 1 or type(pv[0]).__name__ != "ColorValue":
            return {"nocolor": True}
        out = {"rgba": _color_tuple(pv[0]), "ser": pv[0].cssText}
        try:
            pv2 = PropertyValue(out["ser"])
            out["rgba2"] = _color_tuple(pv2[0]) if len(pv2) == 1 and type(pv2[0]).__name__ == "ColorValue" else None
        except Exception as e:  # noqa
            out["rgba2"] = None
        return out
    finally:
        cp.ser.prefs.minimizeColorHash = True


def impl_color(text):
    """a colour name or rgb()/hsl() function through the public entry"""
    _setup()
    from css_parser.css import PropertyValue
    import xml.dom
    try:
        pv = PropertyValue(text)
    except xml.dom.SyntaxErr:
        return {"invalid": True}
    except Exception as e:  # noqa
        return {"err": type(e).__name__}
    if len(pv) != 1 or type(pv[0]).__name__ != "ColorValue":
        return {"nocolor": True}
    return {"rgba": _color_tuple(pv[0]), "ser": pv[0].cssText, "ctype": pv[0].colorType}


# ------------------------------------------------------------------------------- assignment histories on ONE object
HIST_FIRST = {
    "DimensionValue": ["5px", "-5px", "+5px", "0.5em", "-.25%", "+0.75", "0px", "12.5", "1e3"],
    "ColorValue": ["#abc", "#AABBCC", "red", "rgb(1, 2, 3)", "rgba(10%, 20%, 30%, 0.5)", "hsl(120, 100%, 50%)"],
    "PropertyValue": ["5px", "-0.5em 2px", "+1.5% red", "#aabbcc 0.25px", "rgb(1, 2, 3) -7px"],
}
BIG = "9" * 400
HUGE = "9" * 5000
HIST_SECOND = {
    "DimensionValue": [
        # rejected: out of range with another sign / unit / kind
        "-" + BIG + ".5px", "+" + BIG + ".5em", BIG + ".5%", "-" + BIG + ".5", "-" + HUGE + "px", "+" + HUGE, HUGE + "%",
        # rejected: syntax, arity, wrong kind
        "-5 px", "--5px", "5px 6px", "-7em -8em", "", "-", "+", "red", "#fff", "rgb(1, 2, 3)", "-5px junk", "5px;", "-.",
        "url(x)", "'-3px'", "-3px/2", "calc(1px + 2px)",
        # accepted: the state must follow
        "-3em", "+.5%", "7", "-0.9999999px", "0", "-0.0px"],
    "ColorValue": [
        "rgb(1, 2)", "rgb(1, 2, 3, 4)", "rgba(1, 2, 3)", "hsl(1, 2, 3)", "hsl(1%, 2%, 3%)", "rgb(1, 2%, 3)", "#12", "#abcd",
        "-#fff", "notacolor", "5px", "", "rgb(1, 2, 3", "hsla(1, 2%, 3%)", "rgb(" + BIG + ".5, 0, 0)", "rgb(-" + HUGE + ", 0, 0)",
        "rgba(1, 2, 3, -" + BIG + ".5)", "red blue", "#fff #000",
        "#123", "blue", "rgb(9, 8, 7)", "hsla(240, 100%, 50%, 0.25)"],
    "PropertyValue": [
        "-" + BIG + ".5px", "1px -" + BIG + ".5em", "rgb(1, 2) 5px", "-" + HUGE + "px", "5px )", "(", "-", "", "5px;6px",
        "rgb(1, 2, 3, 4)", "+" + BIG + ".5 red", "#12 -4px", "1px ! important",
        "-3em", "+.5% blue", "0.9999999px -0.9999999px", "#aAbBcC 0"],
}


def _dim_state(d):
    return {"k": "dim", "val": fnum(d.value), "unit": d.dimension or "", "type": d.type}


def _item_state(x):
    n = type(x).__name__
    if n == "DimensionValue":
        return _dim_state(x)
    if n == "ColorValue":
        return {"k": "color", "rgba": _color_tuple(x)}
    return {"k": "other", "type": str(getattr(x, "type", None)), "text": x.cssText}


def _obj_state(kind, obj):
    """what the object reports now, its serialisation, and that serialisation parsed again"""
    import css_parser
    from css_parser.css import PropertyValue
    st = {}
    try:
        if kind == "PropertyValue":
            st["items"] = [_item_state(x) for x in obj]
        else:
            st["items"] = [_item_state(obj)]
        st["ser"] = obj.cssText
    except Exception as e:  # noqa
        st["exc"] = type(e).__name__
        return st
    # parsed again in the mode the history runs in (with raiseExceptions off an error is logged and the lenient
    # result is kept, for the assignment and for the re-parse alike)
    try:
        st["again"] = [_item_state(x) for x in PropertyValue(st["ser"])] if st["ser"] != "" else []
    except Exception as e:  # noqa
        st["again_exc"] = type(e).__name__
    return st


def impl_history(case):
    """(kind, raiseExceptions, olz, [text, text, ...]) -> the state after the construction and after every assignment"""
    kind, rx, olz, texts = case
    cp = _setup()
    import css_parser.css as C
    keep = cp.log.raiseExceptions
    cp.ser.prefs.omitLeadingZero = bool(olz)
    try:
        cp.log.raiseExceptions = True
        try:
            obj = getattr(C, kind)(texts[0])
        except Exception as e:  # noqa
            return [{"ctor_exc": type(e).__name__}]
        out = [_obj_state(kind, obj)]
        cp.log.raiseExceptions = bool(rx)
        for t in texts[1:]:
            exc = None
            try:
                obj.cssText = t
            except Exception as e:  # noqa
                exc = type(e).__name__
            st = _obj_state(kind, obj)
            st["assign_exc"] = exc
            out.append(st)
        return out
    finally:
        cp.log.raiseExceptions = keep
        cp.ser.prefs.omitLeadingZero = False


def _same_item(a, b):
    """the re-parsed item b carries the value the object reports in a (C17's round-trip tolerance)"""
    if a["k"] != b["k"]:
        return "reported %s, re-parsed %s" % (a["k"], b["k"])
    if a["k"] == "dim":
        if a["val"][0] in ("INF", "?") or b["val"][0] in ("INF", "?"):
            return "non-numeric value %r / %r" % (a["val"], b["val"])
        v, v2 = frac_of(a["val"]), frac_of(b["val"])
        if abs(v2 - v) > HALF6 + (abs(v) + abs(v2)) * EPS53 + 2 * TINY:
            return "object reports %s, its cssText parses back to %s" % (float(v), float(v2))
        if a["unit"] != b["unit"] and not (b["unit"] == "" and v == 0 and a["unit"] in ZERO_UNITS_SPEC):
            return "object reports unit %r, its cssText parses back with %r" % (a["unit"], b["unit"])
        return None
    if a["k"] == "color":
        for x, y in zip(a["rgba"], b["rgba"]):
            if x[0] in ("INF", "?") or y[0] in ("INF", "?") or abs(frac_of(x) - frac_of(y)) > Fraction(1, 10 ** 9):
                return "object reports colour %r, its cssText parses back to %r" % (a["rgba"], b["rgba"])
        return None
    return None if a["type"] == b["type"] else "reported %r, re-parsed %r" % (a, b)


def oracle_history(states):
    """after every step the serialisation must parse back to what the object reports; None or (step, description)"""
    for k, st in enumerate(states):
        if "ctor_exc" in st:
            return None                        # the first text was not accepted: nothing to observe
        if "exc" in st:
            return k, "reading the object's state raised %s" % st["exc"]
        if "again_exc" in st or "again" not in st:
            return k, "cssText %r of the object does not parse (%s)" % (st.get("ser", "")[:60], st.get("again_exc"))
        if len(st["again"]) != len(st["items"]):
            return k, "cssText %r parses back to %d items, the object has %d" % (st["ser"][:60], len(st["again"]), len(st["items"]))
        for a, b in zip(st["items"], st["again"]):
            d = _same_item(a, b)
            if d:
                return k, "%s (cssText %r)" % (d, st["ser"][:60])
    return None


def gen_histories(ctx, thorough):
    rng = ctx.rng
    cases = []
    for kind in ("DimensionValue", "ColorValue", "PropertyValue"):
        for first in HIST_FIRST[kind]:
            for second in HIST_SECOND[kind]:
                for rx in (0, 1):
                    for olz in (0, 1):
                        cases.append((kind, rx, olz, [first, second]))
    n = len(cases)
    # longer histories: valid / rejected texts interleaved on one object
    for _ in range(3000 if thorough else 600):
        kind = rng.choice(["DimensionValue", "DimensionValue", "ColorValue", "PropertyValue"])
        texts = [rng.choice(HIST_FIRST[kind])] + [rng.choice(HIST_SECOND[kind] + HIST_FIRST[kind]) for _ in range(rng.randint(2, 5))]
        cases.append((kind, rng.choice([0, 1]), rng.choice([0, 1]), texts))
    return cases, n


# ------------------------------------------------------------------------------- declaration path, after other parses
# values inside declarations reach the value classes as TOKEN LISTS (not strings), and in a process that has parsed
# other things before: the value read back must be the written one whatever ran before
POLLUTERS = [
    None,
    ("MediaQuery", "screen 5"), ("MediaQuery", "print #fff"), ("MediaQuery", "screen ,"), ("MediaQuery", "all and (min-width: 5px) 7em"),
    ("MediaList", "screen, 5px ,"), ("MediaList", "print red"),
    ("PropertyValue", "1px )"), ("PropertyValue", "5 ;"), ("PropertyValue", "rgb(1, 2"),
    ("DimensionValue", "5px 6px"), ("DimensionValue", "-3em ,"), ("ColorValue", "rgb(1, 2, 3, 4) #abc"), ("ColorValue", "#fff 9"),
    ("Selector", "a b 5"), ("SelectorList", "a, , 3px"),
    ("parseStyle", "x: 1px }"), ("parseStyle", "width: 5px; 7"), ("parseString", "a { x: 1 } 9 #fff ,"),
    ("assign", ("5px", "-3em 4")), ("assign", ("red", "rgb(1, 2")),
]
ENTRIES = ["parseStyle", "parseString", "style.cssText"]


def _pollute(pol):
    import css_parser
    import css_parser.css as C
    import css_parser.stylesheets as S
    if pol is None:
        return
    kind, arg = pol
    for rx in (False, True):
        css_parser.log.raiseExceptions = rx
        try:
            if kind in ("MediaQuery", "MediaList"):
                getattr(S, kind)(arg)
            elif kind == "parseStyle":
                css_parser.parseStyle(arg)
            elif kind == "parseString":
                css_parser.parseString(arg)
            elif kind == "assign":
                o = (C.DimensionValue if arg[0][0].isdigit() else C.ColorValue)(arg[0])
                o.cssText = arg[1]
            else:
                getattr(C, kind)(arg)
        except Exception:  # noqa
            pass
    css_parser.log.raiseExceptions = True


def _decl_items(entry, prop, text):
    """the items of the property value of `prop: text` read through one of the declaration entry points"""
    import css_parser
    if entry == "parseStyle":
        style = css_parser.parseStyle("%s: %s" % (prop, text), validate=False)
    elif entry == "parseString":
        sheet = css_parser.parseString("a { %s: %s }" % (prop, text), validate=False)
        style = sheet.cssRules[0].style
    else:
        style = css_parser.css.CSSStyleDeclaration()
        style.cssText = "%s: %s" % (prop, text)
    p = style.getProperty(prop)
    if p is None:
        return None
    return list(p.propertyValue)


def impl_decl(case):
    """(what, polluter index, entry, flag, text): `what`='num' (flag = omitLeadingZero) or 'color' (flag = minimizeColorHash).
    Same result shape as impl_num / impl_hash, read through a declaration after the polluting calls"""
    what, pk, entry, flag, text = case
    cp = _setup()
    keep = cp.log.raiseExceptions
    try:
        _pollute(POLLUTERS[pk])
        cp.log.raiseExceptions = True
        if what == "num":
            cp.ser.prefs.omitLeadingZero = bool(flag)
            try:
                items = _decl_items(entry, "width", text)
                if items is None or len(items) != 1 or type(items[0]).__name__ != "DimensionValue":
                    return {"err": "declaration value is %s" % (None if items is None else [
                        (type(x).__name__, x.cssText) for x in items],)}
                d = items[0]
                out = {"sign": d._sign, "val": fnum(d.value), "unit": d.dimension or "", "type": d.type}
                try:
                    out["ser"] = d.cssText
                except Exception as e:  # noqa
                    out["ser_exc"] = type(e).__name__
                    return out
                _pollute(POLLUTERS[pk])
                cp.log.raiseExceptions = True
                it2 = _decl_items(entry, "width", out["ser"])
                if it2 is None or len(it2) != 1 or type(it2[0]).__name__ != "DimensionValue":
                    out["second"] = None
                else:
                    d2 = it2[0]
                    out["second"] = {"sign": d2._sign, "val": fnum(d2.value), "unit": d2.dimension or "", "type": d2.type}
                return out
            except Exception as e:  # noqa
                return {"err": type(e).__name__}
        else:
            cp.ser.prefs.minimizeColorHash = bool(flag)
            try:
                items = _decl_items(entry, "color", text)
            except Exception as e:  # noqa
                return {"err": type(e).__name__}
            if items is None:
                return {"invalid": True}
            if len(items) != 1 or type(items[0]).__name__ != "ColorValue":
                return {"nocolor": True, "items": [(type(x).__name__, x.cssText) for x in items]}
            out = {"rgba": _color_tuple(items[0]), "ser": items[0].cssText, "ctype": items[0].colorType}
            try:
                _pollute(POLLUTERS[pk])
                cp.log.raiseExceptions = True
                it2 = _decl_items(entry, "color", out["ser"])
                out["rgba2"] = _color_tuple(it2[0]) if it2 and len(it2) == 1 and type(it2[0]).__name__ == "ColorValue" else None
            except Exception:  # noqa
                out["rgba2"] = None
            return out
    finally:
        cp.log.raiseExceptions = keep
        cp.ser.prefs.omitLeadingZero = False
        cp.ser.prefs.minimizeColorHash = True


def _num_items(items):
    out = []
    for x in items:
        if type(x).__name__ != "DimensionValue":
            out.append({"other": type(x).__name__, "text": x.cssText})
        else:
            v = x.value
            out.append({"val": float(v) if not isinstance(v, bool) and isinstance(v, (int, float)) else None,
                        "unit": x.dimension or ""})
    return out


def impl_neighbours(case):
    """(olz, spacer, entry, text): several numeric values in ONE property value, serialised as a whole declaration
    under omitLeadingZero x the value spacer (' ' default, '' as prefs.useMinified() sets it) and re-parsed: what a
    number's serialisation parses back to must not depend on its neighbours"""
    olz, spacer, entry, text = case
    cp = _setup()
    keep = cp.log.raiseExceptions
    keep_sp = cp.ser.prefs.spacer
    try:
        cp.log.raiseExceptions = True
        cp.ser.prefs.omitLeadingZero = bool(olz)
        cp.ser.prefs.spacer = spacer
        try:
            items = _decl_items(entry, "margin", text)
            if items is None:
                return {"err": "declaration rejected"}
            out = {"first": _num_items(items)}
            import css_parser
            pv = css_parser.css.PropertyValue(text)
            out["first_pv"] = _num_items(list(pv))
            out["ser"] = pv.cssText
            st = css_parser.parseStyle("margin: %s" % text, validate=False)
            out["ser_decl"] = st.cssText
            cp.ser.prefs.omitLeadingZero = False
            cp.ser.prefs.spacer = keep_sp
            it2 = _decl_items(entry, "margin", out["ser"])
            out["second"] = None if it2 is None else _num_items(it2)
            st2 = css_parser.parseStyle(out["ser_decl"], validate=False)
            p2 = st2.getProperty("margin")
            out["second_decl"] = None if p2 is None else _num_items(list(p2.propertyValue))
            return out
        except Exception as e:  # noqa
            return {"err": type(e).__name__ + ": " + str(e)[:120]}
    finally:
        cp.log.raiseExceptions = keep
        cp.ser.prefs.omitLeadingZero = False
        cp.ser.prefs.spacer = keep_sp


NEIGHBOUR_LEXEMES = ["0", "+0", "-0", "0px", "0.0em", ".0", "00", "0%", ".5", "0.5", "-.5", "+.5", ".5px", "0.25em",
                     "-0.5%", "+.05cm", "1", "10", "1.5", "-1", "+2px", "10%", "1.0", "100.50pt", ".000001", "5e"]


def gen_neighbours(ctx, thorough):
    rng = ctx.rng
    L = NEIGHBOUR_LEXEMES
    texts = ["%s %s" % (a, b) for a in L for b in L]
    k = 1500 if thorough else 250
    texts += [" ".join(rng.choice(L) for _ in range(rng.choice([3, 4]))) for _ in range(k)]
    return [(olz, sp, ENTRIES[(i + olz) % 3], tx) for i, tx in enumerate(texts) for olz in (0, 1) for sp in (" ", "")]


def oracle_neighbours(case, res):
    olz, sp, entry, text = case
    if "err" in res:
        return "value list %r (omitLeadingZero=%s, spacer=%r): %s" % (text, bool(olz), sp, res["err"])
    n = len(text.split(" "))
    first = res["first_pv"]
    if len(first) != n or any("other" in x for x in first):
        return None        # not a list of n numeric values (e.g. 5e is a dimension with unit e; fine) -> other stages
    for key, what in (("second", "PropertyValue.cssText"), ("second_decl", "the declaration's cssText")):
        sec = res[key]
        ser = res["ser"] if key == "second" else res["ser_decl"]
        if sec is None or len(sec) != n or any("other" in x for x in sec):
            return ("value list %r serialises (omitLeadingZero=%s, spacer=%r, %s) as %r, which parses back to %r: not the "
                    "%d numbers written" % (text, bool(olz), sp, what, ser, sec, n))
        for a, b in zip(first, sec):
            if a["val"] is None or b["val"] is None or abs(a["val"] - b["val"]) > 5e-7 * max(1.0, abs(a["val"])):
                return ("value list %r serialises (omitLeadingZero=%s, spacer=%r, %s) as %r: %r parses back as %r"
                        % (text, bool(olz), sp, what, ser, a, b))
            if a["unit"] != b["unit"] and not (b["unit"] == "" and a["val"] == 0 and a["unit"] in ZERO_UNITS_SPEC):
                return ("value list %r serialises (omitLeadingZero=%s, spacer=%r, %s) as %r: unit %r parses back as %r"
                        % (text, bool(olz), sp, what, ser, a["unit"], b["unit"]))
    return None


def gen_decl(ctx, thorough, lex, esc, hashes, fns):
    """a sample of the number / colour grids x entry point x polluter"""
    rng = ctx.rng
    nums = [l for l in lex if l[1] in ("", "0", "5", "09") and (l[2] is None or len(l[2]) <= 2 or l[2] in SPECIAL_FRACS[:6])]
    nums = rng.sample(nums, min(len(nums), 1500 if thorough else 350)) + \
        [("", "1", None, "px", "px"), ("", "", "5", "cm", "cm"), ("-", "0", "25", "%", "%"), ("+", "12", "5", "", "")]
    nums += rng.sample([l for l in esc if (l[3], l[4]) not in ESC_UNITS_NEEDED], 60)
    cols = rng.sample(hashes, 150) + ["#123456", "#fff", "#AbC"]
    names = ["red", "Wheat", "TRANSPARENT", "rebeccapurple"]
    cfns = [f for f in fns if is_css3_function(f)]
    cfns = rng.sample(cfns, min(len(cfns), 120))
    cases = []
    for k, l in enumerate(nums):
        for pk in range(len(POLLUTERS)):
            cases.append(("num", pk, ENTRIES[(k + pk) % 3], (k + pk) % 2, l))
    for k, c in enumerate(cols + names + cfns):
        for pk in range(len(POLLUTERS)):
            cases.append(("color", pk, ENTRIES[(k + pk) % 3], (k + pk) % 2, c))
    return cases


# ------------------------------------------------------------------------------- model side (decoding)
def bits(x):
    return int(x, 2)


def uncp(x):
    return "".join(chr(int(v)) for v in x.split()) if x.strip() else ""


def mval(txt):
    k, n, d = txt.split()
    return (k, bits(n), bits(d))


def model_num(line):
    f = line.split("|", 7)
    if f[1] == "NONE":
        return {"agree": f[0] == "1", "none": True}
    if f[1] == "REJECT":
        return {"agree": f[0] == "1", "reject": True}
    out = {"agree": f[0] == "1", "sign": f[1], "int": uncp(f[2]), "frac": None if f[3] == "-" else uncp(f[3]),
           "unit": uncp(f[4]), "val": mval(f[5])}
    if f[6].startswith("T:"):
        out["ser"] = uncp(f[6][2:])
    else:
        out["ser_exc"] = uncp(f[6][2:])
    if f[7] == "NONE":
        out["second"] = None
    else:
        sg, un, v = f[7].split("|")
        out["second"] = {"sign": sg, "unit": uncp(un), "val": mval(v)}
    return out


def same_val(a, b):
    """(kind, n, d) equal as numbers and in kind"""
    a, b = tuple(a), tuple(b)
    if a[0] != b[0]:
        return False
    if a[0] == "INF":
        return True
    return a[1] * b[2] == b[1] * a[2]


def compare_num(impl, mod):
    if mod.get("reject"):          # value.py (fix 5180c6a): 'Number out of range' -> not well-formed -> SyntaxErr
        if not mod["agree"]:
            return "split_num differs from the regenerated regex under Python semantics"
        return None if impl.get("err") == "SyntaxErr" else "model: out of range (rejected), implementation %r" % (impl,)
    if "err" in impl:
        return "implementation: %s, model parsed %r" % (impl["err"], mod)
    if not mod["agree"]:
        return "split_num differs from the regenerated regex under Python semantics"
    if mod.get("none"):
        return "model: no split, implementation parsed"
    if impl["sign"] != mod["sign"]:
        return "sign %r vs %r" % (impl["sign"], mod["sign"])
    if not same_val(impl["val"], mod["val"]):
        return "value %r vs model %r" % (impl["val"], mod["val"])
    if impl["unit"] != mod["unit"]:
        return "unit %r vs %r" % (impl["unit"], mod["unit"])
    if ("ser_exc" in impl) != ("ser_exc" in mod):
        return "serialisation outcome: %r vs %r" % (impl.get("ser_exc"), mod.get("ser_exc"))
    if "ser_exc" in impl:
        return None if impl["ser_exc"] == mod["ser_exc"] else "exception %s vs %s" % (impl["ser_exc"], mod["ser_exc"])
    if impl["ser"] != mod["ser"]:
        return "cssText %r vs model %r" % (impl["ser"], mod["ser"])
    return None


def compare_second(impl, mod):
    """second parse; only meaningful when the unit needs no escaping (else the tokenizer, which is not part of this
    model, sees a different token)"""
    a, b = impl.get("second"), mod.get("second")
    if a is None or b is None:
        return None if a is b else "re-parse: %r vs %r" % (a, b)
    if a["sign"] != b["sign"] or a["unit"] != b["unit"] or not same_val(a["val"], b["val"]):
        return "re-parse %r vs model %r" % (a, b)
    return None


# ------------------------------------------------------------------------------- property-level oracle (numbers)
def exact(sign, ip, fp):
    q = Fraction(int((ip or "0") + (fp or "")), 10 ** len(fp or ""))
    return -q if sign == "-" else q


def frac_of(v):
    return Fraction(v[1], v[2])


def oracle_num(lex, impl):
    """lex = (sign, ip, fp, unit_text, unit_meaning); the statement of the property on one implementation result.
    Returns None or (description, family)"""
    sign, ip, fp, utext, umean = lex
    q = exact(sign, ip, fp)
    if fp is not None and abs(q) >= OVERFLOW:
        # float() overflows: the code rejects the value as not well-formed; outside the property's grid.
        # Anything but a clean rejection (an exception other than SyntaxErr, a stored inf) is still reported.
        if impl.get("err") == "SyntaxErr":
            return None
        return "number too large for binary64 is not rejected cleanly: %r" % (impl.get("err") or impl.get("ser_exc") or impl.get("val"),)
    if "err" in impl:
        return "a number is not parsed as one numeric value: %s" % impl["err"]
    v = impl["val"]
    if v[0] == "INF" or "ser_exc" in impl:
        return "number too large for binary64: %s" % (impl.get("ser_exc") or "inf")
    want_kind = "F" if fp is not None else "I"
    want_unit = umean.lower()
    want_type = "PERCENTAGE" if want_unit == "%" else ("DIMENSION" if want_unit else "NUMBER")
    if abs(frac_of(v) - q) > abs(q) * EPS53 + TINY or (want_kind == "I" and frac_of(v) != q):
        return "parsed value differs from the written value"
    if impl["unit"] != want_unit or impl["type"] != want_type:
        return "parsed unit/type %r/%s differs from the written %r/%s" % (impl["unit"], impl["type"], want_unit, want_type)
    s2 = impl.get("second")
    if s2 is None:
        return "cssText %r does not parse back as one number" % (impl.get("ser"),)
    v2 = frac_of(s2["val"])
    if abs(v2 - q) > HALF6 + (abs(q) + abs(v2)) * EPS53 + 2 * TINY:
        return "cssText %r parses back to a value more than 0.5e-6 away" % (impl.get("ser"),)
    if len(fp or "") <= 6 and abs(q) < 10 ** 9 and v2 != frac_of(v):
        return "cssText %r drifts although the number has at most 6 decimals" % (impl.get("ser"),)
    if s2["unit"] != want_unit:
        if not (s2["unit"] == "" and frac_of(v) == 0 and want_unit in ZERO_UNITS_SPEC):
            return "cssText %r parses back with unit %r" % (impl.get("ser"), s2["unit"])
    return None


# ------------------------------------------------------------------------------- generators
def digit_patterns(maxlen, alphabet="059"):
    out = []
    for n in range(0, maxlen + 1):
        out += ["".join(t) for t in itertools.product(alphabet, repeat=n)]
    return out


SPECIAL_FRACS = ["9999999", "9999995", "9999994", "99999949", "99999951", "0000005", "0000004", "0000006", "00000049",
                 "4999999", "5000000", "5000001", "1234565", "1234575", "1234585", "0000001", "000001", "999999",
                 "1", "10", "100", "25", "125", "0625", "3", "33", "333333", "3333333", "142857", "1428571",
                 "99999", "9999", "00001", "999999500", "9999994999", "0000015", "0000025", "0000035",
                 "5", "50", "05", "005", "0005", "00005", "000005"]


def gen_numbers(ctx, thorough):
    rng = ctx.rng
    ints = digit_patterns(3)                       # '', 0, 5, 9, 00, 05 ... 999
    fr_small = [None] + [p for p in digit_patterns(4 if not thorough else 7) if p]
    fracs = fr_small + SPECIAL_FRACS
    if not thorough:
        longer = [p for p in digit_patterns(7) if len(p) >= 5]
        fracs += rng.sample(longer, 400)
    lex = []
    k = 0
    for sg in ("", "+", "-"):
        for ip in ints:
            for fp in fracs:
                if not ip and fp is None:
                    continue
                u = UNITS[k % len(UNITS)]
                k += 1
                lex.append((sg, ip, fp, u, u))
    n_grid = len(lex)
    # every unit with a few values incl. zero
    for u in UNITS:
        for sg in ("", "+", "-"):
            for ip, fp in (("0", None), ("0", "0"), ("", "0"), ("00", "000"), ("1", None), ("", "5"), ("0", "75"),
                           ("12", "5"), ("0", "9999999"), ("0", "0000001")):
                lex.append((sg, ip, fp, u, u))
    # random digits, long lexemes
    for _ in range(20000 if thorough else 5000):
        ni = rng.choice([0, 0, 1, 1, 2, 3, 4, 7, 10, 15, 16, 17, 20, 25])
        nf = rng.choice([0, 0, 1, 2, 3, 5, 6, 6, 7, 7, 8, 10, 15, 17, 20, 30])
        ip = "".join(rng.choice("0123456789") for _ in range(ni))
        fp = "".join(rng.choice("0123456789") for _ in range(nf)) if nf else None
        if rng.random() < 0.15:
            fp = (fp or "") + rng.choice(["9999995", "0000005", "9999999", "5", "49999999999", "50000000001"])
        if not ip and fp is None:
            ip = "7"
        u = rng.choice(UNITS)
        lex.append((rng.choice(["", "", "+", "-"]), ip, fp, u, u))
    # tiny / huge magnitudes (subnormal range, large integers)
    for z in (300, 310, 322, 323, 324, 330, 400):
        lex.append(("", "0", "0" * z + "1", "px", "px"))
        lex.append(("-", "", "0" * z + "49", "", ""))
    for z in (15, 16, 17, 22, 23, 100, 300):
        lex.append(("", "9" * z, "5", "px", "px"))
        lex.append(("-", "1" + "0" * z, None, "em", "em"))
    esc = []
    safe = list(ESC_UNITS_SAFE) + hex_respellings(rng, 400 if thorough else 120)
    for utext, umean in safe + ESC_UNITS_NEEDED:
        for sg, ip, fp in (("", "1", None), ("-", "1", "5"), ("+", "", "25"), ("", "0", None), ("", "0", "0")):
            esc.append((sg, ip, fp, utext, umean))
    return lex, n_grid, esc


TERMINATORS = [" ", "\t", "\n", "\r\n", "\r", "\f"]
RESPELL_UNITS = ["px", "PX", "em", "Em", "kHz", "deg", "x", "ms", "cm", "rem", "vw", "q", "dpcm"]


def hex_escape(ch, ndig, upper, term):
    h = ("%x" % ord(ch)).zfill(ndig)
    return "\\" + (h.upper() if upper else h) + term


def respell(unit, which, ndig, upper, term):
    """spell the characters of `unit` selected by `which` with a hex escape (C10 HexRespelling: 1-6 hex digits of
    either case, leading zeros, optional terminator; no terminator only after 6 digits, at the end of the token, or in
    front of a character that is neither a hex digit nor white space)"""
    out = []
    for k, ch in enumerate(unit):
        if k in which:
            nxt = unit[k + 1] if k + 1 < len(unit) and (k + 1) not in which else None
            tm = term
            if tm == "" and ndig < 6 and nxt is not None and nxt in "0123456789abcdefABCDEF":
                tm = " "
            out.append(hex_escape(ch, max(ndig, len("%x" % ord(ch))), upper, tm))
        else:
            out.append(ch)
    return "".join(out)


def hex_respellings(rng, nrandom):
    """(spelling, meaning) pairs: units whose LETTERS are written with unicode escapes: legal respellings, the value
    must report the resolved, lower-cased unit"""
    out = []
    for u in RESPELL_UNITS:
        for which in ({0}, {len(u) - 1}, set(range(len(u)))):
            for ndig, upper, term in ((1, False, " "), (6, False, ""), (6, True, " "), (2, True, "\t"), (4, False, "\n"),
                                      (3, False, "\r\n"), (2, False, "\f"), (2, False, ""), (5, True, "\r")):
                out.append((respell(u, which, ndig, upper, term), u))
    for _ in range(nrandom):
        u = rng.choice(RESPELL_UNITS)
        which = {k for k in range(len(u)) if rng.random() < 0.5} or {0}
        out.append((respell(u, which, rng.randint(1, 6), rng.random() < 0.5, rng.choice(TERMINATORS + ["", ""])), u))
    seen, res = set(), []
    for sp, u in out:
        if sp not in seen and sp != u:
            seen.add(sp)
            res.append((sp, u))
    return res


def lex_text(l):
    sg, ip, fp, utext, _ = l
    return sg + ip + ("." + fp if fp is not None else "") + utext


HEX = "0123456789abcdef"


def gen_hashes(ctx, thorough):
    rng = ctx.rng
    cases = []
    for a, b, c in itertools.product(HEX, repeat=3):
        cases.append("#" + a + b + c)
        cases.append("#" + a + a + b + b + c + c)
    n = len(cases)
    for _ in range(40000 if thorough else 10000):
        k = rng.choice([3, 6, 6, 6])
        t = "".join(rng.choice("0123456789abcdefABCDEF") for _ in range(k))
        if k == 6 and rng.random() < 0.3:      # nearly shortenable, mixed case pairs
            x = [rng.choice("0123456789abcdefABCDEF") for _ in range(3)]
            t = "".join(ch + (ch.swapcase() if rng.random() < 0.4 else ch) for ch in x)
        cases.append("#" + t)
    # not colours
    for t in ("#ab", "#abcd", "#abcde", "#abcdefa", "#12345g", "#ggg", "#abc\\a ", "#aabbcc\\a ", "#\\61 bc", "#a\\62 c",
              "#AbC", "#-ab", "#_12"):
        cases.append(t)
    return cases, n


def css3_table():
    """the CSS3 keyword table typed into coq/theories/Colors.v (independent of /repo)"""
    txt = (VERIF / "coq" / "theories" / "Colors.v").read_text()
    body = txt[txt.index("Definition css3_named"):]
    body = body[:body.index("].")]
    tab = {}
    for m in re.finditer(r'\(s "([a-z]+)", \(\((\d+), (\d+), (\d+)\), (\d)%Q\)\)', body):
        tab[m.group(1)] = (int(m.group(2)), int(m.group(3)), int(m.group(4)), int(m.group(5)))
    return tab


RGB_N = ["0", "1", "127", "128", "254", "255", "256", "300", "-1", "-5", "+7", "007", "1000"]
PCTS = ["0%", "50%", "100%", "0.39%", "0.4%", "33.3%", "66.667%", "99.9%", "110%", "-10%", "+20%", "12.5%", "20%", "40.0%",
        "150%", "1%", "49.8%", "50.2%"]
HUES = ["0", "30", "60", "90", "120", "180", "240", "300", "359", "360", "480", "-120", "30.5", "0.5", "719", "-0.25",
        "210", "45", "+10"]
ALPHAS = ["0", "1", "0.5", ".3", "1.0", "2", "-1", "0.25"]


def gen_functions(ctx, thorough):
    rng = ctx.rng
    out = []
    names = {"rgb": ["rgb(", "RGB(", "rGb("], "rgba": ["rgba(", "RGBA("], "hsl": ["hsl(", "HSL("], "hsla": ["hsla(", "HsLa("]}

    def fn(kind, args, sep=", "):
        return (rng.choice(names[kind]), args, sep)
    for a in RGB_N:
        for b in ("0", "255", "300", "-5"):
            out.append(fn("rgb", [("N", a), ("N", b), ("N", rng.choice(RGB_N))]))
    for a in PCTS:
        for b in ("0%", "100%", "110%", "33.3%"):
            out.append(fn("rgb", [("P", a), ("P", b), ("P", rng.choice(PCTS))]))
    for h in HUES:
        for sat in ("0%", "100%", "50%", "33.3%", "150%", "-10%"):
            for l in ("0%", "50%", "100%", "25%", "47.1%", "75%", "150%", "-50%", "0.2%"):
                out.append(fn("hsl", [("N", h), ("P", sat), ("P", l)]))
    for _ in range(6000 if thorough else 1500):
        kind = rng.choice(["rgb", "rgba", "hsl", "hsla"])
        if kind.startswith("rgb"):
            if rng.random() < 0.5:
                args = [("N", str(rng.randint(-20, 300))) for _ in range(3)]
            else:
                args = [("P", "%s%%" % rng.choice([str(rng.randint(-10, 120)), "%d.%d" % (rng.randint(0, 100), rng.randint(0, 999))]))
                        for _ in range(3)]
        else:
            args = [("N", rng.choice([str(rng.randint(-400, 800)), "%d.%d" % (rng.randint(0, 360), rng.randint(0, 99))])),
                    ("P", "%s%%" % rng.choice([str(rng.randint(-10, 120)), "%d.%d" % (rng.randint(0, 100), rng.randint(0, 99))])),
                    ("P", "%s%%" % rng.choice([str(rng.randint(-10, 120)), "%d.%d" % (rng.randint(0, 100), rng.randint(0, 99))]))]
        if kind.endswith("a"):
            args.append(("N", rng.choice(ALPHAS)))
        out.append(fn(kind, args, rng.choice([", ", ",", " , "])))
    # wrong argument kinds (rejected by the checks table)
    for kind, args in (("rgb", "NPP"), ("rgb", "PNN"), ("rgba", "NNNP"), ("hsl", "NNN"), ("hsl", "PPP"), ("hsla", "NPPP"),
                       ("rgb", "NNP"), ("hsl", "NPN")):
        out.append(fn(kind, [(k, "10%" if k == "P" else "10") for k in args]))
    return out


def fn_text(f):
    name, args, sep = f
    return name + sep.join(a for _, a in args) + ")"


def dec(txt):
    """'+12.5%' -> Fraction"""
    t = txt.rstrip("%")
    sg = -1 if t.startswith("-") else 1
    t = t.lstrip("+-")
    ip, _, fp = t.partition(".")
    return sg * Fraction(int((ip or "0") + fp), 10 ** len(fp))


def css3_hue(m1, m2, h):
    if h < 0:
        h += 1
    if h > 1:
        h -= 1
    if h * 6 < 1:
        return m1 + (m2 - m1) * h * 6
    if h * 2 < 1:
        return m2
    if h * 3 < 2:
        return m1 + (m2 - m1) * (Fraction(2, 3) - h) * 6
    return m1


def clipq(x, lo, hi):
    return lo if x < lo else hi if x > hi else x


def css3_function(f):
    """CSS3 Color 4.2.1 / 4.2.4: expected (r, g, b, a) as exact reals on the 0..255 / 0..1 scales, clipped;
    returns (spec, out_of_range, integer_exact)"""
    name, args, _ = f
    kind = name.lower()
    vals = [dec(a) for _, a in args]
    oor = False
    alpha = Fraction(1)
    if len(vals) == 4:
        oor |= not (0 <= vals[3] <= 1)
        alpha = clipq(vals[3], 0, 1)
    if kind.startswith("rgb"):
        if args[0][0] == "N":
            oor |= any(not (0 <= v <= 255) for v in vals[:3])
            rgb = [clipq(v, 0, 255) for v in vals[:3]]
            tol = Fraction(0)
        else:
            oor |= any(not (0 <= v <= 100) for v in vals[:3])
            rgb = [clipq(v, 0, 100) * 255 / 100 for v in vals[:3]]
            # CSS3 does not say how a percentage is quantised: floor and round both accepted.  Integer percentages:
            # strictly less than 1 off (theorem rgb_pct_int_spec); fractional ones go through three binary64
            # roundings before the truncation: 1 + 2^-51 * 255p/100 (theorem rgb_pct_float_spec), 1e-9 here
            tol = Fraction(1) if all("." not in a for _, a in args[:3]) else Fraction(1) + Fraction(1, 10 ** 9)
        return rgb + [alpha], oor, tol
    h = ((vals[0] % 360) + 360) % 360 / 360
    sat, l = vals[1] / 100, vals[2] / 100
    oor |= not (0 <= sat <= 1) or not (0 <= l <= 1)
    sat, l = clipq(sat, 0, 1), clipq(l, 0, 1)
    m2 = l * (sat + 1) if l <= Fraction(1, 2) else l + sat - l * sat
    m1 = l * 2 - m2
    rgb = [css3_hue(m1, m2, h + Fraction(1, 3)) * 255, css3_hue(m1, m2, h) * 255, css3_hue(m1, m2, h - Fraction(1, 3)) * 255]
    return rgb + [alpha], oor, Fraction(1, 2) + Fraction(1, 10 ** 9)


HSL_DELTA = Fraction(1, 10 ** 9)      # stated bound on the binary64 stage of hsl() (theorem hsl_fn_spec's delta)


def hsl_float_products(f):
    """r*255, g*255, b*255 in binary64 exactly as ColorValue computes them (value.py:418-440 + colorsys)"""
    import colorsys
    name, args, _ = f

    def stored(txt):
        t = txt.rstrip("%")
        return float(t) if "." in t else int(t)
    h = stored(args[0][1]) / 360.0
    sat = stored(args[1][1]) / 100.0
    l = stored(args[2][1]) / 100.0
    r, g, b = colorsys.hls_to_rgb(h, l, sat)
    return [r * 255, g * 255, b * 255]


def is_css3_function(f):
    """argument kinds of CSS3 Color: rgb[a](N,N,N[,N]) / rgb[a](P,P,P[,N]) / hsl[a](N,P,P[,N])"""
    kinds = [k for k, _ in f[1]]
    if len(kinds) == 4 and kinds[3] != "N":
        return False
    if f[0].lower().startswith("hsl"):
        return kinds[:3] == ["N", "P", "P"]
    return kinds[:3] in (["N", "N", "N"], ["P", "P", "P"])


def oracle_fn(f, impl):
    spec, oor, tol = css3_function(f)
    if "err" in impl:
        return "colour function raised %s" % impl["err"], oor
    if "invalid" in impl or "nocolor" in impl:
        return "valid CSS3 colour function rejected", oor
    got = [frac_of(x) for x in impl["rgba"]]
    for i, (g, w) in enumerate(zip(got, spec)):
        t = tol if i < 3 else Fraction(1, 10 ** 9) + abs(w) * EPS53
        bad = (abs(g - w) >= t) if (i < 3 and tol >= 1) else (abs(g - w) > t)
        if bad:
            comp = "red green blue alpha".split()[i]
            if oor:
                return "out-of-range argument is not clipped (CSS3 Color 4.2.1/4.2.4): %s is %s, CSS3 gives %s" % (
                    comp, float(g), float(w)), True
            return "%s is %s, CSS3 gives %s" % (comp, float(g), float(w)), False
    return None, oor


# ------------------------------------------------------------------------------- run
def witness_num(olz, l):
    return {"kind": "number", "olz": olz, "text": lex_text(l), "lexeme": list(l)}


def check_witness(ctx, w):
    """re-run one stored witness on the implementation; returns a description when the property fails"""
    if w["kind"] == "number":
        l = tuple(w["lexeme"])
        l = (l[0], l[1], l[2], l[3], l[4])
        return oracle_num(l, impl_num((w["olz"], w["text"])))
    if w["kind"] == "function":
        f = (w["name"], [tuple(a) for a in w["args"]], w["sep"])
        d, _ = oracle_fn(f, impl_color(fn_text(f)))
        return d
    if w["kind"] == "hash":
        return oracle_hash(w["text"], impl_hash((w["mz"], w["text"])))
    if w["kind"] == "name":
        return oracle_name(w["text"], impl_color(w["text"]), css3_table())
    if w["kind"] == "declaration":
        i = impl_decl((w["what"], w["pk"], w["entry"], w["flag"], w["text"]))
        x = w["item"]
        if w["what"] == "num":
            return oracle_num(tuple(x), i)
        if isinstance(x, str):
            return oracle_hash(x, i) if x.startswith("#") else oracle_name(x, i, css3_table())
        return oracle_fn((x[0], [tuple(a) for a in x[1]], x[2]), i)[0]
    if w["kind"] == "neighbours":
        c = (w["olz"], w["spacer"], w["entry"], w["text"])
        return oracle_neighbours(c, impl_neighbours(c))
    if w["kind"] == "history":
        r = oracle_history(impl_history((w["obj"], w["raise"], w["olz"], w["texts"])))
        return r[1] if r else None
    return None


def oracle_hash(text, impl):
    body = text[1:]
    if not re.fullmatch(r"#(?:[0-9a-fA-F]{3}|[0-9a-fA-F]{6})", text):
        if "err" in impl and impl["err"] != "SyntaxErr":
            return "a hash that is not a hex colour raised %s" % impl["err"]
        return None
    if len(body) == 3:
        want = [17 * int(c, 16) for c in body]
    else:
        want = [int(body[i:i + 2], 16) for i in (0, 2, 4)]
    want = [("I", x, 1) for x in want] + [("F", 1, 1)]
    if "rgba" not in impl:
        return "hex colour not recognised: %r" % (impl,)
    if not all(same_val(a, b) for a, b in zip(impl["rgba"], want)):
        return "hex colour components %r, CSS3 gives %r" % (impl["rgba"], want)
    if impl.get("rgba2") is None or not all(same_val(a, b) for a, b in zip(impl["rgba2"], want)):
        return "serialised hex colour %r has components %r, written %r" % (impl.get("ser"), impl.get("rgba2"), want)
    return None


def oracle_name(text, impl, table):
    want = table.get(text.lower())
    if want is None:
        return None if "rgba" not in impl or impl.get("ctype") != "IDENT" else "unknown CSS3 colour name has components"
    if "rgba" not in impl:
        return "CSS3 colour name not recognised"
    w = [("I", want[0], 1), ("I", want[1], 1), ("I", want[2], 1), ("F", want[3], 1)]
    if not all(same_val(a, b) for a, b in zip(impl["rgba"], w)):
        return "colour name components %r, CSS3 gives %r" % (impl["rgba"], want)
    return None


def run(ctx):
    thorough = ctx.tier == "thorough"
    ctx.regen("colors")
    ctx.coq_build("props/C17.v")
    binary = ctx.ocaml_build("numbers")
    corpus_p = VERIF / "corpus" / "C17.json"
    corpus = json.loads(corpus_p.read_text()) if corpus_p.exists() else {}
    mism = []
    stats = {}

    # ---- 1. numbers
    lex, n_grid, esc = gen_numbers(ctx, thorough)
    lex = [tuple(x) for x in corpus.get("numbers", [])] + lex
    cases = [(olz, l) for l in lex for olz in (0, 1)]
    esc_cases = [(olz, l) for l in esc for olz in (0, 1)]
    allc = cases + esc_cases
    impl = ctx.pool_map(impl_num, [(olz, lex_text(l)) for olz, l in allc], procs=6, chunksize=512)
    nontrivial = set()
    if binary:
        out = ctx.run_binary(binary, ["D %d %s" % (olz, cps(lex_text(l))) for olz, l in allc], shards=6)
        for (olz, l), i, o in zip(allc, impl, out):
            m = model_num(o)
            d = compare_num(i, m)
            if not d and l[3] == l[4]:
                d = compare_second(i, m)
            if d:
                mism.append(("number", olz, lex_text(l), d))
    skipped_known = 0
    for (olz, l), i in zip(allc, impl):
        if "ser" in i and i["ser"] != lex_text(l):
            nontrivial.add(lex_text(l))
        d = oracle_num(l, i)
        if d:
            fam = "escaped-unit: " if (l[3], l[4]) in ESC_UNITS_NEEDED else ""
            if not ctx.violation(fam + d, witness_num(olz, l), sig_text=json.dumps(lex_text(l))):
                skipped_known += 1
    stats["number_cases"] = len(allc)
    stats["number_grid_lexemes"] = n_grid

    # ---- 2. the split alone, exhaustively over a small alphabet (malformed strings included)
    alpha = ["+", "-", ".", "0", "5", "a", "\n", "%", "e"]
    splits = ["".join(t) for n in range(0, 6 if thorough else 5) for t in itertools.product(alpha, repeat=n)]
    isplit = ctx.pool_map(impl_split, splits, procs=6, chunksize=2048)
    if binary:
        out = ctx.run_binary(binary, ["S %s" % cps(t) for t in splits], shards=6)
        for t, i, o in zip(splits, isplit, out):
            f = o.split("|")
            if f[0] != "1":
                mism.append(("split", t, "split_num differs from regenerated regex"))
            if f[1] == "NONE":
                got = None
            else:
                got = [f[1], uncp(f[2]) + ("" if f[3] == "-" else "." + uncp(f[3])), uncp(f[4])]
            if got != i:
                mism.append(("split", t, "implementation %r model %r" % (i, got)))
    stats["split_cases"] = len(splits)

    # ---- 3. hex colours x minimizeColorHash
    hashes, n_hex_exh = gen_hashes(ctx, thorough)
    hashes = corpus.get("hashes", []) + hashes
    hcases = [(mz, t) for t in hashes for mz in (0, 1)]
    himpl = ctx.pool_map(impl_hash, hcases, procs=6, chunksize=512)
    if binary:
        # the model sees the HASH token value: unicode escapes resolved by the tokenizer
        from css_parser.tokenize2 import Tokenizer
        tv = {}
        for t in hashes:
            toks = list(Tokenizer().tokenize(t))
            tv[t] = toks[0][1] if len(toks) == 1 and toks[0][0] == "HASH" else None
        lines, keep = [], []
        for (mz, t), i in zip(hcases, himpl):
            if tv[t] is not None:
                lines.append("H %d %s" % (mz, cps(tv[t])))
                keep.append(((mz, t), i))
        out = ctx.run_binary(binary, lines, shards=6)
        for ((mz, t), i), o in zip(keep, out):
            f = o.split("|")
            if f[0] == "0":
                if "rgba" in i:
                    mism.append(("hash", mz, t, "model: no match, implementation: colour"))
                continue
            if "rgba" not in i:
                mism.append(("hash", mz, t, "model: colour %s, implementation %r" % (f[1], i)))
                continue
            want = [("I", bits(x), 1) for x in f[1].split()] if f[1] != "CRASH" else None
            want2 = [("I", bits(x), 1) for x in f[3].split()] if f[3] not in ("CRASH", "-") else None
            if want is None or not all(same_val(a, b) for a, b in zip(i["rgba"][:3], want)):
                mism.append(("hash", mz, t, "rgb %r vs model %r" % (i["rgba"], want)))
            elif i["ser"] != uncp(f[2]):
                mism.append(("hash", mz, t, "cssText %r vs model %r" % (i["ser"], uncp(f[2]))))
            elif want2 is None or i.get("rgba2") is None or not all(same_val(a, b) for a, b in zip(i["rgba2"][:3], want2)):
                mism.append(("hash", mz, t, "rgb of the serialised hash %r vs model %r" % (i.get("rgba2"), want2)))
    for (mz, t), i in zip(hcases, himpl):
        d = oracle_hash(t, i)
        if d:
            ctx.violation(d, {"kind": "hash", "mz": mz, "text": t}, sig_text=json.dumps(t))
    stats["hash_cases"] = len(hcases)

    # ---- 4. colour names
    table = css3_table()
    if len(table) != 148:
        ctx.broken("harness", "css3 table", "expected 148 entries in Colors.v, found %d" % len(table))
    from css_parser.css.colors import COLORS
    names = sorted(set(table) | set(COLORS))
    names += [n.upper() for n in names] + [n.capitalize() for n in names] + \
             ["rebeccapurple", "grey0", "reds", "none", "currentcolor", "lightgoldenrod", "darkgrey ", "gr\\ay", "gr\\65y"]
    nimpl = ctx.pool_map(impl_color, names, procs=6, chunksize=64)
    if binary:
        from css_parser.tokenize2 import Tokenizer
        lines, keep = [], []
        for t, i in zip(names, nimpl):
            toks = [k for k in Tokenizer().tokenize(t) if k[0] != "S"]
            if len(toks) == 1 and toks[0][0] == "IDENT":
                lines.append("C %s" % cps(toks[0][1]))
                keep.append((t, i))
        out = ctx.run_binary(binary, lines)
        for (t, i), o in zip(keep, out):
            if o == "NONE":
                if "rgba" in i:
                    mism.append(("name", t, "model: not a colour, implementation %r" % (i,)))
            else:
                f = o.split()
                want = [("I", bits(f[0]), 1), ("I", bits(f[1]), 1), ("I", bits(f[2]), 1), ("F", bits(f[3]), bits(f[4]))]
                if "rgba" not in i or not all(same_val(a, b) for a, b in zip(i["rgba"], want)):
                    mism.append(("name", t, "implementation %r model %r" % (i, want)))
    for t, i in zip(names, nimpl):
        d = oracle_name(t.strip(), i, table) if "\\" not in t else None
        if d:
            ctx.violation(d, {"kind": "name", "text": t}, sig_text=json.dumps(t))
    stats["name_cases"] = len(names)

    # ---- 5. rgb() / hsl()
    fns = [(f[0], [tuple(a) for a in f[1]], f[2]) for f in corpus.get("functions", [])] + gen_functions(ctx, thorough)
    fimpl = ctx.pool_map(impl_color, [fn_text(f) for f in fns], procs=6, chunksize=128)
    n_oor = 0
    hsl_delta = [Fraction(0), None]
    if binary:
        lines = []
        for name, args, sep in fns:
            lines.append("F %s ; %s" % (cps(name), " ; ".join("%s %s" % (k, cps(a)) for k, a in args)))
        out = ctx.run_binary(binary, lines, shards=6)
        for f, i, o in zip(fns, fimpl, out):
            if o == "INVALID":
                if "invalid" not in i:
                    mism.append(("function", fn_text(f), "model: rejected by the checks table, implementation %r" % (i,)))
                continue
            if o in ("CRASH", "BADCOMP", "BAD") or "rgba" not in i:
                mism.append(("function", fn_text(f), "model %s, implementation %r" % (o, i)))
                continue
            p = o.split("|")
            ex = p[0] == "1"
            want = [Fraction(bits(x.split()[0]), bits(x.split()[1])) for x in p[1:5]]
            if not ex:
                # the binary64 stage of hsl(): the same float operations as value.py / colorsys, compared exactly with
                # the model's exact r*255 (the delta of theorem hsl_fn_spec)
                xs = hsl_float_products(f)
                for xf, w in zip(xs, want[:3]):
                    dlt = abs(Fraction(xf) - w)
                    if dlt > hsl_delta[0]:
                        hsl_delta[0], hsl_delta[1] = dlt, fn_text(f)
            got = [frac_of(x) for x in i["rgba"]]
            for k, (g, w) in enumerate(zip(got, want)):
                if ex or k == 3:
                    ok = g == w
                else:            # hsl: the model carries the exact real r*255, the code rounds a binary64 product
                    ok = abs(g - w) <= Fraction(1, 2) + Fraction(1, 10 ** 9)
                if not ok:
                    mism.append(("function", fn_text(f), "component %d: implementation %s model %s" % (k, float(g), float(w))))
                    break
    stats["hsl_binary64_delta_max"] = float(hsl_delta[0])
    stats["hsl_binary64_delta_case"] = hsl_delta[1]
    if hsl_delta[0] > HSL_DELTA:
        ctx.broken("correspondence", "hsl binary64 stage bound",
                   "|binary64 r*255 - exact r*255| = %g > %g on %s" % (float(hsl_delta[0]), float(HSL_DELTA), hsl_delta[1]))
    for f, i in zip(fns, fimpl):
        if not is_css3_function(f):
            continue                                   # not a CSS3 colour: nothing to report
        d, oor = oracle_fn(f, i)
        n_oor += oor
        if d:
            ctx.violation(d, {"kind": "function", "name": f[0], "args": [list(a) for a in f[1]], "sep": f[2],
                              "text": fn_text(f)}, sig_text=json.dumps(fn_text(f)))
    stats["function_cases"] = len(fns)
    stats["function_cases_with_out_of_range_argument"] = n_oor

    # ---- 6. assignment histories on ONE value object (valid -> rejected / accepted -> ...), both raiseExceptions
    #         modes and both omitLeadingZero settings: after every step the object's cssText must parse back to the
    #         value the object reports (the round-trip oracle on the object's CURRENT state)
    hist, n_hist_grid = gen_histories(ctx, thorough)
    hist = [tuple(h[:3]) + (list(h[3]),) for h in corpus.get("histories", [])] + hist
    hres = ctx.pool_map(impl_history, hist, procs=6, chunksize=64)
    n_rejected = 0
    for h, states in zip(hist, hres):
        n_rejected += sum(1 for st in states[1:] if st.get("assign_exc") or "again" in st and st["items"] == states[0].get("items"))
        r = oracle_history(states)
        if r:
            k, d = r
            w = {"kind": "history", "obj": h[0], "raise": h[1], "olz": h[2], "texts": h[3][:k + 1],
                 "text": " ; ".join(x if len(x) < 40 else x[:12] + "...(%d chars)" % len(x) for x in h[3][:k + 1])}
            ctx.violation("after %s on one %s: %s" % ("the construction" if k == 0 else "assignment %d" % k, h[0], d), w,
                          sig_text=json.dumps(w["text"]))
    stats["history_cases"] = len(hist)
    stats["history_steps_leaving_the_state_unchanged"] = n_rejected

    # ---- 7. the declaration path (token-list input: parseStyle / parseString / style.cssText) after polluting calls
    dcases = gen_decl(ctx, thorough, lex, esc, hashes, fns)
    dwire = [(c[0], c[1], c[2], c[3], lex_text(c[4]) if c[0] == "num" else (c[4] if isinstance(c[4], str) else fn_text(c[4])))
             for c in dcases]
    dres = ctx.pool_map(impl_decl, dwire, procs=6, chunksize=128)
    for c, wire, i in zip(dcases, dwire, dres):
        what, pk, entry, flag, x = c
        if what == "num":
            d = oracle_num(x, i)
        elif isinstance(x, str) and x.startswith("#"):
            d = oracle_hash(x, i)
        elif isinstance(x, str):
            d = oracle_name(x, i, table)
        else:
            d, _ = oracle_fn(x, i)
        if d:
            w = {"kind": "declaration", "what": what, "polluter": list(POLLUTERS[pk]) if POLLUTERS[pk] else None, "pk": pk,
                 "entry": entry, "flag": flag, "text": wire[4],
                 "item": list(x) if what == "num" else (x if isinstance(x, str) else [x[0], [list(a) for a in x[1]], x[2]])}
            fam = "escaped-unit: " if what == "num" and (x[3], x[4]) in ESC_UNITS_NEEDED else ""
            ctx.violation("%s%s (read through %s%s)" % (fam, d, entry, " after %s(%r)" % tuple(POLLUTERS[pk]) if POLLUTERS[pk] else ""),
                          w, sig_text=json.dumps(wire[4]))
    stats["declaration_path_cases"] = len(dcases)

    # ---- 8. neighbour contexts: several numbers in one value under omitLeadingZero x value spacer (useMinified sets '')
    ncases = gen_neighbours(ctx, thorough)
    nres = ctx.pool_map(impl_neighbours, ncases, procs=6, chunksize=128)
    for c, i in zip(ncases, nres):
        d = oracle_neighbours(c, i)
        if d:
            ctx.violation(d, {"kind": "neighbours", "olz": c[0], "spacer": c[1], "entry": c[2], "text": c[3]},
                          sig_text=json.dumps(c[3]))
    stats["neighbour_context_cases"] = len(ncases)

    if mism:
        ctx.broken("correspondence", "Numbers.v / Colors.v vs css_parser",
                   "%d cases differ; first: %s" % (len(mism), json.dumps(mism[:4], default=str)))
        # a disagreement is stored minimised in the corpus by hand; here it is only reported

    # ---- known findings: re-run the stored witnesses
    for f in ctx.findings:
        if f.get("status") == "open":
            w = f["witness"]
            d = check_witness(ctx, w)
            if d:
                fam = "escaped-unit: " if w["kind"] == "number" and (w["lexeme"][3], w["lexeme"][4]) in ESC_UNITS_NEEDED else ""
                ctx.violation(fam + d, w, sig_text=json.dumps(w.get("text")))

    def search():
        t0 = time.time()
        rng = ctx.rng
        budget = 300 if thorough else 60
        while time.time() - t0 < budget:
            batch = []
            for _ in range(3000):
                ni, nf = rng.choice([0, 1, 1, 2, 3]), rng.choice([0, 1, 2, 3, 6, 7, 7, 8])
                ip = "".join(rng.choice("0159") for _ in range(ni))
                fp = "".join(rng.choice("0159") for _ in range(nf)) if nf else None
                if not ip and fp is None:
                    ip = "0"
                u = rng.choice(UNITS)
                batch.append((rng.choice([0, 1]), (rng.choice(["", "+", "-"]), ip, fp, u, u)))
            res = ctx.pool_map(impl_num, [(o, lex_text(l)) for o, l in batch], procs=6, chunksize=256)
            for (o, l), i in zip(batch, res):
                d = oracle_num(l, i)
                if d and not ctx.match_known(d + " :: " + json.dumps(lex_text(l))):
                    w = witness_num(o, l)
                    w["fails"] = d
                    return w
            hb = [(rng.choice([0, 1]), "#" + "".join(rng.choice("0123456789abcdefABCDEF") for _ in range(rng.choice([3, 6]))))
                  for _ in range(2000)]
            for (mz, t), i in zip(hb, ctx.pool_map(impl_hash, hb, procs=6, chunksize=256)):
                d = oracle_hash(t, i)
                if d and not ctx.match_known(d + " :: " + json.dumps(t)):
                    return {"kind": "hash", "mz": mz, "text": t, "fails": d}
            fb = gen_functions(ctx, False)
            for f, i in zip(fb, ctx.pool_map(impl_color, [fn_text(f) for f in fb], procs=6, chunksize=128)):
                if not is_css3_function(f):
                    continue
                d, _ = oracle_fn(f, i)
                if d and not ctx.match_known(d + " :: " + json.dumps(fn_text(f))):
                    return {"kind": "function", "name": f[0], "args": [list(a) for a in f[1]], "sep": f[2],
                            "text": fn_text(f), "fails": d}
            tb = css3_table()
            for n in tb:
                d = oracle_name(n, impl_color(n), tb)
                if d:
                    return {"kind": "name", "text": n, "fails": d}
        return None

    total = len(allc) + len(splits) + len(hcases) + len(names) + len(fns) + len(hist) + len(dcases) + len(ncases)
    ctx.finish({
        "evaluations": total,
        "distinct_nontrivial": len(nontrivial),
        "rule": "numbers: sign x integer part (all strings over {0,5,9} of length 0-3) x fraction (none, all strings over "
                "{0,5,9} up to length %d, boundary fractions such as 9999995/0000005/1234565%s) with the unit cycling "
                "through %d units, every unit with zero and non-zero values, random lexemes with up to 25+30 digits, "
                "subnormal/huge magnitudes, units written with escapes; each under omitLeadingZero off and on. "
                "split: every string of length <= %d over %r against the regenerated regex and the implementation's regex. "
                "hex: all 4096 #rgb, all 4096 shortenable #rrggbb, random 3/6-digit mixed-case hashes, non-colours; each "
                "under minimizeColorHash off and on. names: every key of the CSS3 table and of COLORS in three "
                "capitalisations plus non-names. functions: rgb/rgba/hsl/hsla grids incl. out-of-range, fractional, signed, "
                "wrong-kind arguments. histories: every (first text x second text x raiseExceptions x omitLeadingZero) over the "
                "DimensionValue / ColorValue / PropertyValue lists (second texts: out of range with another sign/unit/kind, "
                "too many digits, syntax errors, wrong arity/kind, and accepted ones) plus random histories of 3-6 "
                "assignments on one object; after every step cssText must parse back to what the object reports. declaration "
                "path: a sample of the number / hash / name / function grids read through parseStyle, parseString and "
                "style.cssText (token-list input) after each of %d polluting calls (MediaQuery/MediaList/PropertyValue/"
                "value classes/selectors/parse* with trailing content, rejected assignments), judged by the same oracles. "
                "units: also %d spellings with hex-escaped letters (every C10 HexRespelling form). non-trivial = distinct number lexemes whose cssText differs from the source text"
                % (7 if thorough else 4, "" if thorough else ", 400 sampled longer patterns", len(UNITS),
                   5 if thorough else 4, "".join(alpha), len(POLLUTERS) - 1, len(hex_respellings(ctx.rng.__class__(0), 0))),
        "samples": [[o, lex_text(l)] for o, l in cases[1001:1004]] + [hashes[5000], fn_text(fns[40]), names[7]],
        "disagreements_checked": total if binary else 0,
        "distribution": stats,
        "oracle_failures_matching_known_findings": skipped_known,
        "trusted_base": TRUSTED,
    }, assumptions=ASSUME, search=search)


def replay(ctx, path):
    rep = json.loads(open(path).read())
    bad = 0
    for v in rep.get("violations", []):
        w = v["witness"]
        d = check_witness(ctx, w)
        print("replay %r -> %s" % (w.get("text"), d or "holds"))
        bad += bool(d)
    return 1 if bad else 0


TRUSTED = [
    "Coq 8.16.1 kernel and VM (vm_compute for the finite table comparison and the examples); no native_compute",
    "float() = dbl_exec (integer round-to-nearest-even on the reduced fraction): its properties (error bound, sign, ==, "
    "exactness on representables) are PROVED (dbl_exec_is_binary64); that CPython's float() of a decimal string equals "
    "dbl_exec is validated on every number case by exact comparison (as_integer_ratio), not proved",
    "'%f' % v modelled as exact round-half-even to 6 places (CPython's correctly rounded dtoa); str(int) as decimal printing",
    "translate/colors.py + translate/regexlib.py (CPython re._parser / ast)",
    "extraction (ExtrOcamlBasic only) + ocamlfind ocamlopt, ocaml/numbers_driver.ml",
    "correspondence harness harness/props/c17.py",
    "modelled by hand, not verified: DimensionValue split and conversion, do_css_Value number branch, hex/rgb/hsl arithmetic "
    "(Numbers.v, Colors.v); the tokenizer and ProdParser between text and DimensionValue/ColorValue are exercised by the "
    "oracle only (C08/C09 cover the tokenizer)",
    "the CSS3 Color specification as typed into Colors.v (css3_named, css3_hex3/6, css3_hsl) and harness css3_function",
]
ASSUME = [
    "Print Assumptions for every theorem of props/C17.v: see coverage.print_assumptions",
    "number theorems are about normalised token values (after Tokenizer/normalize); units are any string not starting "
    "with a digit or '.'",
    "a percentage in rgb() may be quantised by floor or by rounding (CSS3 does not say; the pinned tests fix 50% -> 127); "
    "tolerance < 1 (integer percentages, rgb_pct_int_spec) / < 1 + 1e-9 (fractional, rgb_pct_float_spec)",
    "hsl(): the binary64 stage of colorsys is not analysed in Coq; its distance from the exact value is measured on every "
    "case (coverage.distribution.hsl_binary64_delta_max) and must stay below the stated delta 1e-9 of hsl_fn_spec",
    "a fraction whose magnitude reaches 2^1024 - 2^970 is rejected by the code as not well-formed (number_overflow_rejected); "
    "the round-trip theorems carry the magnitude guard |q| <= 10^300 (parse: 10^308) explicitly",
    "int()'s digit limit (4300 digits, rejected the same way) is not modelled: lexemes are shorter",
]
