"""C11 -- declaration blocks behave as an ordered, cascade-aware property list.

proof:          coq/props/C11.v over the model coq/theories/StyleDecl.v (transcription of
                cssstyledeclaration.py; norm = helper.normalize abstract in the theorems)
tie:            translate/cssproperties.py regenerates the attribute tables from the live closures of
                cssproperties.py (+ tokenizer tables for normalize); the hand-written transcription is compared
                with the implementation after EVERY step of every history below (all accessors)
oracle/search:  an independent 60-line reference list (the *statement* of the property: effective = last
                !important else last, set = replace effective in place or append, remove = filter) evaluated
                on the implementation, incl. style.cssText re-parsed
"""
import itertools
import json
import time

from harness.lib import VERIF, shrink_seq

# ------------------------------------------------------------------------------------------------ alphabets
VALUES = {"red": 1, "blue": 2, "1px": 3, "inherit": 4, "green": 5}
BADVALUE = "$"
# value spellings that end in / contain the tokens the value grammar stops at: spelling -> stored value (None = the
# value is rejected).  A trailing top-level ';' is accepted and dropped by PropertyValue (END production).
VALUE_SPELLINGS = {"red;": "red", "blue ;": "blue", "1px;": "1px", "green;;": "green", "inherit;}": "inherit",
                   "red !important": None, "red!": None, "red }": None, "1px}": None, "red)": None, "(red": None,
                   "red {": None, ";": None, ";red": None}


def canon(v):
    """the value a value spelling is stored as; None = empty or rejected"""
    if not v:
        return None
    v = VALUE_SPELLINGS.get(v, v)
    return v if v in VALUES else None
# raw spelling -> (Property(raw).literalname, name parses, the normalised name the spelling designates)
DIGEST = {
    "color": ("color", True, "color"), "COLOR": ("color", True, "color"), "c\\olor": ("c\\olor", True, "color"),
    "C\\OLOR": ("c\\olor", True, "color"),
    "top": ("top", True, "top"), "TOP": ("top", True, "top"), "t\\op": ("t\\op", True, "top"),
    "left": ("left", True, "left"),
    "o\\\\x": ("o\\\\x", True, "o\\x"), "o\\x": ("o\\x", True, "ox"), "ox": ("ox", True, "ox"),
    # accepted by the Property constructor but not canonical: look-ups go by normalize(raw), which no entry bears;
    # setProperty replaces the entry they are stored as (fix C11-set-name-as-stored)
    " color ": ("color", True, "color"), "\\43olor": ("color", True, "color"), "color/**/": ("color", True, "color"),
    "co lor": ("", False, None), "": ("", False, None),
}
PRIO = {"": "N", None: "N", "important": "I", "!important": "I", "IMPORTANT": "I", "x": "B"}


def cps(x):
    return ",".join(str(ord(c)) for c in x) if x else "-"


def uncps(x):
    return "" if x == "-" else "".join(chr(int(c)) for c in x.split(","))


def digest(raw):
    if raw in DIGEST:
        return DIGEST[raw]
    return (raw, True, raw)          # generated CSS names ([a-z-]+): checked in check_digests


def varg(v):
    if not v:
        return "E"
    return str(VALUES[canon(v)]) if canon(v) else "B"


# ------------------------------------------------------------------------------------------------ histories
# op tuples:
#  ("set", raising, raw, value, prio, normalize, replace)      style.setProperty(raw, value, prio, normalize, replace)
#  ("setp", raising, raw, value, prio, normalize, replace)     style.setProperty(Property(raw, value, prio), ...)
#  ("rm", raw, normalize)    ("si", raising, raw, value, prio|"-")   ("di", raw)
#  ("sa", raising, dom, value)   ("da", dom)    ("st", raising, malformed, items)
#  items: ("D", raw, value, imp) | ("C", n) | ("U", n)
def item_line(it):
    if it[0] == "D":
        return "D:%s:%d:%d" % (cps(digest(it[1])[0]), VALUES[it[2]], int(it[3]))
    return "%s:%d" % (it[0], it[1])


def render_items(items, malformed=False):
    out = []
    for it in items:
        if it[0] == "D":
            out.append("%s: %s%s;" % (it[1], it[2], " !important" if it[3] else ""))
        elif it[0] == "C":
            out.append("/*c%d*/" % it[1])
        else:
            out.append("@u%d;" % it[1])
    if malformed:
        out.insert(len(out) // 2, "junk junk;")
    return " ".join(out)


def op_line(op):
    k = op[0]
    if k == "set":
        _, r, raw, v, p, n, x = op
        lit, nok, _ = digest(raw)
        return "set %d %s %s %d %s %s %d %d" % (r, cps(raw), cps(lit), nok, varg(v), PRIO[p], n, x)
    if k == "setp":
        _, r, raw, v, p, n, x = op
        lit, nok, _ = digest(raw)
        wf = nok and canon(v) is not None
        return "setp %d %d %s %d %d %d %d" % (r, wf, cps(lit), VALUES.get(canon(v), 0), int(PRIO[p] == "I"), n, x)
    if k == "rm":
        return "rm %s %d" % (cps(op[1]), op[2])
    if k == "si":
        _, r, raw, v, p = op
        lit, nok, _ = digest(raw)
        return "si %d %s %s %d %s %s" % (r, cps(raw), cps(lit), nok, varg(v), PRIO[None if p == "-" else p])
    if k == "di":
        return "di %s" % cps(op[1])
    if k == "sa":
        return "sa %d %s %s" % (op[1], cps(op[2]), varg(op[3]))
    if k == "da":
        return "da %s" % cps(op[1])
    if k == "st":
        return "st %d %d %s" % (op[1], op[2], " ".join(item_line(i) for i in op[3]))
    if k == "stt":
        # style.cssText = text; the model tokenizes, splits with the declaration-block skeleton and looks every
        # run up in the table (run text -> item | X)
        return "stt %d %s %s" % (op[1], cps(op[2]), " ".join("%s=%s" % (cps(key), v) for key, v in op[3]))
    raise ValueError(op)


def history_line(h):
    return ";".join(["%d" % h["ro"], " ".join(cps(p) for p in h["probes"]),
                     " ".join(item_line(i) for i in h["init"])] + [op_line(tuple(o)) for o in h["ops"]])


# ------------------------------------------------------------------------------------------------ implementation side
def _exc_name(e):
    import xml.dom
    if isinstance(e, xml.dom.NoModificationAllowedErr):
        return "Readonly"
    if isinstance(e, xml.dom.SyntaxErr):
        return "Syntax"
    if isinstance(e, AttributeError) and "NoneType" not in str(e):
        return "Attr"
    return "Crash"


def _apply(style, op):
    """run one operation on the implementation; returns the outcome string of the wire format"""
    import css_parser
    from css_parser.css import Property
    k = op[0]
    log = css_parser.log
    try:
        if k == "set":
            _, r, raw, v, p, n, x = op
            log.raiseExceptions = bool(r)
            kw = {}
            if p is not None:
                kw["priority"] = p
            ret = style.setProperty(raw, v, normalize=bool(n), replace=bool(x), **kw)
        elif k == "setp":
            _, r, raw, v, p, n, x = op
            log.raiseExceptions = False
            prop = Property(raw, v, p or "")
            log.raiseExceptions = bool(r)
            ret = style.setProperty(prop, normalize=bool(n), replace=bool(x))
        elif k == "rm":
            log.raiseExceptions = True
            ret = style.removeProperty(op[1], normalize=bool(op[2]))
        elif k == "si":
            _, r, raw, v, p = op
            log.raiseExceptions = bool(r)
            ret = style.__setitem__(raw, v if p == "-" else (v, p))
        elif k == "di":
            log.raiseExceptions = True
            ret = style.__delitem__(op[1])
        elif k == "sa":
            log.raiseExceptions = bool(op[1])
            setattr(style, op[2], op[3])
            ret = None
        elif k == "da":
            log.raiseExceptions = True
            delattr(style, op[1])
            ret = None
        elif k == "st":
            log.raiseExceptions = bool(op[1])
            style.cssText = render_items(op[3], bool(op[2]))
            ret = None
        elif k == "stt":
            log.raiseExceptions = bool(op[1])
            style.cssText = op[2]
            ret = None
        else:
            raise ValueError(op)
    except Exception as e:  # noqa
        log.raiseExceptions = False
        return "X:" + _exc_name(e), e
    log.raiseExceptions = False
    if ret is None:
        return "D:N", None
    if ret == "":
        return "D:E", None
    return "D:V%d" % VALUES.get(ret, 999), None


def _state(style):
    """[(kind, ...)] of the sequence: ('P', lit, name, value, priority) | ('C', n) | ('U', n) | ('?', repr)"""
    from css_parser.css import Property, CSSComment, CSSUnknownRule
    out = []
    for c in style.children():
        if isinstance(c, Property):
            out.append(("P", c.literalname, c.name, c.value, c.priority))
        elif isinstance(c, CSSComment) and c.cssText.startswith("/*c") and c.cssText[3:-2].isdigit():
            out.append(("C", int(c.cssText[3:-2])))
        elif isinstance(c, CSSUnknownRule) and c.cssText.startswith("@u") and c.cssText[2:-1].isdigit():
            out.append(("U", int(c.cssText[2:-1])))
        else:
            out.append(("?", repr(c)))
    return out


def _p(lit, name, value, priority):
    imp = {"": "0", "important": "1"}.get(priority, "?" + priority)
    return "%s:%s:%d:%s" % (cps(lit), cps(name), VALUES.get(value, 999), imp)


def _ret(v):
    return "E" if v == "" else "V%d" % VALUES.get(v, 999)


def _observe(style, probes):
    from css_parser.css import Property
    kids = list(style.children())

    def oprops(ps):
        out = []
        for p in ps:
            if p is None:
                out.append("None")
            else:
                idx = [i for i, c in enumerate(kids) if c is p]
                out.append("%s:%s" % (idx[0] if idx else "?", _p(p.literalname, p.name, p.value, p.priority)))
        return " ".join(out)
    st = _state(style)
    items = " ".join("P:" + _p(*i[1:]) if i[0] == "P" else "%s:%s" % (i[0], i[1]) for i in st)
    keys = style.keys()
    n = style.length
    fields = [items, " ".join(cps(k) for k in keys), str(n),
              " ".join(cps(style.item(i)) for i in range(-n - 1, n + 1)),
              oprops(list(style)), oprops(style.getProperties()), oprops(style.getProperties(all=True))]
    pr = []
    for nm in probes:
        try:
            a = getattr(style, nm)
            a = _ret(a) if isinstance(a, str) else "X"
        except AttributeError:
            a = "X"
        pr.append("~".join([_ret(style.getPropertyValue(nm)), _ret(style.getPropertyValue(nm, normalize=False)),
                            str(int(style.getPropertyPriority(nm) == "important")),
                            str(int(style.getPropertyPriority(nm, normalize=False) == "important")),
                            str(int(nm in style)),
                            oprops(style.getProperties(nm)), oprops(style.getProperties(nm, all=True)), a]))
    fields.append("/".join(pr))
    return "#".join(fields)


# ---- the property-level oracle: an independent reference list (the statement of C11, not the code)
class Ref:
    def __init__(self, items):
        self.l = [self.entry(i) for i in items]

    @staticmethod
    def entry(it):
        if it[0] == "D":
            lit, _, nn = digest(it[1])
            return ["P", lit, nn, it[2], bool(it[3])]
        return [it[0], it[1]]

    def props(self):
        return [e for e in self.l if e[0] == "P"]

    def effective(self, n):
        named = [e for e in self.props() if e[2] == n]
        imp = [e for e in named if e[4]]
        return (imp or named or [None])[-1]

    def keys(self):
        names = [e[2] for e in self.props()]
        return [x for i, x in enumerate(names) if x not in names[i + 1:]]

    def nodup(self):
        names = [e[2] for e in self.props()]
        return len(set(names)) == len(names)

    def set(self, n, lit, v, imp, replace):
        e = self.effective(n) if replace else None
        if e is not None:
            e[3], e[4] = v, imp          # in place: position and literal name stay
        else:
            self.l.append(["P", lit, n, v, imp])

    def remove(self, n):
        e = self.effective(n)
        self.l = [x for x in self.l if not (x[0] == "P" and x[2] == n)]
        return e[3] if e else ""

    # literal-name mode (normalize=False): entries are selected by their literal name as stored
    def effective_lit(self, l):
        named = [e for e in self.props() if e[1] == l]
        imp = [e for e in named if e[4]]
        return (imp or named or [None])[-1]

    def set_lit(self, nm, lit, n, v, imp, replace):
        named = [e for e in self.props() if e[1] == nm] if replace else []
        if named:
            named[-1][3], named[-1][4] = v, imp      # the LAST entry of that literal name (set_literal_spec)
        else:
            self.l.append(["P", lit, n, v, imp])

    def remove_lit(self, l):
        e = self.effective_lit(l)
        self.l = [x for x in self.l if not (x[0] == "P" and x[1] == l)]
        return e[3] if e else ""


NONCANONICAL = (" color ", "\\43olor", "color/**/")


def _canonical(raw):
    """a spelling whose look-up name (normalize(raw)) is the name the Property constructor gives it"""
    return raw not in NONCANONICAL


def lookup_name(raw):
    """the name a look-up (get / remove / in) with this spelling designates: the API contract makes spellings
    equivalent up to case and simple escapes only, so a non-canonical or unparsable spelling designates a name
    no entry bears"""
    lit, nok, nn = digest(raw)
    return nn if (nok and _canonical(raw)) else "\0" + raw


def _oracle_step(style, ref, op, outcome, cssnames):
    """apply op to the reference, then compare every reporting method of the implementation with the
    reference list (normalised and literal-name mode).  Returns None, or a description."""
    import css_parser
    k = op[0]
    before_nodup = ref.nodup()
    expect_ret = None
    setname = None
    bad = outcome.startswith("X:")
    if k in ("set", "setp", "si", "sa"):
        if k == "sa":
            dom, v, p, normalize, replace = op[2], op[3], "", 1, 1
            raw = cssnames.get(dom)
            if raw is None:
                if not bad:
                    return "assignment to unknown attribute %r did not raise" % dom
                raw = None
        elif k == "si":
            raw, v, p, normalize, replace = op[2], op[3], (None if op[4] == "-" else op[4]), 1, 1
        else:
            raw, v, p, normalize, replace = op[2], op[3], op[4], op[5], op[6]
        if raw is not None:
            lit, nok, nn = digest(raw)
            if k != "setp" and not v:
                expect_ret = ref.remove(lookup_name(raw))
            elif nok and canon(v) is not None and not (PRIO[p] == "B" and bad):
                v = canon(v)
                if PRIO[p] == "B" and k != "setp" and op[1]:
                    return "unparsable priority accepted while raiseExceptions is on"
                if normalize:
                    ref.set(nn, lit, v, PRIO[p] == "I", bool(replace))
                    setname = (raw, v, bool(replace))
                else:
                    nm = lit if (k == "setp" or not _canonical(raw)) else raw
                    ref.set_lit(nm, lit, nn, v, PRIO[p] == "I", bool(replace))
            # else: invalid name / value / (raising) priority: rejected, nothing changes
    elif k in ("rm", "di"):
        raw = op[1]
        if k == "rm" and not op[2]:
            expect_ret = ref.remove_lit(raw)
        else:
            expect_ret = ref.remove(lookup_name(raw))
    elif k == "da":
        raw = cssnames.get(op[1])
        if raw is None:
            if not bad:
                return "deleting unknown attribute %r did not raise" % op[1]
        else:
            ref.remove(digest(raw)[2])
    elif k == "st":
        if not (op[2] and op[1]):
            ref.l = [Ref.entry(i) for i in op[3]]
    elif k == "stt":
        # op[4] = the items the text was composed of (by construction), op[5] = it contains junk
        if not (op[5] and op[1]):
            ref.l = [Ref.entry(tuple(i)) for i in op[4]]
        if bool(op[5] and op[1]) != bad:
            return "cssText assignment %s although the text %s a malformed declaration (raiseExceptions on)" % (
                "raised" if bad else "did not raise", "contains" if op[5] else "does not contain")
    # ---- compare
    got = _state(style)
    want = [tuple(e[:4]) + ("important" if e[4] else "",) if e[0] == "P" else tuple(e) for e in ref.l]
    if got != want:
        return "sequence differs from the reference list: got %r, expected %r" % (got, want)
    if expect_ret is not None and k in ("rm", "di", "set", "si") and outcome != "D:" + _ret(expect_ret):
        return "removal returned %s, the effective value was %r" % (outcome, expect_ret)
    keys = ref.keys()
    if style.keys() != keys:
        return "keys() = %r, distinct names in order of last occurrence = %r" % (style.keys(), keys)
    if style.length != len(keys):
        return "length = %r with %d distinct names" % (style.length, len(keys))
    for i in range(-len(keys) - 1, len(keys) + 1):
        w = keys[i] if -len(keys) <= i < len(keys) else ""
        if style.item(i) != w:
            return "item(%d) = %r, expected %r" % (i, style.item(i), w)
    effs = [ref.effective(n) for n in keys]

    def same(ps, es):
        return len(ps) == len(es) and all(
            p is not None and e is not None and (p.literalname, p.name, p.value, bool(p.priority)) == tuple(e[1:])
            for p, e in zip(ps, es))
    try:
        if not same(list(style), effs):
            return "iteration does not yield the effective entries of keys()"
        if not same(style.getProperties(), effs):
            return "getProperties() is not the list of effective entries"
        if not same(style.getProperties(all=True), ref.props()):
            return "getProperties(all=True) is not the full property list"
        style.valid
    except AttributeError as e:
        return "reporting method crashed: %s" % e
    for sp, (lit, nok, nn) in DIGEST.items():
        if not nok or not _canonical(sp):
            continue
        e = ref.effective(nn)
        if style.getPropertyValue(sp) != (e[3] if e else ""):
            return "getPropertyValue(%r) = %r, effective entry %r" % (sp, style.getPropertyValue(sp), e)
        if style.getPropertyPriority(sp) != ("important" if e and e[4] else ""):
            return "getPropertyPriority(%r) = %r, effective entry %r" % (sp, style.getPropertyPriority(sp), e)
        if (sp in style) != (nn in keys):
            return "%r in style = %r, keys %r" % (sp, sp in style, keys)
        if not same(style.getProperties(sp), [e] if e else []):
            return "getProperties(%r) is not [effective entry]" % sp
        if not same(style.getProperties(sp, all=True), [x for x in ref.props() if x[2] == nn]):
            return "getProperties(%r, all=True) is not the list of entries of that name" % sp
    for sp in DIGEST:
        e = ref.effective_lit(sp)
        if style.getPropertyValue(sp, normalize=False) != (e[3] if e else "") or \
                style.getPropertyPriority(sp, normalize=False) != ("important" if e and e[4] else ""):
            return "literal mode: getPropertyValue/Priority(%r, normalize=False) is not the literal-effective entry %r" % (sp, e)
    for sp in NONCANONICAL:
        if style.getPropertyValue(sp) != "" or (sp in style) or style.getProperties(sp):
            return "look-up through the non-canonical spelling %r found an entry" % sp
    for dom, c in cssnames.items():
        if c in ("color", "top", "left"):
            e = ref.effective(c)
            if getattr(style, dom) != (e[3] if e else ""):
                return "attribute %s is not an alias of getPropertyValue(%r)" % (dom, c)
    if k in ("sa", "da") and cssnames.get(op[1] if k == "da" else op[2]) is not None:
        raw = cssnames[op[1] if k == "da" else op[2]]
        e = ref.effective(digest(raw)[2])
        if getattr(style, op[1] if k == "da" else op[2]) != (e[3] if e else ""):
            return "attribute %s is not an alias of getPropertyValue(%r)" % (op[1] if k == "da" else op[2], raw)
    if setname and before_nodup and ref.nodup():
        raw, v, _ = setname
        rd = raw if _canonical(raw) else digest(raw)[0]      # read back through the stored literal name
        if style.getPropertyValue(rd) != v:
            return "block without duplicate names: getPropertyValue(%r) = %r after setting %r through %r" % (
                rd, style.getPropertyValue(rd), v, raw)
    # style.cssText re-parsed gives the same list
    css_parser.log.raiseExceptions = False
    back = _state(css_parser.parseStyle(style.cssText, validate=False))
    if back != want:
        return "cssText %r re-parses to %r, sequence is %r" % (style.cssText, back, want)
    # the serializer's effective-only view (prefs.keepAllProperties=False) shows, for every name, the SAME effective
    # entry the getters report (last !important one, else last one), at that entry's position, and everything else as is
    import re as _re
    if len(ref.props()) != len(ref.keys()) and all(_re.fullmatch(r"[a-z-]+", e[2]) for e in ref.props()):
        # (names whose normalised form is not a plain identifier are left out: writing the normalised name is not a
        #  faithful spelling for them -- theorem normalize_not_idempotent)
        prefs = css_parser.ser.prefs
        keep = prefs.keepAllProperties
        try:
            prefs.keepAllProperties = False
            text = style.cssText
        finally:
            prefs.keepAllProperties = keep
        want_eff = [w for e, w in zip(ref.l, want) if e[0] != "P" or e is ref.effective(e[2])]
        # (the literal spelling of the name is a layout matter there: prefs.defaultPropertyName writes the normalised
        #  name in this mode -- compare name, value, priority)
        nolit = lambda l: [(x[0], x[2], x[3], x[4]) if x[0] == "P" else tuple(x) for x in l]  # noqa: E731
        back = nolit(_state(css_parser.parseStyle(text, validate=False)))
        want_eff = nolit(want_eff)
        if back != want_eff:
            return ("cssText under keepAllProperties=False is %r and re-parses to %r; the effective entries the getters "
                    "report are %r" % (text, back, want_eff))
    return None


def _cssnames():
    """DOM attribute -> CSS name it must alias (the *specification*: inverse image under '-x' -> 'X')"""
    import css_parser
    out = {}
    for g in css_parser.profiles.properties:
        for n in css_parser.profiles.properties[g]:
            parts = n.split("-")
            out[parts[0] + "".join(p[:1].upper() + p[1:] for p in parts[1:])] = n
    return out


_CSSNAMES = None


def _independent_set():
    """ASSUMPTION of the history theorems made explicit and checked after EVERY step: the outcome of an operation
    depends on the block and the arguments only (`step` is a function of them) -- no state survives an operation
    outside the block.  An unrelated, fresh block must accept and read back a plain value right after any operation,
    whatever that operation was given (values ending in ';', rejected values, exceptions)."""
    import css_parser
    from css_parser.css import CSSStyleDeclaration
    css_parser.log.raiseExceptions = False
    try:
        pb = CSSStyleDeclaration()
        pb.setProperty("left", "inherit")
        got = pb.getPropertyValue("left")
        pb.setProperty("left", "1px", "important")
        got2 = (pb.getPropertyValue("left"), pb.getPropertyPriority("left"))
    except Exception as e:  # noqa
        return "hidden state: setProperty on a fresh, unrelated block raised %r right after this operation" % (e,)
    if got != "inherit" or got2 != ("1px", "important"):
        return ("hidden state: right after this operation a fresh, unrelated block stores %r / %r for "
                "setProperty('left', 'inherit') / ('left', '1px', 'important')" % (got, got2))
    return None


def run_history(h):
    """worker: runs one history on the implementation; returns (wire string comparable with the model's
    answer, first oracle failure or None, number of oracle-checked steps, final state)"""
    global _CSSNAMES
    import css_parser
    import logging
    from css_parser.css import CSSStyleDeclaration
    css_parser.log.setLevel(logging.CRITICAL + 1)
    css_parser.log.raiseExceptions = False
    if _CSSNAMES is None:
        _CSSNAMES = _cssnames()
    try:
        style = CSSStyleDeclaration(cssText=render_items(h["init"]), readonly=bool(h["ro"]), validating=False)
        ref = Ref(h["init"])
        steps, fail, checked, oracle_on = [], None, 0, not h["ro"]
        for idx, op in enumerate(h["ops"]):
            op = tuple(op)
            outcome, exc = _apply(style, op)
            hidden = _independent_set()
            steps.append(outcome + "#" + _observe(style, h["probes"]))
            if hidden and fail is None:
                fail = (idx, hidden)
            if outcome == "X:Crash" and fail is None:
                fail = (idx, "operation crashed: %r" % (exc,))
            if oracle_on and fail is None:
                d = _oracle_step(style, ref, op, outcome, _CSSNAMES)
                if d == "SKIP":
                    oracle_on = False      # literal-name mode: outside the statement; reference no longer tracks
                elif d:
                    fail = (idx, d)
                else:
                    checked += 1
        return "|".join(steps), fail, checked, json.dumps(_state(style))
    except Exception as e:  # noqa
        import traceback
        return "HARNESS-EXC " + traceback.format_exc()[-600:], (0, "harness/implementation raised %r" % (e,)), 0, "[]"
    finally:
        css_parser.log.raiseExceptions = True


# ------------------------------------------------------------------------------------------------ generators
CORE_NAMES = ["color", "C\\OLOR", "top"]
PROBES = ["color", "COLOR", "c\\olor", "top", "t\\op", "left", "o\\\\x", "o\\x", "ox", " color ", "\\43olor", "",
          "fontStyle", "font-style", "overflowX", "overflow-x"]


def core_ops():
    ops = []
    for raw in CORE_NAMES:
        for v in ("red", "blue"):
            for p in ("", "important"):
                ops.append(("set", 1, raw, v, p, 1, 1))
        ops.append(("set", 1, raw, "1px", "", 1, 0))
        ops.append(("set", 1, raw, "1px", "!important", 1, 0))
        ops.append(("rm", raw, 1))
    ops.append(("set", 0, "color", BADVALUE, "", 1, 1))
    ops.append(("set", 1, "color", "red", "", 0, 1))
    ops.append(("set", 1, "c\\olor", "blue", "important", 0, 1))
    ops.append(("rm", "c\\olor", 0))
    ops.append(("st", 1, 0, (("D", "color", "red", 0), ("C", 1), ("D", "c\\olor", "blue", 1), ("D", "top", "1px", 0))))
    ops.append(("set", 1, " color ", "green", "", 1, 1))
    # values that end in a token the value grammar stops at, through every string-valued entry point, both modes
    ops.append(("si", 1, "color", "red;", "-"))
    ops.append(("sa", 0, "top", "1px;"))
    ops.append(("set", 0, "color", "blue ;", "important", 1, 1))
    ops.append(("set", 1, "top", "1px}", "", 1, 1))
    return ops


# fragments of declaration-block text: (text, item it yields | None, an error is logged).  The model tokenizes
# the text, splits it with the declaration-block skeleton and parses every declaration run itself (name / value /
# priority split, name and priority token parse); only value runs ("red") and comment / at-rule texts are looked up.
FRAGMENTS = [
    ("color: red", ("D", "color", "red", 0), 0), ("COLOR: blue !important", ("D", "COLOR", "blue", 1), 0),
    ("c\\olor: 1px", ("D", "c\\olor", "1px", 0), 0), ("top:green", ("D", "top", "green", 0), 0),
    ("left : inherit", ("D", "left", "inherit", 0), 0), ("o\\\\x: red !important", ("D", "o\\\\x", "red", 1), 0),
    ("t\\op: 1px", ("D", "t\\op", "1px", 0), 0), ("font-style: inherit", ("D", "font-style", "inherit", 0), 0),
    ("/*c1*/", ("C", 1), 0), ("/*c2*/", ("C", 2), 0), ("@u3;", ("U", 3), 0), ("@u4;", ("U", 4), 0),
    # the declaration parse itself: whitespace and comments around the parts, priority spellings
    ("color/*c1*/ :  blue   ! important", ("D", "color", "blue", 1), 0), ("TOP:red!IMPORTANT", ("D", "TOP", "red", 1), 0),
    ("left:1px /*c2*/", None, 0), ("top: green !/*c1*/important", ("D", "top", "green", 1), 0),
    ("color: red !", ("D", "color", "red", 0), 1), ("top: blue ! important important", ("D", "top", "blue", 0), 1),
    ("left: green important", None, 1),
    # ident-started junk: not a declaration
    ("junk junk", None, 1), ("color red", None, 1), ("color:", None, 1), ("top: $", None, 1), ("x y: red", None, 1),
    ("color: !important", None, 1), ("color", None, 1),
    # junk taken by the `unexpected` handler, whatever it contains
    ("(y):2", None, 1), ("3 ! y:2", None, 1), ("[a;b]:1", None, 1), ("{z;w} x", None, 1), (":x", None, 1),
    ("f(a;b): 1", None, 1), ("!important", None, 1), ("", None, 0),
]
FRAGMENTS = [f for f in FRAGMENTS if f[0] not in ("left:1px /*c2*/", "left: green important")]   # value-layer cases
TEXT_TABLE = sorted([(v, "D:-:%d:0" % a) for v, a in VALUES.items()] +
                    [("/*c%d*/" % i, "C:%d" % i) for i in (1, 2)] + [("@u%d;" % i, "U:%d" % i) for i in (3, 4)])


def rand_text_op(rng, raising=None):
    frs = [rng.choice(FRAGMENTS if rng.random() < 0.6 else FRAGMENTS[:12]) for _ in range(rng.randint(0, 6))]
    text, items, err = "", [], False
    for ft, exp, e in frs:
        text += rng.choice(["", " ", "\n  "]) + ft
        err = err or bool(e)
        if exp is not None:
            items.append(exp)
        if exp is None or exp[0] == "D":
            text += rng.choice([";", " ;", "; "])
    raising = int(rng.random() < 0.5) if raising is None else raising
    return ("stt", raising, text, TEXT_TABLE, items, int(err))


def rand_item(rng):
    r = rng.random()
    if r < 0.75:
        return ("D", rng.choice(["color", "COLOR", "c\\olor", "top", "t\\op", "left", "o\\\\x", "o\\x", "ox",
                                 "font-style", "overflow-x"]), rng.choice(list(VALUES)), int(rng.random() < 0.3))
    return ("C", rng.randint(1, 9)) if r < 0.9 else ("U", rng.randint(1, 9))


def rand_op(rng, literal=True, weird=False):
    names = ["color", "COLOR", "c\\olor", "C\\OLOR", "top", "TOP", "t\\op", "left", "o\\\\x", "o\\x", "ox",
             "font-style", "overflow-x"]
    if weird:
        names = names + [" color ", "\\43olor", "color/**/", "co lor", ""]
    raw = rng.choice(names)
    v = rng.choice(list(VALUES) + ["red", "blue"])
    r = rng.random()
    if r < 0.08:
        v = BADVALUE
    elif r < 0.14:
        v = rng.choice(["", None])
    elif r < 0.30:
        v = rng.choice(list(VALUE_SPELLINGS))
    p = rng.choice(["", "", "", None, "important", "!important", "IMPORTANT", "important", "x"])
    raising = int(rng.random() < 0.6)
    n = 0 if (literal and rng.random() < 0.2) else 1
    x = int(rng.random() < 0.75)
    k = rng.random()
    if k < 0.42:
        return ("set", raising, raw, v, p, n, x)
    if k < 0.50:
        return ("setp", raising, raw, v or "red", p, n, x)   # Property(raw, v): the value may carry a stop token too
    if k < 0.62:
        return ("rm", raw, n)
    if k < 0.70:
        return ("si", raising, raw, v, rng.choice(["-", "-", "important", "", "x"]))
    if k < 0.74:
        return ("di", raw)
    if k < 0.84:
        return ("sa", raising, rng.choice(["color", "top", "left", "fontStyle", "overflowX", "fooBar", "overflowx"]), v)
    if k < 0.89:
        return ("da", rng.choice(["color", "top", "fontStyle", "overflowX", "fooBar"]))
    if k < 0.95:
        return ("st", raising, int(rng.random() < 0.25), tuple(rand_item(rng) for _ in range(rng.randint(0, 5))))
    return rand_text_op(rng)


def gen_histories(ctx, thorough):
    hs = []
    core = core_ops()
    depth = 4 if thorough else 3
    inits = [(), (("D", "color", "red", 1), ("C", 1), ("D", "COLOR", "blue", 0))]
    ops_for = core if not thorough else core[:16] + core[-4:]
    for k, init in enumerate(inits[:1 if thorough else 2]):
        alphabet = ops_for if k == 0 else core[:16] + core[-4:]     # second start block: reduced alphabet
        for seq_ in itertools.product(alphabet, repeat=depth):
            hs.append({"ro": 0, "probes": PROBES[:6], "init": list(init), "ops": list(seq_)})
    n_exh = len(hs)
    rng = ctx.rng
    for i in range(12000 if thorough else 2500):
        init = [rand_item(rng) for _ in range(rng.randint(0, 6))]
        literal = rng.random() < 0.5
        weird = rng.random() < 0.15
        ops = [rand_op(rng, literal, weird) for _ in range(rng.randint(1, 40 if i % 4 == 0 else 12))]
        hs.append({"ro": int(rng.random() < 0.04), "probes": PROBES, "init": init, "ops": ops})
    # cssText assignments of composed texts (junk, nested brackets, comments, at-rules) mixed with the other ops
    for i in range(6000 if thorough else 1500):
        ops = [rand_text_op(rng) if rng.random() < 0.6 else rand_op(rng, rng.random() < 0.3, False)
               for _ in range(rng.randint(1, 8))]
        hs.append({"ro": 0, "probes": PROBES[:9], "init": [rand_item(rng) for _ in range(rng.randint(0, 3))], "ops": ops})
    return hs, n_exh


def alias_histories():
    """every generated attribute: set through the attribute, read through the name and back, delete"""
    hs = []
    for dom, c in sorted(_cssnames().items()):
        hs.append({"ro": 0, "probes": [c, dom], "init": [("D", c, "inherit", 0)] if len(c) % 2 else [],
                   "ops": [("sa", 1, dom, "red"), ("set", 1, c, "blue", "important", 1, 1), ("sa", 1, dom, "green"),
                           ("sa", 0, dom, BADVALUE), ("da", dom), ("sa", 1, dom, "1px"), ("sa", 1, dom, "")]})
    return hs


def check_digests(ctx):
    """the name digests the model is fed with (literal name, parses) and the designated names of the oracle
    are compared with what the implementation's Property constructor and _normalize make of each spelling"""
    import css_parser
    import logging
    from css_parser.css import Property
    css_parser.log.setLevel(logging.CRITICAL + 1)
    css_parser.log.raiseExceptions = False
    bad = []
    try:
        allraw = dict(DIGEST)
        for c in _cssnames().values():
            allraw.setdefault(c, (c, True, c))
        for raw, (lit, nok, nn) in allraw.items():
            p = Property(raw, "red")
            if (p.literalname, bool(p.wellformed)) != (lit, nok) or (nok and p.name != nn):
                bad.append((raw, (p.literalname, p.wellformed, p.name), (lit, nok, nn)))
        for sp, want in VALUE_SPELLINGS.items():
            p = Property("color", sp)
            got = p.value if p.wellformed else None
            if got != want:
                bad.append(("value spelling", sp, got, want))
    finally:
        css_parser.log.raiseExceptions = True
    if bad:
        ctx.broken("correspondence", "name digests (Property(raw).literalname / wellformed / name)", json.dumps(bad[:5]))
    return len(allraw)


def alias_probe(ctx):
    """Property objects shared between blocks: the implementation behaves as StyleDeclAlias.v says (the object itself
    is appended when nothing is replaced; the replace path mutates the stored object and copies FROM a Property
    argument).  A difference means the stated exclusion of the history theorems is no longer the right one."""
    import css_parser
    import logging
    from css_parser.css import CSSStyleDeclaration, Property
    css_parser.log.setLevel(logging.CRITICAL + 1)
    bad = []
    n = 0
    for v1, v2, prio in itertools.product(["red", "blue"], ["1px", "green"], ["", "important"]):
        for same_block in (False, True):
            n += 1
            a = CSSStyleDeclaration(cssText="/*c1*/ top: 1px")
            b = a if same_block else CSSStyleDeclaration(cssText="left: 1px; /*c2*/")
            p = Property("color", v1)
            a.setProperty(p, replace=False)                  # append_ref: the object itself is stored
            b.setProperty(p, replace=False)
            ka, kb = list(a.children()), list(b.children())
            if not (ka[-1] is p and kb[-1] is p):
                bad.append(("append path does not store the argument object", v1, same_block))
                continue
            a.setProperty("color", v2, prio)                  # overwrite through a: the effective entry IS p
            seen = [(c.value, c.priority) for c in b.children() if isinstance(c, Property) and c.name == "color"]
            if any(s != (v2, prio) for s in seen) or (p.value, p.priority) != (v2, prio):
                bad.append(("write through one reference not visible through the other", seen, v2, prio, same_block))
            # separated: a replace hit copies FROM the argument, the argument is not stored
            c = CSSStyleDeclaration(cssText="color: inherit")
            q = Property("color", v1, prio)
            c.setProperty(q)
            if any(k is q for k in c.children()) or c.getPropertyValue("color") != v1:
                bad.append(("replace path stored the argument object / did not copy", v1))
            c.setProperty("color", v2)
            if q.value != v1:
                bad.append(("write to a block changed a Property that was only copied from", v1, v2))
            # by-name setProperty builds a fresh object each time: worlds stay separated
            d, e = CSSStyleDeclaration(), CSSStyleDeclaration()
            d.setProperty("color", v1)
            e.setProperty("color", v1)
            d.setProperty("color", v2)
            if e.getPropertyValue("color") != v1:
                bad.append(("by-name entries of two blocks are not separate objects", v1, v2))
    if bad:
        ctx.broken("correspondence", "Property object sharing vs CssV.StyleDeclAlias", json.dumps(bad[:5], default=str))
    return n


def todom_cases(binary, ctx):
    """toDOM model vs cssproperties._toDOMname on the generated names and on ASCII strings"""
    from css_parser.css import cssproperties as CP
    rng = ctx.rng
    xs = sorted(set(_cssnames().values()))
    for _ in range(400):
        xs.append("".join(rng.choice("ab-xyzAZ-_09-") for _ in range(rng.randint(1, 10))))
    out = ctx.run_binary(binary, ["TODOM " + cps(x) for x in xs])
    bad = [(x, uncps(o), CP._toDOMname(x)) for x, o in zip(xs, out) if uncps(o) != CP._toDOMname(x)]
    if bad:
        ctx.broken("correspondence", "toDOM vs cssproperties._toDOMname", json.dumps(bad[:5]))
    return len(xs)


def describe(h, idx, d):
    return {"history": h, "step": idx, "op": list(h["ops"][idx]) if idx < len(h["ops"]) else None, "fails": d}


def sig_text(h, idx):
    op = h["ops"][idx] if idx < len(h["ops"]) else ()
    return json.dumps({"op": list(op), "names": sorted({str(o[2]) for o in h["ops"] if o[0] in ("set", "setp", "si")})})


def shrink_history(h, still_fails):
    ops = shrink_seq(list(h["ops"]), lambda cand: still_fails(dict(h, ops=cand)), max_rounds=30)
    h2 = dict(h, ops=ops)
    init = shrink_seq(list(h["init"]), lambda cand: still_fails(dict(h2, init=cand)), max_rounds=10)
    return dict(h2, init=init)


def _fails(h):
    return run_history(h)[1] is not None


def run(ctx):
    thorough = ctx.tier == "thorough"
    ctx.regen("tokenizer", "upto", "cssproperties")
    ctx.coq_build("props/C11.v")
    binary = ctx.ocaml_build("styledecl")
    n_dig = check_digests(ctx)
    corpus_path = VERIF / "corpus" / "C11.json"
    corpus = json.loads(corpus_path.read_text()) if corpus_path.exists() else []
    hs, n_exh = gen_histories(ctx, thorough)
    al = alias_histories()
    hs = corpus + al + hs
    mism, states, steps, checked, reported = [], set(), 0, 0, 0
    n_todom = todom_cases(binary, ctx) if binary else 0
    n_alias = alias_probe(ctx)
    BATCH = 20000
    for lo in range(0, len(hs), BATCH):
        part = hs[lo:lo + BATCH]
        res = ctx.pool_map(run_history, part, procs=6, chunksize=128)
        if binary:
            out = ctx.run_binary(binary, [history_line(h) for h in part], shards=6)
            for h, r, o in zip(part, res, out):
                if r[0] != o and len(mism) < 50:
                    a, b = r[0].split("|"), o.split("|")
                    k = next((i for i, (x, y) in enumerate(itertools.zip_longest(a, b)) if x != y), 0)
                    mism.append({"history": h, "step": k, "implementation": (a[k] if k < len(a) else None),
                                 "model": (b[k] if k < len(b) else None)})
        for h, r in zip(part, res):
            steps += len(h["ops"])
            checked += r[2]
            states.add(r[3])
            if r[1] is not None and reported < 40:
                idx, d = r[1]
                known = ctx.match_known(d + " :: " + sig_text(h, idx))
                if not known and reported < 3:
                    h = shrink_history(h, _fails)
                    r2 = run_history(h)
                    if r2[1] is not None:
                        idx, d = r2[1]
                if ctx.violation(d, describe(h, idx, d), sig_text=sig_text(h, idx)):
                    reported += 1
        del res
    if mism:
        ctx.broken("correspondence", "CSSStyleDeclaration vs CssV.StyleDecl.trace_i (every accessor after every step)",
                   "%s of %d histories differ; first: %s" % (len(mism) if len(mism) < 50 else ">=50", len(hs), json.dumps(mism[0])[:1800]))
    for f in ctx.findings:
        if f.get("status") == "open":
            r = run_history(f["witness"]["history"])
            if r[1] is not None:
                idx, d = r[1]
                ctx.violation(d, f["witness"], sig_text=sig_text(f["witness"]["history"], idx))

    def search():
        t0 = time.time()
        rng = ctx.rng
        while time.time() - t0 < (240 if thorough else 50):
            batch = al[:]
            for _ in range(1500):
                batch.append({"ro": 0, "probes": PROBES, "init": [rand_item(rng) for _ in range(rng.randint(0, 5))],
                              "ops": [rand_op(rng, False, False) for _ in range(rng.randint(1, 10))]})
            out = ctx.pool_map(run_history, batch, procs=6, chunksize=64)
            for h, r in zip(batch, out):
                if r[1] is not None and not ctx.match_known(r[1][1] + " :: " + sig_text(h, r[1][0])):
                    h = shrink_history(h, _fails)
                    r = run_history(h)
                    if r[1] is not None:
                        return describe(h, r[1][0], r[1][1])
        return None

    nontrivial = [s for s in states if len(json.loads(s)) >= 2]
    ctx.finish({
        "evaluations": steps,
        "histories": len(hs),
        "oracle_checked_steps": checked,
        "distinct_nontrivial": len(nontrivial),
        "rule": "histories = corpus + one per generated attribute (%d) + all sequences of %d operations over the "
                "%d-op core alphabet (%d, exhaustive part) + random sequences of <= 40 operations over the full "
                "alphabet (17 name spellings incl. escapes, escaped backslash, whitespace, unparsable; valid / invalid "
                "/ empty / None values and 14 value spellings ending in or containing ';' '!' '}' ')' '(' '{'; 6 priority spellings; normalize and replace on/off; Property arguments; item, "
                "attribute and cssText assignment (as item lists and as composed TEXTS with junk declarations, nested brackets, "
                "comments and at-rules that the model tokenizes and splits with the declaration-block skeleton), deletion; "
                "raiseExceptions on/off; read-only blocks) from parsed "
                "blocks with duplicates, comments and unknown at-rules; evaluations = operations applied, after each "
                "of which every accessor (26 per probe name) is compared; non-trivial = distinct final sequences with "
                ">= 2 items" % (len(al), 4 if thorough else 3, len(core_ops()[:20]) if thorough else len(core_ops()),
                                n_exh),
        "samples": [hs[len(corpus) + len(al) + 7], hs[-1], hs[len(corpus) + 3]],
        "disagreements_checked": len(hs) if binary else 0,
        "todom_cases": n_todom,
        "alias_probe_cases": n_alias,
        "name_digests_checked": n_dig,
        "trusted_base": TRUSTED,
    }, assumptions=ASSUME, search=search)


def replay(ctx, path):
    rep = json.loads(open(path).read())
    bad = 0
    for v in rep.get("violations", []):
        w = v["witness"]
        h = w.get("history")
        if not h:
            continue
        r = run_history(h)
        print("replay ops=%s\n  -> %s" % (json.dumps(h["ops"]), "FAILS at step %d: %s" % r[1] if r[1] else "holds"))
        bad += r[1] is not None
    return 1 if bad else 0


TRUSTED = [
    "Coq 8.16.1 kernel and VM (vm_compute for the finite statements over the generated attribute tables and for "
    "the witnesses); no native_compute",
    "translate/cssproperties.py (reads the CSS name bound in the live accessor closures, checks the forwarding "
    "one-liners by ast) and translate/tokenizer.py (tables of helper.normalize)",
    "extraction (ExtrOcamlBasic only) + ocamlfind ocamlopt, ocaml/styledecl_driver.ml",
    "correspondence harness harness/props/c11.py: generators, the wire rendering of the implementation's state, "
    "the name digests (Property(raw).literalname / wellformed, checked against the implementation each run)",
    "modelled, not verified: CSSStyleDeclaration is a hand-written Gallina transcription (StyleDecl.v); object "
    "identity/aliasing of Property objects, logging, parentRule/validating are not modelled",
    "opaque: property values (atoms + verdict of the value parser), priority spellings (none/important/unparsable); for "
    "cssText assignment the block split is the model of C04 (Skeleton.decl_block over Tokenizer.tokenize), opaque is "
    "only the VALUE run of a declaration and CSSUnknownRule.cssText of one at-rule run (table keyed by their text); the "
    "declaration parse itself (Property.cssText: name / value / priority split, name and priority tokens) is in the model; the reference oracle uses well-formed values only",
]
ASSUME = [
    "the model's `step` is a function of (operation, block): the history theorems assume that the outcome of an "
    "operation depends on the block and its arguments only, i.e. no state outside the block survives an operation "
    "(module-level tokenizer of prodparser, log flags, ...). Validated after EVERY step of every history by "
    "_independent_set (a fresh, unrelated block must store and read back plain values) and by the step-by-step "
    "correspondence itself, with value arguments that end in / contain the tokens the value grammar stops at "
    "(';', '!', '}', ')', '(', '{') in both logging modes",
    "Print Assumptions for every theorem of props/C11.v: see coverage.print_assumptions",
    "theorems quantify over every normalisation function norm; statements that relate a spelling to the name "
    "the Property constructor gives it: setProperty needs none (it looks up under the stored name); reading back "
    "through a spelling r needs norm(r) = norm(stored literal name)",
    "literal-name mode (normalize=False): fully specified (get_literal_is_effective, remove_literal_exact, "
    "set_literal_spec, set_then_get_literal) and covered by the reference oracle",
]
