"""C07 -- rule order and containment stay valid under any edit history.

proof:          coq/props/C07.v over the model coq/theories/Order.v (order_invariant, rejected_unchanged,
                valid_reparse, ...), facts in OrderFacts.v
tie:            translate/kinds.py regenerates the kind enumeration, every `r.type in (...)` tuple of insertRule, the
                parser's thresholds / next states and the container tables; the hand-written control flow
                (insertRule, deleteRule, _cleanNamespaces, encoding, namespaces[...], cssText, @media/@page) is
                compared with the extracted model after EVERY operation of every history below
oracle/search:  the statement itself evaluated on the implementation (independent of the model): order of the rule
                kinds, containment, "a rejected call leaves the list unchanged", cssText re-parses to the same kinds
"""
import itertools
import json
import logging
import time
import xml.dom

# ---------------------------------------------------------------------------------------------- alphabet
# name -> (text, (kind, prefix, uri, enc, prefixes-or-uris, child kinds))
K = dict(UN=0, ST=1, CS=2, IM=3, MD=4, FF=5, PG=6, NS=10, CM=1001, MG=1006, VAR=1008)
RULES = {
    "cs1": ('@charset "ascii";', (2, 0, 0, 1, [], [])),
    "cs2": ('@charset "utf-8";', (2, 0, 0, 2, [], [])),
    "im": ('@import "x.css";', (3, 0, 0, 0, [], [])),
    "np1": ('@namespace p "u1";', (10, 1, 1, 0, [], [])),
    "np2": ('@namespace p "u2";', (10, 1, 2, 0, [], [])),
    "nq2": ('@namespace q "u2";', (10, 2, 2, 0, [], [])),
    "var": ("@variables { c: red }", (1008, 0, 0, 0, [], [])),
    "st": ("a { x: 1 }", (1, 0, 0, 0, [], [])),
    "stp": ("p|a { x: 1 }", (1, 0, 0, 0, [1], [])),
    "stq": ("q|b { x: 1 }", (1, 0, 0, 0, [2], [])),
    "md": ("@media all { a { x: 1 } }", (4, 0, 0, 0, [], [1])),
    "mdn": ("@media all { @media print { a { x: 1 } } }", (4, 0, 0, 0, [], [4])),
    "pg": ("@page { margin: 0 }", (6, 0, 0, 0, [], [])),
    "pgm": ("@page { @top-left { x: 1 } }", (6, 0, 0, 0, [], [1006])),
    "ff": ("@font-face { font-family: x }", (5, 0, 0, 0, [], [])),
    "un": ("@x y;", (0, 0, 0, 0, [], [])),
    "cm": ("/*c*/", (1001, 0, 0, 0, [], [])),
    "mg": ("@top-left { x: 1 }", (1006, 0, 0, 0, [], [])),
}
PFX = {"": 0, None: 0, "p": 1, "q": 2}
URI = {"u1": 1, "u2": 2, "u3": 3}
ENC = {None: 0, "ascii": 1, "utf-8": 2}
ENCN = {v: k for k, v in ENC.items()}
LEVEL4 = (1, 4, 6, 5)       # style, @media, @page, @font-face


def nofetch(url):
    return None


# ---------------------------------------------------------------------------------------------- implementation side
def _uris_of(r):
    return sorted(URI.get(u, 99) for u in r.selectorList._getUsedUris() if u)


def obs_rule(r):
    t = r.type
    if t == r.CHARSET_RULE:
        return (t, 0, 0, ENC.get(r.encoding, 99), [], [])
    if t == r.NAMESPACE_RULE:
        return (t, PFX.get(r.prefix, 99), URI.get(r.namespaceURI, 99), 0, [], [])
    if t == r.STYLE_RULE:
        return (t, 0, 0, 0, _uris_of(r), [])
    if t in (r.MEDIA_RULE, r.PAGE_RULE):
        return (t, 0, 0, 0, [], [c.type for c in r.cssRules])
    return (t, 0, 0, 0, [], [])


def obs(sheet):
    return [obs_rule(r) for r in sheet.cssRules]


def tree(rules, shown_only=False):
    """nested [type, children-or-None] description of a rule list (children for @media / @page)"""
    out = []
    for r in rules:
        if shown_only and not r.cssText:
            continue
        kids = tree(r.cssRules, shown_only) if r.type in (r.MEDIA_RULE, r.PAGE_RULE) else None
        out.append([r.type, kids])
    return out


def mkobj(name):
    """a fresh, detached rule object of the representative kind"""
    import css_parser
    old = css_parser.log.raiseExceptions
    p = css_parser.CSSParser(fetcher=nofetch, raiseExceptions=False)
    pre = '@namespace p "u1"; @namespace q "u2";' if name in ("stp", "stq") else ""
    if name == "mg":        # a margin rule exists inside an @page only (the sheet parser discards it)
        s = p.parseString("@page { " + RULES[name][0] + " }")
        css_parser.log.raiseExceptions = old
        r = s.cssRules[0].cssRules[0]
        s.cssRules[0].deleteRule(0)
        return r
    s = p.parseString(pre + RULES[name][0])
    css_parser.log.raiseExceptions = old
    r = s.cssRules[-1]
    r._parentStyleSheet = None
    return r


# tokens the sheet-level dispatch maps to a no-op production (they reset the parser's order state);
# a trailing 'g' = glued: no whitespace between the token and what follows
SEPS = {"cdo": ("<!--", False), "cdc": ("-->", False), "cdog": ("<!--", True), "cdcg": ("-->", True)}


def text_of(names):
    out = []
    for i, n in enumerate(names):
        if n in SEPS:
            out.append(SEPS[n][0] + ("" if SEPS[n][1] or i == len(names) - 1 else "\n"))
        else:
            out.append(RULES[n][0] + ("" if i == len(names) - 1 else "\n"))
    return "".join(out)


def _target(sheet, k):
    """k: None (the sheet), an index (a top-level @media/@page) or a path [i, j, ...] into nested containers"""
    if k is None:
        return sheet
    cur = sheet
    for i in (k if isinstance(k, list) else [k]):
        rs = cur.cssRules
        if not (0 <= i < len(rs) and rs[i].type in (rs[i].MEDIA_RULE, rs[i].PAGE_RULE)):
            return None
        cur = rs[i]
    return cur


def apply_op(sheet, op):
    """op = [name, args...] (JSON); returns ['ret', v] | ['exc', class] | ['skip']"""
    kind = op[0]
    try:
        if kind in ("ins", "add", "append", "extend"):
            k, form, names = op[1], op[2], op[3]
            tgt = _target(sheet, k)
            if tgt is None:
                return ["skip"]
            arg = text_of(names) if form == "text" else mkobj(names[0])
            if kind == "add":
                r = tgt.add(arg)
            elif kind == "append":
                r = tgt.cssRules.append(arg)          # the rule list's append/extend are the owner's insertRule
            elif kind == "extend":
                r = tgt.cssRules.extend(arg)
            elif k is None:
                r = tgt.insertRule(arg, op[4], op[5])
            else:
                r = tgt.insertRule(arg, op[4])
        elif kind == "del":
            tgt = _target(sheet, op[1])
            if tgt is None:
                return ["skip"]
            r = tgt.deleteRule(op[2])
        elif kind == "delobj":
            tgt = _target(sheet, op[1])
            if tgt is None:
                return ["skip"]
            i = op[2]
            o = tgt.cssRules[i] if 0 <= i < len(tgt.cssRules) else mkobj("st")
            r = tgt.deleteRule(o)
        elif kind == "nsset":
            sheet.namespaces[op[1]] = op[2]
            r = None
        elif kind == "nsdel":
            del sheet.namespaces[op[1]]
            r = None
        elif kind == "enc":
            sheet.encoding = op[1]
            r = None
        elif kind == "text":
            tgt = _target(sheet, op[1])
            if tgt is None:
                return ["skip"]
            if op[1] is None:
                tgt.cssText = text_of(op[2])
            elif tgt.type == tgt.MEDIA_RULE:
                tgt.cssText = "@media all {\n" + text_of(op[2]) + "\n}"
            else:
                tgt.cssText = "@page {\n" + text_of(op[2]) + "\n}"
            r = None
        else:
            raise ValueError(op)
        return ["ret", r]
    except xml.dom.DOMException as e:
        return ["exc", type(e).__name__]


def reparse_kinds(sheet):
    import css_parser
    old = css_parser.log.raiseExceptions
    # with the default preference resolveVariables=True the serializer omits @variables rules by design
    # and with keepEmptyRules=False it omits rules without content (an emptied @media block)
    oldpref, oldkeep = css_parser.ser.prefs.resolveVariables, css_parser.ser.prefs.keepEmptyRules
    css_parser.ser.prefs.resolveVariables = False
    css_parser.ser.prefs.keepEmptyRules = True
    try:
        txt = sheet.cssText
        # rules the serializer prints nothing for (an @page without declarations and margin rules) are not expected back
        shown = [r.type for r in sheet.cssRules if r.cssText]
        shown_tree = tree(sheet.cssRules, True)
    except Exception as e:  # noqa
        return ["SERIALIZE-RAISED", type(e).__name__]
    finally:
        css_parser.ser.prefs.resolveVariables = oldpref
        css_parser.ser.prefs.keepEmptyRules = oldkeep
    try:
        p = css_parser.CSSParser(fetcher=nofetch, raiseExceptions=False)
        back = p.parseString(txt).cssRules
        return [shown, [r.type for r in back], shown_tree, tree(back)]
    except Exception as e:  # noqa
        return ["REPARSE-RAISED", type(e).__name__]
    finally:
        css_parser.log.raiseExceptions = old


def run_history(case):
    """case = (rx, ops, reparse_every). Returns per op (result, state, re-parse observation or None, deep tree)."""
    import css_parser
    rx, ops, every = case
    css_parser.log.setLevel(logging.FATAL)
    from css_parser.css import CSSStyleSheet
    saved = css_parser.log.raiseExceptions
    out = []
    try:
        s = CSSStyleSheet()
        s._setFetcher(nofetch)
        for n, op in enumerate(ops):
            css_parser.log.raiseExceptions = bool(rx)
            try:
                res = apply_op(s, op)
            except Exception as e:  # noqa -- a non-DOM exception escaping an operation
                res = ["crash", type(e).__name__, str(e)[:120]]
            css_parser.log.raiseExceptions = bool(rx)
            st = obs(s)
            rp = reparse_kinds(s) if (every or n == len(ops) - 1) else None
            out.append((res, st, rp, tree(s.cssRules)))
    finally:
        css_parser.log.raiseExceptions = saved
    return out


# ---------------------------------------------------------------------------------------------- model side (wire format)
def enc_item(t, obj=False):
    k, p, u, e, l, c = t
    return "%d:%d:%d:%d:%s:%s" % (k, p, u, e, "+".join(map(str, l)), "+".join(map(str, c)))


def proto_of(name):
    return RULES[name][1]


def obj_of(name):
    k, p, u, e, l, c = RULES[name][1]
    # an object carries resolved URIs (p -> u1, q -> u2 in mkobj); children as the parser keeps them
    return (k, p, u, e, l, c)


def enc_index(i):
    return "N" if i is None else str(i)


class NotModelled(Exception):
    pass


def enc_op(op):
    kind = op[0]
    if len(op) > 1 and isinstance(op[1], list):
        raise NotModelled("operation on a nested container")
    if kind in ("ins", "add", "append", "extend"):
        k, form, names = op[1], op[2], op[3]
        index, inorder = (None, True) if kind == "add" else (None, False) if kind in ("append", "extend") \
            else (op[4], op[5])
        src = ";".join(enc_item(proto_of(n)) for n in names) if form == "text" else enc_item(obj_of(names[0]))
        f = "T" if form == "text" else "O"
        if k is None:
            return "I|%s|%s|%s|%d" % (f, src, enc_index(index), 1 if inorder else 0)
        return "C|%d|I|%s|%s|%s" % (k, f, src, enc_index(index))
    if kind == "del":
        return ("D|%d" % op[2]) if op[1] is None else ("C|%d|D|%d" % (op[1], op[2]))
    if kind == "delobj":
        return ("DO|%d" % op[2]) if op[1] is None else ("C|%d|DO|%d" % (op[1], op[2]))
    if kind == "nsset":
        return "NS|%d|%d" % (PFX[op[1]], URI[op[2]])
    if kind == "nsdel":
        return "ND|%d" % PFX[op[1]]
    if kind == "enc":
        return "E|%d" % ENC[op[1]]
    if kind == "text":
        if op[1] is None:
            return "T|" + ";".join(("S1" if SEPS[n][1] else "S0") if n in SEPS else enc_item(proto_of(n)) for n in op[2])
        return "C|%d|T|%s" % (op[1], "+".join(str(proto_of(n)[0]) for n in op[2]))
    raise ValueError(op)


def enc_result(res):
    if res[0] == "ret":
        return "RN" if res[1] is None else "R%d" % res[1]
    if res[0] == "exc":
        return "E" + res[1]
    if res[0] == "skip":
        return "S"
    return "CRASH:" + ":".join(map(str, res[1:]))


def distinct_ns(st):
    ns = [r for r in st if r[0] == 10]
    return len({r[1] for r in ns}) == len(ns) and len({r[2] for r in ns}) == len(ns)


def enc_state(st):
    return ";".join(enc_item(r) for r in st)


# ---------------------------------------------------------------------------------------------- the property on the implementation
# What a container may hold is part of the statement ("no rule kind inside a container that forbids it"), so the
# oracle carries it as a fixed table of its own -- it is neither read from the model nor asked from insertRule
# (a regression that makes insertRule accept a kind must not move the yardstick).  It is the union of what the
# container's insertRule and its parser refuse on the reference tree; container_tables() cross-checks the parser half
# against the running implementation (which children survive a parse of '@media all { <child> }').
MEDIA_FORBIDS = frozenset([2, 3, 10, 5, 1008, 1006])     # @charset @import @namespace @font-face @variables margin
# an @page holds margin rules only (what its parser reads back)
PAGE_FORBIDS = frozenset([0, 1, 2, 3, 4, 5, 6, 10, 1001, 1008])
_TABLES_CHECKED = []


def container_tables():
    """cross-check of MEDIA_FORBIDS with the @media parser of the running implementation; returns a description of
    the first difference or None"""
    if _TABLES_CHECKED:
        return _TABLES_CHECKED[0]
    import css_parser
    css_parser.log.setLevel(logging.FATAL)
    old = css_parser.log.raiseExceptions
    bad = None
    p = css_parser.CSSParser(fetcher=nofetch, raiseExceptions=False)
    for n in ("cs1", "im", "np1", "var", "st", "md", "pg", "ff", "un", "cm", "mg"):
        k = RULES[n][1][0]
        s = p.parseString("@media all {\n a { y: 2 }\n" + RULES[n][0] + "\n}")
        kept = len(s.cssRules) == 1 and k in [c.type for c in s.cssRules[0].cssRules][1:]
        if kept == (k in MEDIA_FORBIDS):
            bad = "the @media parser %s a child of kind %d, the containment table says otherwise" % (
                "keeps" if kept else "drops", k)
            break
    css_parser.log.raiseExceptions = old
    _TABLES_CHECKED.append(bad)
    return bad


def order_violation(st, tr=None):
    """the statement's ValidOrder on an observed state (tr = deep tree, for containment at every depth);
    returns None or a description"""
    ks = [r[0] for r in st]
    for i, k in enumerate(ks):
        if k == 2 and i != 0:
            return "@charset at index %d (only allowed once, as first rule)" % i
    imports = [i for i, k in enumerate(ks) if k == 3]
    nss = [i for i, k in enumerate(ks) if k == 10]
    body = [i for i, k in enumerate(ks) if k in LEVEL4]
    if imports and nss and max(imports) > min(nss):
        return "@namespace at index %d before @import at index %d" % (min(nss), max(imports))
    if body and imports and max(imports) > min(body):
        return "@import at index %d after a style/@media/@page/@font-face rule at index %d" % (max(imports), min(body))
    if body and nss and max(nss) > min(body):
        return "@namespace at index %d after a style/@media/@page/@font-face rule at index %d" % (max(nss), min(body))
    if tr is None:
        tr = [[r[0], [[c, None] for c in r[5]] if r[0] in (4, 6) else None] for r in st]
    return containment_violation(tr, [])


def containment_violation(tr, path):
    for i, (k, kids) in enumerate(tr):
        if kids is None:
            continue
        forb = MEDIA_FORBIDS if k == 4 else PAGE_FORBIDS
        for c, _ in kids:
            if c in forb:
                return "rule kind %d inside the %s at %s, which refuses it" % (
                    c, "@media" if k == 4 else "@page", path + [i])
        v = containment_violation(kids, path + [i])
        if v:
            return v
    return None


INSERTS = ("ins", "add", "append", "extend")


def op_label(op):
    names = op[3] if op[0] in INSERTS else op[2] if op[0] == "text" else []
    where = "" if (len(op) < 2 or op[1] is None or op[0] in ("nsset", "nsdel", "enc")) else "@container"
    return "%s%s(%s)" % (op[0], where, ",".join(names) if isinstance(names, list) else names)


def is_rejected(op, res):
    if res[0] in ("exc", "crash"):
        return True
    return op[0] in INSERTS and res[0] == "ret" and res[1] is None


def subtree(tr, path):
    """(kind, children) of the container a path addresses in a deep tree, or None"""
    node = None
    for i in (path if isinstance(path, list) else [path]):
        if not (0 <= i < len(tr)) or tr[i][1] is None:
            return None
        node = tr[i]
        tr = node[1]
    return node


def tree_diff(a, b, where="the sheet"):
    """all places where two deep trees differ: list of (where, kinds a, kinds b)"""
    ka, kb = [x[0] for x in a], [x[0] for x in b]
    if ka != kb:
        return [(where, ka, kb)]
    out = []
    for i, (x, y) in enumerate(zip(a, b)):
        if x[1] is not None or y[1] is not None:
            out += tree_diff(x[1] or [], y[1] or [], "the %s at index %d of %s" % ("@media" if x[0] == 4 else "@page", i, where))
    return out


def taints(what):
    """after this failure the rest of the history is not judged (a failed call left a state the property does not
    speak about); a child lost inside an @page on re-parse does not disturb anything else"""
    return not (what.startswith("cssText does not re-parse") and ": the @page at index" in what)


def oracle(rx, ops, out):
    """yields (description, witness, sig_text) for every failure of the statement on this history"""
    bad_table = container_tables()
    if bad_table:
        yield ("containment table of the oracle disagrees with the implementation: " + bad_table, {"rx": rx, "ops": []},
               "table")
    prev, prevtr = [], []
    for n, (op, (res, st, rp, tr)) in enumerate(zip(ops, out)):
        hist = {"rx": rx, "ops": ops[:n + 1]}
        if res[0] == "crash":
            yield ("operation raised a non-DOM exception: %s -> %s" % (op_label(op), res[1]), hist, op_label(op))
        v = order_violation(st, tr)
        if v and not order_violation(prev, prevtr):
            yield ("invalid rule order after %s: %s" % (op_label(op), v), dict(hist, kinds=[r[0] for r in st]),
                   json.dumps([r[0] for r in prev]))
        if is_rejected(op, res) and (st != prev or tr != prevtr):
            yield ("rejected call changed the rule list: %s -> %s" % (op_label(op), res[1] if res[0] != "ret" else "None"),
                   dict(hist, before=prev, after=st), json.dumps([r[0] for r in prev]))
        # a container has to take a rule OBJECT of a kind it does not refuse (appended: no index to be wrong)
        if op[0] in ("add", "append", "extend") and op[1] is not None and op[2] == "obj" and res[0] != "skip":
            node = subtree(prevtr, op[1])
            if node is not None:
                k = RULES[op[3][0]][1][0]
                allowed = k not in (MEDIA_FORBIDS if node[0] == 4 else PAGE_FORBIDS)
                if allowed and is_rejected(op, res):
                    yield ("container refused a rule kind it allows: %s -> %s" % (op_label(op), res[1:]), hist,
                           op_label(op))
                if not allowed and not is_rejected(op, res):
                    yield ("container accepted a rule kind it refuses: %s returned %s" % (op_label(op), res[1]), hist,
                           op_label(op))
        # del namespaces[p] that succeeds removes the last @namespace rule with that prefix and nothing else
        if op[0] == "nsdel" and res == ["ret", None] and st != prev:
            idx = [i for i, r in enumerate(prev) if r[0] == 10 and r[1] == PFX[op[1]]]
            if not idx or st != prev[:idx[-1]] + prev[idx[-1] + 1:]:
                yield ("del namespaces[%r] removed another rule than the @namespace rule of that prefix" % op[1],
                       dict(hist, before=prev, after=st), json.dumps([r[0] for r in prev]))
        if rp is not None and not v:
            if len(rp) != 4 or not isinstance(rp[0], list):
                yield ("cssText could not be serialised / re-parsed after %s: %s" % (op_label(op), rp), hist, str(rp))
            else:
                for d in tree_diff(rp[2], rp[3]):
                    yield ("cssText does not re-parse to the same rules after %s: %s has %s, re-parsed %s" % (
                        op_label(op), d[0], d[1], d[2]), hist, json.dumps(rp[0]))
        prev, prevtr = st, tr


# ---------------------------------------------------------------------------------------------- generators
def core_alphabet():
    A = []
    for n in ("cm", "im", "np1", "var", "st", "cs1"):
        A.append(["add", None, "text", [n]])
    A.append(["add", None, "obj", ["nq2"]])
    A.append(["add", None, "text", ["un"]])
    for n in ("cm", "im", "np1", "var", "st", "cs1", "mg"):
        A.append(["ins", None, "text", [n], 0, False])
    for n in ("im", "np1", "st", "cm", "var"):
        A.append(["ins", None, "text", [n], 1, False])
    A.append(["ins", None, "obj", ["np1"], 0, True])
    A += [["del", None, 0], ["del", None, -1], ["del", None, 1]]
    A += [["nsset", "p", "u1"], ["nsset", "p", "u2"], ["nsdel", "p"]]
    A += [["enc", "ascii"], ["enc", None]]
    A += [["text", None, ["cs1", "im", "np1", "st"]], ["text", None, ["st", "im"]], ["text", None, []],
          ["text", None, ["st", "cdc", "cdo", "im", "st", "cdcg", "cs1"]]]
    return A


def wide_alphabet():
    A = []
    names = ["cs1", "cs2", "im", "np1", "np2", "nq2", "var", "st", "stp", "stq", "md", "pg", "pgm", "ff", "un",
             "cm", "mg"]
    for n in names:
        A.append(["add", None, "text", [n]])
        A.append(["add", None, "obj", [n]])
        for i in (0, 1, 2, None):
            A.append(["ins", None, "text", [n], i, False])
        A.append(["ins", None, "obj", [n], 1, False])
        A.append(["ins", None, "obj", [n], 0, True])
    A.append(["add", None, "text", []])
    A.append(["add", None, "text", ["st", "st"]])
    A.append(["ins", None, "text", ["st"], -1, False])
    A.append(["ins", None, "text", ["st"], 9, True])
    for i in (-3, -2, -1, 0, 1, 2, 3):
        A.append(["del", None, i])
    A += [["delobj", None, 0], ["delobj", None, 1], ["delobj", None, 7]]
    for p in ("p", "q"):
        for u in ("u1", "u2"):
            A.append(["nsset", p, u])
        A.append(["nsdel", p])
    A += [["enc", "ascii"], ["enc", "utf-8"], ["enc", None]]
    for t in (["cs1", "im", "np1", "stp"], ["st", "im"], [], ["cm", "cs1"], ["var", "np1", "st"], ["np1", "np2", "nq2", "stp"],
              ["im", "cm", "nq2", "var", "ff", "pg", "md", "un"], ["np1", "nq2", "stq", "mg", "im"], ["stp"],
              ["st", "cdc", "cdo", "im", "st"], ["ff", "cdo", "im", "np1"], ["md", "cdcg", "cs1", "st"],
              ["cdo", "cs1", "st", "cdc"], ["cdog", "cs1", "im", "cdc", "np1", "st", "cdo", "np2"],
              ["im", "st", "cdcg", "im", "cdo", "var", "pg"], ["cdo", "st", "cdc"]):
        A.append(["text", None, t])
    return A


# (namespaced selectors inside a container are outside the modelled alphabet: no "stp" here)
ALL_NAMES = ["cs1", "im", "np1", "var", "st", "md", "mdn", "pg", "pgm", "ff", "un", "cm", "mg"]


def container_ops(k, rx=None):
    """every representative rule kind as text and as object through insertRule, add, cssRules.append, cssRules.extend
    and cssText, plus malformed insertions and deletions, on the container addressed by k (index or path)"""
    A = []
    for n in ALL_NAMES:
        for form in ("text", "obj"):
            A.append(["ins", k, form, [n], 0, False])
            A.append(["add", k, form, [n]])
            A.append(["append", k, form, [n]])
            A.append(["extend", k, form, [n]])
        if n != "stp":        # a namespaced selector inside a container block is outside the modelled alphabet
            A.append(["text", k, [n]])
            A.append(["text", k, ["st", n, "cm"]])
    A.append(["ins", k, "text", ["st", "st"], 0, False])
    A.append(["ins", k, "text", [], None, False])
    A.append(["ins", k, "obj", ["st"], 5, False])
    A.append(["ins", k, "obj", ["st"], -1, False])
    A += [["del", k, 0], ["del", k, -1], ["del", k, 4], ["delobj", k, 0], ["delobj", k, 3]]
    A += [["text", k, ["cm", "im", "st"]], ["text", k, ["st", "un", "md", "pg", "mg"]], ["text", k, ["mg"]], ["text", k, []],
          ["text", k, ["var", "st"]], ["text", k, ["mg", "mg"]]]
    return A


CONTAINER_BASES = [(["md"], 0), (["pgm"], 0), (["pg"], 0), (["im", "md", "pg"], 1), (["im", "md", "pg"], 2),
                   (["mdn"], 0), (["mdn"], [0, 0])]


def random_op(rng, rx):
    r = rng.random()
    names = list(RULES)
    if r < 0.45:
        n = rng.choice(names)
        form = rng.choice(["text", "text", "obj"])
        if rng.random() < 0.4:
            return ["add", None, form, [n]]
        return ["ins", None, form, [n], rng.choice([None, 0, 0, 1, 1, 2, 3, 4, 5, 6, -1, 9]), rng.random() < 0.2]
    if r < 0.62:
        return ["del", None, rng.randint(-4, 6)] if rng.random() < 0.8 else ["delobj", None, rng.randint(0, 6)]
    if r < 0.72:
        if rng.random() < 0.7:
            return ["nsset", rng.choice(["p", "q"]), rng.choice(["u1", "u2"])]
        return ["nsdel", rng.choice(["p", "q"])]
    if r < 0.78:
        return ["enc", rng.choice(["ascii", "utf-8", None])]
    if r < 0.86:
        pool = names + (list(SEPS) * 2 if rng.random() < 0.5 else [])
        return ["text", None, [rng.choice(pool) for _ in range(rng.randint(0, 7))]]
    k = rng.choice([0, 0, 1, 1, 2, 3, 4, [0, 0], [1, 0]])
    return rng.choice(container_ops(k))


def fix_container_text(sheet_kinds_unknown, op):
    return op


def gen_cases(ctx, thorough):
    cases = []
    core = core_alphabet()
    for d in (1, 2, 3):
        for seq in itertools.product(core, repeat=d):
            cases.append((1, list(seq), False))
    n_core = len(cases)
    wide = wide_alphabet()
    for seq in itertools.product(wide, repeat=1):
        for rx in (0, 1):
            cases.append((rx, list(seq), True))
    pairs = list(itertools.product(wide, repeat=2))
    if not thorough:
        pairs = ctx.rng.sample(pairs, 6000)
    for seq in pairs:
        cases.append((ctx.rng.choice([0, 1]), list(seq), False))
    if thorough:
        for seq in itertools.product(core[:20], repeat=4):
            cases.append((1, list(seq), False))
        for seq in ctx.rng.sample(list(itertools.product(range(len(wide)), repeat=3)), 60000):
            cases.append((ctx.rng.choice([0, 1]), [wide[i] for i in seq], False))
    # containers: @media, @page and an @media nested in an @media; EVERY rule kind as text and as object through
    # insertRule / add / cssRules.append / cssRules.extend / cssText; the whole sheet is re-parsed after every op
    for rx in (0, 1):
        for base, k in CONTAINER_BASES:
            pre = [["add", None, "text", [n]] for n in base]
            cops = container_ops(k)
            for o in cops:
                cases.append((rx, pre + [o], True))
            for o1, o2 in ctx.rng.sample(list(itertools.product(cops, repeat=2)), 400 if thorough else 60):
                cases.append((rx, pre + [o1, o2], True))
    for rx in (0, 1):                          # the same methods on the sheet's own rule list
        for n in ALL_NAMES + ["np2", "nq2", "cs2"]:
            for form in ("text", "obj"):
                for m in ("append", "extend"):
                    cases.append((rx, [["add", None, "text", ["im"]], [m, None, form, [n]]], True))
                    cases.append((rx, [["add", None, "text", ["st"]], [m, None, form, [n]]], True))
    n_exh = len(cases)
    nrand = 20000 if thorough else 2500
    for _ in range(nrand):
        rx = ctx.rng.choice([0, 1, 1])
        ln = ctx.rng.choice([4, 8, 12, 30]) if thorough else ctx.rng.choice([4, 8, 12, 20])
        cases.append((rx, [random_op(ctx.rng, rx) for _ in range(ln)], True))
    return cases, n_core, n_exh


# ---------------------------------------------------------------------------------------------- known findings (stored witnesses)
def replay_witness(w):
    """re-run a stored history on the implementation; returns the oracle's failures"""
    out = run_history((w["rx"], w["ops"], True))
    return list(oracle(w["rx"], w["ops"], out))


def ctx_path(rel):
    from harness.lib import VERIF
    return VERIF / rel


def run(ctx):
    thorough = ctx.tier == "thorough"
    ctx.regen("kinds")
    ctx.coq_build("props/C07.v")
    binary = ctx.ocaml_build("order")
    corpus = json.loads(ctx_path("corpus/C07.json").read_text()) if ctx_path("corpus/C07.json").exists() else []
    cases, n_core, n_exh = gen_cases(ctx, thorough)
    cases = [(c["rx"], c["ops"], True) for c in corpus] + cases
    t0 = time.time()
    impl = ctx.pool_map(run_history, cases, procs=6, chunksize=128)
    t_impl = time.time() - t0
    nops = sum(len(c[1]) for c in cases)
    mism, compared, n_oracle_only = [], 0, 0
    states, opcount, rescount = set(), {}, {}
    if binary:
        lines, modelled = [], []
        for ci, (rx, ops, _) in enumerate(cases):
            try:
                lines.append("%d %s" % (rx, " ".join(enc_op(o) for o in ops)))
                modelled.append(ci)
            except NotModelled:
                n_oracle_only += 1          # operations on nested containers: judged by the oracle only
        out = ctx.run_binary(binary, lines, shards=6)
        for ci, line in zip(modelled, out):
            (rx, ops, _), im = cases[ci], impl[ci]
            parts = line.split(" ") if line else []
            if len(parts) != len(ops):
                mism.append(({"rx": rx, "ops": ops}, "model answered %r" % line[:200]))
                continue
            for n, (op, (res, st, rp, tr), m) in enumerate(zip(ops, im, parts)):
                mres, mstate, mvalid, macc = m.split("#")
                compared += 1
                if mres == "U":
                    break           # outside the modelled alphabet: the rest of the history is not compared
                d = None
                if enc_result(res) != mres:
                    d = "result: implementation %s, model %s" % (enc_result(res), mres)
                elif enc_state(st) != mstate:
                    d = "state: implementation %s, model %s" % (enc_state(st), mstate)
                elif rp is not None and len(rp) == 4 and rp[0] == [r[0] for r in st] and distinct_ns(st):
                    if "+".join(map(str, rp[1])) != macc:
                        d = "re-parse: implementation %s, model accept_kinds %s" % (rp[1], macc)
                    elif mvalid == "1" and rp[0] != rp[1]:
                        d = "model calls the state valid but the implementation re-parses %s" % (rp[1],)
                if d:
                    mism.append(({"rx": rx, "ops": ops[:n + 1]}, d))
                    break
    for (rx, ops, _), im in zip(cases, impl):
        for op, (res, st, rp, tr) in zip(ops, im):
            opcount[op[0]] = opcount.get(op[0], 0) + 1
            rescount[enc_result(res)[:1] + (enc_result(res)[1:] if res[0] == "exc" else "")] = \
                rescount.get(enc_result(res)[:1] + (enc_result(res)[1:] if res[0] == "exc" else ""), 0) + 1
            states.add(enc_state(st))
        for what, wit, sig in oracle(rx, ops, im):
            ctx.violation(what, wit, sig_text=sig)
            if taints(what):
                break       # the rest of a history that already failed is not judged
    if mism:
        ctx.broken("correspondence", "CSSStyleSheet edit operations vs CssV.Order.step",
                   "%d histories differ; first: %s" % (len(mism), json.dumps(mism[:3])))
    # stored witnesses of open findings: re-run, so that KNOWN-FINDING is printed only while they reproduce
    for f in ctx.findings:
        if f.get("status") == "open":
            for what, wit, sig in replay_witness(f["witness"])[:1]:      # first failure of the history only
                ctx.violation(what, wit, sig_text=sig)

    def search():
        t1 = time.time()
        rng = ctx.rng
        wide = wide_alphabet()
        while time.time() - t1 < (280 if thorough else 55):
            batch = []
            for _ in range(1500):
                rx = rng.choice([0, 1])
                u = rng.random()
                if u < 0.35:
                    base, k = rng.choice(CONTAINER_BASES)
                    cops = container_ops(k)
                    ops = [["add", None, "text", [n]] for n in base] + [rng.choice(cops) for _ in range(rng.randint(1, 3))]
                elif u < 0.7:
                    ops = [rng.choice(wide) for _ in range(rng.randint(1, 4))]
                else:
                    ops = [random_op(rng, 0) for _ in range(rng.randint(2, 10))]
                batch.append((rx, ops, True))
            res = ctx.pool_map(run_history, batch, procs=6, chunksize=64)
            best = None
            for (rx, ops, _), im in zip(batch, res):
                for what, wit, sig in oracle(rx, ops, im):
                    # only the first failure of a history is judged (what follows a failed call is tainted)
                    if not ctx.match_known(what + " :: " + sig):
                        if best is None or len(wit["ops"]) < len(best["ops"]):
                            best = dict(wit, fails=what)
                        break
                    if taints(what):
                        break
            if best:
                return shrink(best)
        return None

    def shrink(w):
        from harness.lib import shrink_seq

        def fails(ops):
            if not ops:
                return False
            for a, b, c in oracle(w["rx"], ops, run_history((w["rx"], ops, True))):
                if not ctx.match_known(a + " :: " + c):
                    return True
                if taints(a):
                    return False
            return False
        ops = shrink_seq(w["ops"], fails)
        fs = [a for a, b, c in oracle(w["rx"], ops, run_history((w["rx"], ops, True)))
              if not ctx.match_known(a + " :: " + c)]
        return {"rx": w["rx"], "ops": ops, "fails": fs[0] if fs else w["fails"]}

    ctx.finish({
        "evaluations": nops,
        "histories": len(cases),
        "distinct_nontrivial": len(states),
        "rule": "histories from the empty sheet, model and implementation compared after every operation (result or "
                "exception class, full rule list with prefix/uri/encoding/used URIs/child kinds, re-parse kinds): all "
                "sequences of depth <= 3 over a %d-op core alphabet (%d histories, raising mode), every single op and "
                "%s pairs of a %d-op wide alphabet (17 rules as text and object x indices, inOrder, delete, namespaces, "
                "encoding, cssText) in both log.raiseExceptions modes, @media/@page container operations, and %d random "
                "histories of length 4-30; thorough adds depth 4 on 20 ops and 60000 wide triples. "
                "non-trivial = distinct observed sheet states" % (
                    len(core_alphabet()), n_core, "all" if thorough else "6000 sampled", len(wide_alphabet()),
                    len(cases) - n_exh - len(corpus)),
        "op_counts": opcount,
        "result_counts": rescount,
        "implementation_seconds": round(t_impl, 1),
        "samples": [{"rx": c[0], "ops": c[1]} for c in (cases[len(corpus) + 700], cases[n_exh + len(corpus) + 3],
                                                       cases[n_exh + len(corpus) - 5])],
        "disagreements_checked": compared if binary else 0,
        "oracle_only_histories": n_oracle_only,
        "trusted_base": TRUSTED,
    }, assumptions=ASSUME, search=search)


def replay(ctx, path):
    rep = json.loads(open(path).read())
    bad = 0
    ws = [v["witness"] for v in rep.get("violations", [])] or ([rep["witness"]] if "witness" in rep else [])
    for w in ws:
        out = run_history((w["rx"], w["ops"], True))
        fs = list(oracle(w["rx"], w["ops"], out))
        for op, (res, st, rp, tr) in zip(w["ops"], out):
            print("  %-60s -> %-24s kinds=%s" % (json.dumps(op), enc_result(res), [r[0] for r in st]))
        print("replay rx=%s (%d ops) -> %s" % (w["rx"], len(w["ops"]), fs[0][0] if fs else "holds"))
        bad += bool(fs)
    return 1 if bad else 0


TRUSTED = [
    "Coq 8.16.1 kernel and VM; no axioms (Print Assumptions: closed under the global context)",
    "translate/kinds.py (reads the CSSRule constants, the shape of insertRule's if/elif chain, every kind tuple, the "
    "parser handlers' thresholds/returns and the container isinstance lists from the current source; refuses otherwise)",
    "extraction (ExtrOcamlBasic only) + ocamlfind ocamlopt, ocaml/order_driver.ml",
    "correspondence harness harness/props/c07.py: representative rule alphabet, canonical state "
    "(kind, prefix, uri, encoding, used URIs, child kinds), exception class names",
    "modelled by hand, not verified: the control flow of insertRule/deleteRule/_cleanNamespaces/_setEncoding/"
    "_Namespaces.__setitem__/__delitem__/_setCssText and of the container insertRule/deleteRule (coq/theories/Order.v)",
    "the statement-level parsers (which text yields which rule) are represented by the alphabet table RULES; "
    "namespaced selectors inside @media and @page blocks with anything but margin rules are outside the modelled alphabet",
]
ASSUME = [
    "Print Assumptions for every theorem of props/C07.v: see coverage.print_assumptions",
    "ValidOrder of the theorems is stronger than the statement's (it also keeps @variables between @namespace and the "
    "style-level rules); ValidOrder_statement derives the statement's clauses from it",
    "rejected_unchanged is unconditional (every op, every outcome); parse_clean_never_raises backs the cssText= case",
    "re-parse is compared on the top-level rule kinds (the statement's 'sequence of rules')",
]
