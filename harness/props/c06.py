"""C06 -- results do not depend on what was parsed or called before; caller-visible settings stay what the caller set.

proof:          coq/props/C06.v over coq/theories/Globals.v (cells, primitive events, brackets; bodies universally
                quantified) instantiated with the bracket table `current` regenerated from the source
tie:            (a) translate/globals.py regenerates Gen/GlobalSites.v (brackets + package-wide frame conditions,
                fail-closed); (b) histories of real public-API calls are run with the token stash / push-back list /
                ProdParser.__init__ / setSerializer traced, and after every call the actual cells are compared with
                the model's transition (Globals.first_disagreement, evaluated by vm_compute inside Coq)
oracle/search:  model-independent: after every call that is not one of the caller's own settings the observable
                settings are unchanged; after the history a fixed list of canary operations gives the same results as
                in a pristine interpreter that only performed the caller's settings.

Every history runs in a process forked from a parent that has imported css_parser and done nothing else.
"""
import itertools
import json
import multiprocessing as mp
import os
import re
import subprocess
import sys
import threading
import time
from pathlib import Path

from harness.lib import VERIF, COQ, BUILD, PY, REPO, shrink_seq

WORK = BUILD / "c06"
PROCS = 6

# ------------------------------------------------------------------------------------------- text pools
SHEETS_OK = ['a{x:1}', '@media print{b{y:2}}', '@import "x.css" print, tv;', '@page :left{margin:0}',
             '@namespace p "u"; p|a{x:1}', '@font-face{font-family:x}', '/*c*/', '@charset "utf-8"; a{x:1}',
             '@variables{c:red} a{color:var(c)}', 'a{filter: progid:DXImageTransform.Microsoft.gradient(a=1)}',
             'a{x:1} a.c{y:2} b a{z:3}', '@media print and (min-width: 1px), tv{a{left:0}}']
SHEETS_BAD = ['$', 'a{', '@media print x{a{x:1}}', '@import "x" print x;', 'a{x:1;;$}', '@media {', 'a{x:(}',
              '@page :bogus{x:1}', '}', 'a{x:"}', '@import url(x', '@namespace;', '@media print, {a{x:1}}',
              '@import "x" print (;', 'a{x: 1 ! }', '@charset ', '@media tv x y {a{x:1}} b{y:1}']
BYTES = ['40636861727365742022617363696922 3b20ff'.replace(' ', ''),      # @charset "ascii"; \xff
         'efbbbf617b783a317d', '4063686172736574 20227574662d38223b20617b636f6e74656e743a22c3a9227d'.replace(' ', ''),
         '40636861727365742022626f677573223b20617b7d', 'fffe', '617b783a317d']
ENCODINGS = [None, None, 'utf-8', 'ascii', 'bogus']
MEDIA_OK = ['print', 'print, tv', 'all', 'print and (min-width: 1px)', '(a:1)', 'not tv', 'tv, print and (a:1)']
MEDIA_BAD = ['print x', 'print x, tv', ',', 'print,', '/*c*/', '3', 'print and', 'print (', '(a:', 'only', 'tv y z',
             'print and (a:1) x', 'all x']
SEL_OK = ['a', 'a > b', 'a.c', '*', 'a:hover', 'a[b=c]', 'a, b', 'a b.c#d']
SEL_BAD = ['$', 'a,', 'a >', '[', ':not(', 'a{', '', 'p|a', 'a:::b']
STYLE_OK = ['x:1', 'color: red; left: 1px', 'margin: 1px 2px !important', 'background: url(a) red', 'font-family: a, "b"',
            'width: calc(1px + 2px)', 'color: rgb(1,2,3)', 'c: var(v)', 'left: 1px; left: 2px']
STYLE_BAD = ['x', 'x:', ':1', 'x:1;$', 'x:(', 'color: #12', 'x: 1 !', 'left: 1px 2px 3px(', 'x: "', 'x: url(', 'x: 1;;', 'x: ;']
VALUE_OK = ['1px', 'red', '1px solid red', 'url(a)', 'rgb(1,2,3)', 'a, b', 'calc(1px + 2px)', '"s"', '#fff', 'U+0-7F',
            'var(x)', '1px/2px', 'a b, c']
VALUE_BAD = ['', ';', '1px;', '(', 'rgb(', '1px }', '$', ')', '1px; 2px', 'a ; b', ', ;']
NAMES = ['color', 'left', 'x', '', '$', 'a b']
PREFS = [('indent', '\t'), ('indent', '  '), ('keepComments', False), ('omitLastSemicolon', False), ('lineSeparator', ''),
         ('lineSeparator', '\n'), ('keepEmptyRules', True), ('spacer', ''), ('listItemSpacer', ''), ('propertyNameSpacer', ''),
         ('validOnly', True), ('keepAllProperties', False), ('indentClosingBrace', False), ('resolveVariables', False),
         ('importHrefFormat', 'uri'), ('defaultPropertyName', False), ('keepUnknownAtRules', False), ('minimizeColorHash', False),
         ('lineNumbers', True), ('paranthesisSpacer', ''), ('selectorCombinatorSpacer', ''), ('omitLeadingZero', True)]
TARGET_ENC = [None, None, 'ascii', 'utf-8', 'undefined', 'bogus', 'rot13', 'idna', 'utf-16']
# sheets a fetcher hands out (by the last path component of the URL it is asked for) and sheets that import them
IMPORTED = {'i1.css': 'a { color: red }', 'i2.css': '@import "i1.css"; b{x:1}', 'bad.css': '$ a{', 'e.css': '/* */',
            'm.css': '@media print x {a{x:1}}'}
IMPORT_SHEETS = ['@import "i1.css"; b{top:0}', '@import "i2.css"; @import "e.css"; c{x:1}', '@import "bad.css";',
                 '@import "none.css"; a{}', '@import "m.css" print x; $']
HREF = 'file:///base/main.css'
MAXDEPTH = 2


def _mk_targets():
    """label -> (callable(text, text2) -> fingerprint, pool, pool2).  Each one is a public constructor, text setter
    or append method; the fingerprint is what the call returns / leaves in the fresh object."""
    import css_parser
    C, S = css_parser.css, css_parser.stylesheets

    def fp(o):
        for att in ("cssText", "mediaText", "selectorText"):
            if hasattr(o, att):
                v = getattr(o, att)
                return [att, v.decode("utf-8", "replace") if isinstance(v, bytes) else v, getattr(o, "wellformed", None)]
        return repr(o)

    def setter(factory, att):
        def f(t, t2):
            o = factory()
            setattr(o, att, t)
            return fp(o)
        return f
    sheet = SHEETS_OK + SHEETS_BAD
    media = MEDIA_OK + MEDIA_BAD
    sel = SEL_OK + SEL_BAD
    style = STYLE_OK + STYLE_BAD
    val = VALUE_OK + VALUE_BAD
    T = {
        "CSSStyleSheet.cssText=": (setter(C.CSSStyleSheet, "cssText"), sheet, None),
        "CSSStyleRule()": (lambda t, t2: fp(C.CSSStyleRule(selectorText=t, style=t2)), sel, style),
        "CSSStyleRule.cssText=": (setter(C.CSSStyleRule, "cssText"), sheet, None),
        "CSSStyleRule.selectorText=": (setter(C.CSSStyleRule, "selectorText"), sel, None),
        "CSSMediaRule()": (lambda t, t2: fp(C.CSSMediaRule(mediaText=t)), media, None),
        "CSSMediaRule.cssText=": (setter(C.CSSMediaRule, "cssText"), sheet, None),
        "CSSImportRule()": (lambda t, t2: fp(C.CSSImportRule(href="x.css", mediaText=t)), media, None),
        "CSSImportRule.cssText=": (setter(C.CSSImportRule, "cssText"), sheet, None),
        "CSSPageRule()": (lambda t, t2: fp(C.CSSPageRule(selectorText=t, style=t2)), [":left", ":first", "x", ":bogus", "$", ""], style),
        "CSSPageRule.cssText=": (setter(C.CSSPageRule, "cssText"), sheet + ['@page :left { @top-left {x:1} margin: 0 }', '@page {@top-left{x:1;!}}'], None),
        "CSSFontFaceRule.cssText=": (setter(C.CSSFontFaceRule, "cssText"), sheet, None),
        "CSSFontFaceRule()": (lambda t, t2: fp(C.CSSFontFaceRule(style=t)), style, None),
        "CSSNamespaceRule()": (lambda t, t2: fp(C.CSSNamespaceRule(namespaceURI=t, prefix=t2)), ["u", "", "$"], ["p", "", "$ x"]),
        "CSSNamespaceRule.cssText=": (setter(C.CSSNamespaceRule, "cssText"), sheet, None),
        "CSSCharsetRule()": (lambda t, t2: fp(C.CSSCharsetRule(encoding=t)), ["utf-8", "ascii", "bogus", "", "$"], None),
        "CSSCharsetRule.cssText=": (setter(C.CSSCharsetRule, "cssText"), sheet, None),
        "CSSComment.cssText=": (setter(C.CSSComment, "cssText"), ["/*c*/", "/*", "x", "/**/ x"], None),
        "CSSUnknownRule.cssText=": (setter(C.CSSUnknownRule, "cssText"), ["@x y;", "@x {", "a{}", "@x (;"], None),
        "MarginRule()": (lambda t, t2: fp(C.MarginRule(margin=t, style=t2)), ["@top-left", "@bottom-center", "@x", "top"], style),
        "MarginRule.cssText=": (setter(C.MarginRule, "cssText"), ["@top-left{x:1}", "@top-right{y:1;!}", "@top-left{", "a{}", "@top-left{x:1}}"], None),
        "CSSStyleDeclaration()": (lambda t, t2: fp(C.CSSStyleDeclaration(cssText=t)), style, None),
        "CSSStyleDeclaration.cssText=": (setter(C.CSSStyleDeclaration, "cssText"), style, None),
        "CSSStyleDeclaration.setProperty": (lambda t, t2: (lambda d: (d.setProperty(t, t2), fp(d))[1])(C.CSSStyleDeclaration()), NAMES, val),
        "Property()": (lambda t, t2: fp(C.Property(name=t, value=t2)), NAMES, val),
        "Property.cssText=": (setter(C.Property, "cssText"), style, None),
        "PropertyValue()": (lambda t, t2: fp(C.PropertyValue(cssText=t)), val, None),
        "PropertyValue.cssText=": (setter(C.PropertyValue, "cssText"), val, None),
        "Selector()": (lambda t, t2: fp(C.Selector(selectorText=t)), sel, None),
        "Selector.selectorText=": (setter(C.Selector, "selectorText"), sel, None),
        "SelectorList()": (lambda t, t2: fp(C.SelectorList(selectorText=t)), sel, None),
        "SelectorList.selectorText=": (setter(C.SelectorList, "selectorText"), sel, None),
        "SelectorList.appendSelector": (lambda t, t2: (lambda l: (l.appendSelector(t2), fp(l))[1])(C.SelectorList(selectorText=t)), SEL_OK, sel),
        "MediaList()": (lambda t, t2: fp(S.MediaList(mediaText=t)), media, None),
        "MediaList.mediaText=": (setter(S.MediaList, "mediaText"), media, None),
        "MediaList.appendMedium": (lambda t, t2: (lambda l: (l.appendMedium(t2), fp(l))[1])(S.MediaList(mediaText=t)), MEDIA_OK, media),
        "MediaList[0]=": (lambda t, t2: (lambda l: (l.__setitem__(0, t2), fp(l))[1])(S.MediaList(mediaText=t)), MEDIA_OK, media),
        "MediaQuery()": (lambda t, t2: fp(S.MediaQuery(mediaText=t)), media, None),
        "MediaQuery.mediaText=": (setter(S.MediaQuery, "mediaText"), media, None),
        "CSSVariablesDeclaration()": (lambda t, t2: fp(C.CSSVariablesDeclaration(cssText=t)), style, None),
        "CSSVariablesRule.cssText=": (setter(C.CSSVariablesRule, "cssText"), ['@variables{a:1}', '@variables{a:', '@variables print x{a:1}', 'a{}'], None),
    }
    return T


TARGETS = None
DX = None


class Env:
    """per-process state of one history run (objects the caller owns)"""

    def __init__(self, instrument):
        import css_parser
        self.cp = css_parser
        self.events = []
        self.parsers = []
        self.depth = 0
        self.codes = {}
        self.sers = {id(css_parser.ser): 0}
        self.keep = [css_parser.ser]
        self.prefcodes = {}
        self.instrument = instrument
        if instrument:
            self._instrument()
        self.prefcode(css_parser.ser.prefs)   # default preference vector gets code 0
        self.code("profile", self.profile_fp())
        self.code("log", self.log_fp())
        # objects used by the serialisation operations, built while the process is still pristine
        self.sheets = [css_parser.parseString(t) for t in
                       ('a{x:1} a.c{y:2} b a{z:3}', '@media print{a{x:1} a b{y:2}} /*c*/ c{left:0.5px;color:#ffffff}',
                        '@import "x.css" tv; @page :left{margin:0} @font-face{font-family:x}',
                        '@variables{c:red; d:1px} a{color:var(c)} b{left:var(d)} e{top:var(nope)}')]
        # long-lived objects, created while the process is pristine and used by later operations and canaries
        C, S = css_parser.css, css_parser.stylesheets
        def mk():
            return {"vars": C.CSSVariablesDeclaration('a: 1'), "style": C.CSSStyleDeclaration('left: 1px'),
                    "media": S.MediaList('print'), "sel": C.SelectorList('a'), "value": C.PropertyValue('1px'),
                    "rule": C.CSSStyleRule('a', 'x: 1')}
        self.live = mk()      # used by the operations of a history
        self.livec = mk()     # used by the canaries only: their own content never depends on the history
        self.events[:] = []

    # -- tracing: token stash, push-back list, ProdParser(), serializer swaps, csscombine phases
    def _instrument(self):
        import css_parser.prodparser as pp
        from css_parser.tokenize2 import Tokenizer
        ev = self.events
        state = {"in_init": 0}

        class RecList(list):
            def pop(s, *a):
                try:
                    t = list.pop(s, *a)
                except IndexError:
                    ev.append(("pop", None))
                    raise
                ev.append(("pop", t))
                return t

            def append(s, t):
                ev.append(("save", t))
                list.append(s, t)

            def __delitem__(s, k):
                if not state["in_init"]:
                    ev.append(("alien", "del savedTokens outside ProdParser.__init__"))
                list.__delitem__(s, k)

            def clear(s):
                if not state["in_init"]:
                    ev.append(("alien", "savedTokens.clear outside ProdParser.__init__"))
                list.clear(s)

        class RecIter(object):
            def __init__(s, it):
                s.it = it

            def __iter__(s):
                return s

            def __next__(s):
                t = next(s.it)
                ev.append(("take", t))
                return t
        self.RecIter = RecIter

        class RecTokenizer(Tokenizer):
            def push(s, *tokens):
                for t in reversed(tokens):
                    ev.append(("push", t))
                old = s._pushed.it if isinstance(s._pushed, RecIter) else s._pushed
                s._pushed = RecIter(itertools.chain(tokens, old))

            def clear(s):
                if not state["in_init"]:
                    ev.append(("alien", "tokenizer.clear outside ProdParser.__init__"))
                s._pushed = []
        orig_tinit = Tokenizer.__init__

        def tinit(s, macros=None, productions=None, doComments=True):
            ev.append(("tok", tok_spec_id(macros, MACRO_SPECS), tok_spec_id(productions, PROD_SPECS)))
            orig_tinit(s, macros=macros, productions=productions, doComments=doComments)
        Tokenizer.__init__ = tinit
        saved = RecList(pp.savedTokens)
        pp.savedTokens = saved
        pp.tokenizer.__class__ = RecTokenizer
        orig_init = pp.ProdParser.__init__

        def init(s, *a, **k):
            state["in_init"] += 1
            try:
                orig_init(s, *a, **k)
            finally:
                state["in_init"] -= 1
            ev.append(("init",))
        pp.ProdParser.__init__ = init
        cp = self.cp
        orig_set = cp.setSerializer

        def set_ser(x):
            ev.append(("setser", self.ser_label(x)))
            orig_set(x)
        cp.setSerializer = set_ser
        orig_res = cp.resolveImports

        def res(*a, **k):
            ev.append(("mid",))
            return orig_res(*a, **k)
        cp.resolveImports = res

    # -- callbacks that re-enter the public API: fetchers, replaceUrls replacers, log handlers
    def run_callback(self, cb, self_idx):
        """executes the nested public calls of a callback (depth <= MAXDEPTH); their exceptions stay inside"""
        if not cb or self.depth >= MAXDEPTH:
            return
        self.depth += 1
        try:
            for op in cb["ops"]:
                op = list(op)
                if op[0].startswith("parse") and op[-1] == "self":
                    op[-1] = self_idx
                if op[0].startswith("parse") and isinstance(op[-1], int) and op[-1] >= len(self.parsers):
                    op[-1] = None
                self.events.append(("nest_begin", op))
                try:
                    do_op(self, op)
                    exc = None
                except Exception as e:  # noqa
                    exc = type(e).__name__
                self.events.append(("nest_end", exc))
        finally:
            self.depth -= 1

    def make_fetcher(self, idx, cb):
        def fetcher(url):
            self.run_callback(cb, idx)
            if cb.get("raise"):
                raise ValueError("fetcher failed")
            text = IMPORTED.get(url.rsplit("/", 1)[-1])
            return None if text is None else (None, text)
        return fetcher

    def ser_label(self, x):
        if id(x) not in self.sers:
            self.sers[id(x)] = 1000 + len(self.sers)
            self.keep.append(x)
        return self.sers[id(x)]

    def prefcode(self, prefs):
        key = json.dumps(sorted((k, repr(v)) for k, v in vars(prefs).items()))
        if key not in self.prefcodes:
            self.prefcodes[key] = len(self.prefcodes)
        return 2 * self.prefcodes[key] + (1 if getattr(prefs, "indentSpecificities", False) else 0)

    def cells(self):
        cp = self.cp
        import css_parser.prodparser as pp
        import css_parser.cssproductions as prods
        p = pp.tokenizer._pushed
        if isinstance(p, list):
            pushed = list(p)
        elif self.instrument and isinstance(p, self.RecIter):
            pushed = list(p.it)
            p.it = iter(pushed)
        else:
            pushed = list(p)
            pp.tokenizer._pushed = iter(pushed)
        ser = cp.ser
        import css_parser.tokenize2 as tk2
        return {"saved": [list(t) for t in reversed(pp.savedTokens)], "pushed": [list(t) for t in pushed],
                "raising": cp.log.raiseExceptions, "ser": self.ser_label(ser), "prefs": self.prefcode(ser.prefs),
                "level": ser._level, "memo": len(ser._selectors or ()), "sellevel": ser._selectorlevel,
                "dx": sum(1 for x in prods.PRODUCTIONS if x is prods._DXImageTransform), "nprod": len(prods.PRODUCTIONS),
                "profile": self.code("profile", self.profile_fp()), "logcfg": self.code("log", self.log_fp()),
                "cache": len(tk2._TOKENIZER_CACHE)}

    def code(self, table, fp):
        t = self.codes.setdefault(table, {})
        key = json.dumps(fp, sort_keys=True, default=repr)
        if key not in t:
            t[key] = len(t)
        return t[key]

    def profile_fp(self):
        pr = self.cp.profile
        return [list(pr.profiles), list(pr.defaultProfiles or []), sorted(pr.knownNames)[:0] + [len(pr.knownNames)]]

    def log_fp(self):
        lg = LOGGER
        return [lg.level, [type(h).__name__ for h in lg.handlers], self.cp.log.getEffectiveLevel()]

    def settings(self):
        """what the caller can observe (model-independent read-out for the oracle)"""
        cp = self.cp
        import css_parser.cssproductions as prods
        return [cp.log.raiseExceptions, id(cp.ser), sorted((k, repr(v)) for k, v in vars(cp.ser.prefs).items()),
                [x[0] for x in prods.PRODUCTIONS], self.profile_fp(), self.log_fp()]


SETTERS = ("set_raise", "set_pref", "use_minified", "use_defaults", "set_ser", "set_dx", "new_parser", "log_handler",
           "replace_prefs", "set_profile", "set_loglevel", "parser_loglevel")


LOGGER = None
MACRO_SPECS = {}      # name -> (dict, (names id, definitions id))
PROD_SPECS = {}       # name -> (list, id)


def tok_spec_id(value, specs):
    """which of the known macro / production tables was passed to Tokenizer(...) (None = default)"""
    if value is None:
        return None
    for name, (v, ident) in specs.items():
        if v == value:
            return name
    return "?"


def canon(v):
    if isinstance(v, bytes):
        return v.decode("utf-8", "replace")
    if isinstance(v, (list, tuple)):
        return [canon(x) for x in v]
    if v is None or isinstance(v, (bool, int, str)):
        return v
    return repr(v)


def text_arg(t):
    if isinstance(t, dict):
        return bytes.fromhex(t["b"])
    return t


def do_op(env, op):
    """executes one public-API call; returns its fingerprint (raises what the call raises)"""
    cp = env.cp
    k = op[0]
    if k == "set_raise":
        cp.log.raiseExceptions = op[1]
    elif k == "set_pref":
        setattr(cp.ser.prefs, op[1], op[2])
    elif k == "use_minified":
        cp.ser.prefs.useMinified()
    elif k == "use_defaults":
        cp.ser.prefs.useDefaults()
    elif k == "set_ser":
        s = cp.CSSSerializer()
        if op[1]:
            s.prefs.useMinified()
        env.sers[id(s)] = len(env.sers)
        env.keep.append(s)
        cp.setSerializer(s)
    elif k == "set_dx":
        import css_parser.settings
        css_parser.settings.set('DXImageTransform.Microsoft', True)
    elif k == "replace_prefs":
        cp.ser.prefs = cp.serialize.Preferences()
        if op[1]:
            cp.ser.prefs.useMinified()
    elif k == "set_profile":
        if op[1] == "add":
            cp.profile.addProfile("x-prof", {"x-a": "red|green", "color": "blue"})
        elif op[1] == "remove":
            try:
                cp.profile.removeProfile("x-prof")
            except Exception:  # noqa
                pass
        else:
            cp.profile.defaultProfiles = {"css2": cp.profile.CSS_LEVEL_2, "none": None,
                                          "color": [cp.profile.CSS3_COLOR, cp.profile.CSS_LEVEL_2]}[op[1]]
    elif k == "set_loglevel":
        cp.log.setLevel(op[1])
    elif k == "parser_loglevel":
        env.parsers.append(cp.CSSParser(loglevel=op[1]))
    elif k == "tokenizer":
        import css_parser.tokenize2 as tk2
        m = MACRO_SPECS[op[1]][0] if op[1] else None
        pr = PROD_SPECS[op[2]][0] if op[2] else None
        t = tk2.Tokenizer(macros=m, productions=pr)
        return canon([list(x) for x in t.tokenize(op[3], fullsheet=True)])
    elif k == "valid":
        pr = cp.css.Property(op[1], op[2])
        return [pr.valid, canon(cp.parseStyle("%s: %s" % (op[1], op[2])).cssText)]
    elif k == "new_parser":
        cb = op[2] if len(op) > 2 else None
        idx = len(env.parsers)
        env.parsers.append(cp.CSSParser(raiseExceptions=op[1], fetcher=env.make_fetcher(idx, cb) if cb else None))
    elif k == "log_handler":
        # the caller installs a logging handler that itself uses the library (e.g. re-parses what was reported)
        import logging
        cb = op[1]

        class H(logging.Handler):
            def emit(h, record):
                env.run_callback(cb, None)
        cp.log.addHandler(H())
        cp.log.setLevel(logging.ERROR)
    elif k == "replace_urls":
        sheet = cp.css.CSSStyleSheet()
        sheet.cssText = op[1]
        cb = op[2]

        def replacer(url):
            env.run_callback(cb, None)
            if cb.get("raise"):
                raise ValueError("replacer failed")
            return url + "x"
        cp.replaceUrls(sheet, replacer)
        return canon(sheet.cssText)
    elif k in ("parseString", "parseStyle", "parseFile", "parseUrl"):
        who = op[-1]
        if who is not None and who >= len(env.parsers):
            who = None
        target = env.parsers[who] if who is not None else cp
        if k == "parseString":
            r = target.parseString(text_arg(op[1]), encoding=op[2], href=HREF)
        elif k == "parseStyle":
            r = target.parseStyle(text_arg(op[1]))
        elif k == "parseFile":
            r = target.parseFile(op[1])
        else:
            r = target.parseUrl(op[1])
        return None if r is None else canon(r.cssText)
    elif k == "obj":
        f = TARGETS[op[1]][0]
        return canon(f(op[2], op[3]))
    elif k in ("live", "livec"):
        L, what = (env.live if k == "live" else env.livec), op[1]
        if what == "setVariable":
            L["vars"].setVariable(op[2], op[3])
            return canon(L["vars"].cssText)
        if what == "vars[]":
            L["vars"][op[2]] = op[3]
            return canon(L["vars"].cssText)
        if what == "setProperty":
            L["style"].setProperty(op[2], op[3])
            return canon(L["style"].cssText)
        if what == "style[]":
            L["style"][op[2]] = op[3]
            return canon(L["style"].cssText)
        if what == "appendMedium":
            L["media"].appendMedium(op[2])
            return canon(L["media"].mediaText)
        if what == "appendSelector":
            L["sel"].appendSelector(op[2])
            return canon(L["sel"].selectorText)
        if what == "value=":
            L["value"].cssText = op[2]
            return canon(L["value"].cssText)
        if what == "rule.selectorText=":
            L["rule"].selectorText = op[2]
            return canon(L["rule"].cssText)
        if what == "rule.style.cssText=":
            L["rule"].style.cssText = op[2]
            return canon(L["rule"].cssText)
        raise ValueError("unknown live op %r" % (op,))
    elif k == "prefs_vars":
        return canon(sorted((a, repr(b)) for a, b in vars(cp.ser.prefs).items()))
    elif k == "ser_sheet":
        return canon(env.sheets[op[1]].cssText)
    elif k == "ser_rule":
        return canon(env.sheets[op[1]].cssRules[op[2]].cssText)
    elif k == "ser_style":
        return canon(env.sheets[op[1]].cssRules[op[2]].style.cssText)
    elif k == "csscombine":
        from css_parser.script import csscombine
        kw = dict(op[1])
        if "cssText" in kw:
            kw["cssText"] = text_arg(kw["cssText"])
        return canon(csscombine(**kw))
    else:
        raise ValueError("unknown op %r" % (op,))
    return None


CANARIES = [
    ["parseStyle", "color: red", None],
    ["parseString", "a{x:1} @media print{b{y:2}} c{left:1px}", None, None],
    ["obj", "MediaList()", "print, tv", None],
    ["obj", "MediaList()", "print x", None],
    ["obj", "MediaQuery()", "print and (min-width: 1px)", None],
    ["obj", "PropertyValue()", "1px solid red", None],
    ["obj", "Selector()", "a > b.c", None],
    ["obj", "CSSStyleDeclaration()", "left: 1px; top: 2px", None],
    ["obj", "MarginRule()", "@top-left", "x:1"],
    ["obj", "CSSStyleSheet.cssText=", "$", None],
    ["obj", "CSSPageRule.cssText=", "@page :left { @top-left {x:1} margin: 0 }", None],
    ["obj", "CSSVariablesDeclaration()", "x:1", None],
    ["obj", "MediaList.appendMedium", "print", "tv"],
    ["parseStyle", "filter: progid:DXImageTransform.Microsoft.gradient(a=1)", None],
    ["ser_sheet", 0], ["ser_rule", 0, 1], ["ser_sheet", 1], ["ser_style", 1, 2],
    ["csscombine", {"cssText": "a{color:red}"}],
    ["parseString", {"b": BYTES[1]}, None, None],
    ["tokenizer", None, None, "a{b:1px} /*x*/ @media x"],
    ["tokenizer", "alt", None, "a{b:1px} q9 -x"],
    ["tokenizer", "default", "default", "a{b:1px}"],
    ["tokenizer", None, "short", "a{b:1px} 'x'"],
    ["valid", "color", "red"], ["valid", "x-a", "green"], ["valid", "color", "blue"],
    ["ser_sheet", 3], ["prefs_vars"],
    ["livec", "setVariable", "v1", "1px"], ["livec", "vars[]", "v2", "red"],
    ["livec", "setProperty", "font-family", "'x y'"], ["livec", "style[]", "color", "red"],
    ["livec", "appendMedium", "tv"], ["livec", "appendSelector", "b"], ["livec", "value=", "2px solid"],
    ["livec", "rule.style.cssText=", "content: 'z'"],
]
# canaries that are put FIRST in some runs: the first production parse after the history sees what it left behind
LEADS = [0, 2, 5, 29, 30, 31, 32, 33, 35, 36]


def split_lead(hist):
    """a history may end with the pseudo-operation ["canary_first", k]: canary k is evaluated before the others"""
    if hist and hist[-1][0] == "canary_first":
        return hist[:-1], hist[-1][1]
    return hist, None
SER_CANARIES = {14, 15, 16, 17}


def run_history(task):
    """task: {hist, instrument, only_setters}.  Runs in a pristine forked process."""
    global TARGETS
    hist, instrument = task["hist"], task.get("instrument", False)
    hist, lead = split_lead(hist)
    if task.get("only_setters"):
        hist = [op for op in hist if op[0] in SETTERS]
    env = Env(instrument)
    if TARGETS is None:
        TARGETS = _mk_targets()
    out = {"start": env.cells(), "steps": [], "canaries": []}
    for op in hist:
        before = env.settings()
        env.events[:] = []
        try:
            r = do_op(env, op)
            exc = None
        except BaseException as e:  # noqa
            r, exc = None, type(e).__name__
        step = {"exc": exc, "cells": env.cells(), "events": [list(e) for e in env.events]}
        if op[0] not in SETTERS:
            after = env.settings()
            if after != before:
                names = ["log.raiseExceptions", "css_parser.ser", "css_parser.ser.prefs", "PRODUCTIONS", "css_parser.profile",
                         "css_parser.log level/handlers"]
                step["settings_changed"] = [n for n, a, b in zip(names, before, after) if a != b]
        out["steps"].append(step)
    if not task.get("no_canaries"):
        order = list(range(len(CANARIES)))
        if lead is not None:
            order = [lead] + [i for i in order if i != lead]
        res_by_index = {}
        for i in order:
            try:
                res_by_index[i] = ["ok", do_op(env, CANARIES[i])]
            except BaseException as e:  # noqa
                res_by_index[i] = ["exc", type(e).__name__]
        out["canaries"] = [res_by_index[i] for i in range(len(CANARIES))]
        out["final_settings"] = env.settings()[0:1] + env.settings()[2:]
    return out


def isolated_map(tasks):
    """each task in a process freshly forked from this (pristine) parent"""
    if not tasks:
        return []
    ctxm = mp.get_context("fork")
    with ctxm.Pool(PROCS, maxtasksperchild=1) as pool:
        return pool.map(run_history, tasks, chunksize=1)


# ------------------------------------------------------------------------------------------- generators
def gen_nested(rng, nparsers, depth=0):
    """one public call made from inside a callback (never one of the caller's settings)"""
    who = rng.choice(["self", "self", None] + list(range(nparsers)))
    k = rng.random()
    if k < 0.3:
        return ["parseString", rng.choice(SHEETS_OK[:4] + SHEETS_BAD[:4] + IMPORT_SHEETS), None, who]
    if k < 0.42:
        return ["parseString", {"b": rng.choice(BYTES)}, rng.choice([None, "ascii"]), who]
    if k < 0.55:
        return ["parseStyle", rng.choice(STYLE_OK[:3] + STYLE_BAD[:4]), who]
    if k < 0.62:
        return ["parseFile", rng.choice(FILES), who]
    if k < 0.7:
        return ["ser_sheet", rng.randrange(3)]
    if k < 0.76:
        return ["csscombine", {"cssText": "a{color:red}", "targetencoding": rng.choice([None, "undefined", "ascii"])}]
    label = rng.choice(["MediaQuery()", "MediaList()", "MediaList.appendMedium", "PropertyValue()", "CSSStyleSheet.cssText=",
                        "Selector()", "CSSStyleDeclaration.cssText=", "CSSPageRule.cssText="])
    _, p1, p2 = TARGETS[label]
    return ["obj", label, rng.choice(p1), rng.choice(p2) if p2 else None]


LIVE_OPS = None


def live_ops():
    """operations on the long-lived objects (created before the history starts)"""
    vals = ["1px", "red", "'s'", "1px;", "a b;", "url(x)", "$", "", "1px }", "var(c)"]
    ops = [["live", "setVariable", n, v] for n in ("v1", "a", "$", "x y") for v in vals[:6]]
    ops += [["live", "vars[]", "w", v] for v in vals]
    ops += [["live", "setProperty", n, v] for n in ("color", "font-family", "x") for v in vals]
    ops += [["live", "style[]", "left", v] for v in vals[:5]]
    ops += [["live", "appendMedium", t] for t in MEDIA_OK + MEDIA_BAD]
    ops += [["live", "appendSelector", t] for t in SEL_OK[:4] + SEL_BAD[:4]]
    ops += [["live", "value=", t] for t in VALUE_OK[:5] + VALUE_BAD]
    ops += [["live", "rule.selectorText=", t] for t in SEL_OK[:3] + SEL_BAD[:3]]
    ops += [["live", "rule.style.cssText=", t] for t in STYLE_OK[:3] + STYLE_BAD[:5]]
    return ops


def gen_live(rng):
    global LIVE_OPS
    if LIVE_OPS is None:
        LIVE_OPS = live_ops()
    return rng.choice(LIVE_OPS)


def gen_cb(rng, nparsers):
    return {"ops": [gen_nested(rng, nparsers) for _ in range(rng.choice([1, 1, 2]))], "raise": rng.random() < 0.15}


def gen_op(rng, indent_ok, nparsers, reentrant=False):
    r = rng.random()
    who = rng.choice([None, None] + list(range(nparsers))) if nparsers else None
    if reentrant:
        k = rng.random()
        if k < 0.14:
            return ["new_parser", rng.choice([False, False, True]), gen_cb(rng, nparsers + 1)]
        if k < 0.28 and nparsers:
            return ["parseString", rng.choice(IMPORT_SHEETS), rng.choice([None, None, "utf-8"]), rng.randrange(nparsers)]
        if k < 0.32:
            return ["replace_urls", rng.choice(['a{background:url(x)}', '@import "i1.css"; a{x:url(a) url(b)}', 'a{', 'a{x:1}']),
                    gen_cb(rng, nparsers)]
        if k < 0.35:
            return ["log_handler", gen_cb(rng, nparsers)]
    if indent_ok and r > 0.9:
        return ["set_pref", "indentSpecificities", rng.choice([True, True, False])]
    if r < 0.16:
        k = rng.random()
        if k < 0.3:
            return ["set_raise", rng.choice([True, False])]
        if k < 0.55:
            name, v = rng.choice(PREFS)
            return ["set_pref", name, v]
        if k < 0.62 and indent_ok:
            return ["set_pref", "indentSpecificities", rng.choice([True, True, False])]
        if k < 0.7:
            return [rng.choice(["use_minified", "use_defaults"])]
        if k < 0.8:
            return ["set_ser", rng.choice([True, False])]
        if k < 0.84:
            return ["set_dx"]
        if k < 0.87:
            return ["replace_prefs", rng.choice([True, False])]
        if k < 0.91:
            return ["set_profile", rng.choice(["add", "remove", "css2", "none", "color"])]
        if k < 0.94:
            return rng.choice([["set_loglevel", rng.choice([10, 40, 50])], ["parser_loglevel", rng.choice([20, 50])]])
        return ["new_parser", rng.choice([False, False, True])]
    if r < 0.34:
        k = rng.random()
        if k < 0.45:
            return ["parseString", rng.choice(SHEETS_OK + SHEETS_BAD), rng.choice(ENCODINGS), who]
        if k < 0.65:
            return ["parseString", {"b": rng.choice(BYTES)}, rng.choice(ENCODINGS), who]
        if k < 0.85:
            return ["parseStyle", rng.choice(STYLE_OK + STYLE_BAD + [{"b": "78 3a ff".replace(" ", "")}]), who]
        if k < 0.93:
            return ["parseFile", rng.choice(FILES), who]
        return ["parseUrl", rng.choice(URLS), who]
    if r < 0.44:
        return rng.choice([["ser_sheet", rng.randrange(3)], ["ser_rule", rng.randrange(3), rng.randrange(3)],
                           ["ser_style", 0, rng.randrange(3)]])
    if r < 0.52:
        kw = {}
        c = rng.random()
        if c < 0.6:
            kw["cssText"] = rng.choice(SHEETS_OK + SHEETS_BAD)
        elif c < 0.8:
            kw["cssText"] = {"b": rng.choice(BYTES)}
        else:
            kw["path"] = rng.choice(FILES)
        enc = rng.choice(TARGET_ENC)
        if enc:
            kw["targetencoding"] = enc
        if rng.random() < 0.4:
            kw["minify"] = False
        if rng.random() < 0.4:
            kw["resolveVariables"] = rng.choice([True, False])
        if rng.random() < 0.2:
            kw["sourceencoding"] = rng.choice(["ascii", "bogus", "utf-8"])
        return ["csscombine", kw]
    if r < 0.56:
        return gen_live(rng)
    if r < 0.59:
        return ["tokenizer", rng.choice([None, None, "default", "alt", "other"]), rng.choice([None, None, "default", "short"]),
                rng.choice(["a{b:1px}", "q9 'x' @media", "/*c*/ -x \\41 "])]
    if r < 0.63:
        return ["valid", rng.choice(["color", "x-a", "left", "bogus"]), rng.choice(["red", "green", "blue", "1px", "$"])]
    label = rng.choice(LABELS)
    _, p1, p2 = TARGETS[label]
    return ["obj", label, rng.choice(p1), rng.choice(p2) if p2 else None]


def reentrant_histories():
    """exhaustive-small: one parser whose fetcher calls back into the API (same parser / another one / the module-level
    functions; depth 2 through a nested @import), under both values of the caller's flag and of the parser's own"""
    inner = [["parseString", "a{x:1}", None], ["parseString", {"b": BYTES[0]}, None], ["parseStyle", "color: red; $"],
             ["parseString", '@import "i1.css"; c{}', None], ["parseString", "$ a{", None]]
    out = []
    for praise in (False, True):
        for flag in (True, False):
            for target in ("self", 1, None):
                for op in inner:
                    for rz in (False, True):
                        cb = {"ops": [op + [target]], "raise": rz}
                        h = [["new_parser", praise, cb], ["new_parser", False]]
                        if not flag:
                            h.append(["set_raise", False])
                        h.append(["parseString", IMPORT_SHEETS[1] if rz is False else IMPORT_SHEETS[0], None, 0])
                        out.append(h)
    plain = {"ops": [["parseString", "a{x:1}", None, None], ["obj", "MediaQuery()", "print x", None]], "raise": False}
    for cbx in (plain, {"ops": [["parseString", {"b": BYTES[0]}, None, 0]], "raise": False},
                {"ops": [["parseStyle", "x:1;$", 0]], "raise": True}):
        out.append([["new_parser", False], ["replace_urls", '@import "i1.css"; a{background:url(x) url(y)}', cbx]])
        out.append([["new_parser", False], ["log_handler", cbx], ["set_raise", False], ["obj", "CSSStyleSheet.cssText=", "$", None],
                    ["parseString", "a{x:1;;$} $", None, 0]])
        out.append([["new_parser", False, plain], ["log_handler", cbx], ["parseString", IMPORT_SHEETS[2], None, 0]])
    return out


def gen_history(rng, maxlen, indent_ok, reentrant=False):
    n = rng.randint(1, maxlen)
    hist, np_ = [], 0
    for _ in range(n):
        op = gen_op(rng, indent_ok, np_, reentrant)
        if op[0] in ("new_parser", "parser_loglevel"):
            np_ += 1
        hist.append(op)
    if rng.random() < 0.7:
        hist.append(["canary_first", rng.choice(LEADS)])
    return hist


def all_single_ops():
    """every operation of the alphabet once (exhaustive-small stream, length 1; pairs are built from these)"""
    ops = [["set_raise", False], ["use_minified"], ["set_ser", True], ["set_dx"], ["new_parser", False], ["new_parser", True],
           ["replace_prefs", True], ["set_loglevel", 10], ["parser_loglevel", 20]]
    ops += [["set_profile", x] for x in ("add", "remove", "css2", "none", "color")]
    ops += [["tokenizer", m, pr, "a{b:1px} q9 'x'"] for m in (None, "default", "alt", "other") for pr in (None, "default", "short")]
    ops += [["valid", n, v] for n in ("color", "x-a", "bogus") for v in ("red", "green", "$")]
    ops += [["set_pref", n, v] for n, v in PREFS[:6]]
    for label in LABELS:
        _, p1, p2 = TARGETS[label]
        for t in p1:
            ops.append(["obj", label, t, p2[0] if p2 else None])
        if p2:
            for t2 in p2[1:]:
                ops.append(["obj", label, p1[0], t2])
    for t in SHEETS_OK + SHEETS_BAD:
        ops.append(["parseString", t, None, None])
    for b in BYTES:
        for e in (None, "ascii", "bogus"):
            ops.append(["parseString", {"b": b}, e, None])
    for t in STYLE_OK + STYLE_BAD:
        ops.append(["parseStyle", t, None])
    ops += [["parseFile", f, None] for f in FILES] + [["parseUrl", u, None] for u in URLS]
    ops += [["ser_sheet", i] for i in range(3)] + [["ser_rule", 0, i] for i in range(3)]
    for enc in TARGET_ENC[1:]:
        ops.append(["csscombine", {"cssText": "a{color:red}", "targetencoding": enc}])
    ops += live_ops()
    for mini in (True, False):
        for rv in (True, False):
            ops.append(["csscombine", {"cssText": "@variables{c:red} a{color:var(c)}", "minify": mini, "resolveVariables": rv}])
    ops += [["csscombine", {"cssText": {"b": BYTES[0]}}], ["csscombine", {"path": FILES[0]}], ["csscombine", {"cssText": "$"}],
            ["csscombine", {"cssText": "@import 'nonexistent.css'; a{x:1}", "minify": False}]]
    return ops


# ------------------------------------------------------------------------------------------- model side
def coq_bool(b):
    return "true" if b else "false"


class Untranslatable(Exception):
    pass


def nest_items(evs):
    """flat event list -> items; a nested public call becomes ("nest", op, [items], exc)"""
    stack = [[]]
    ops = []
    for e in evs:
        if e[0] == "nest_begin":
            ops.append(e[1])
            stack.append([])
        elif e[0] == "nest_end":
            if len(stack) < 2:
                raise Untranslatable("unbalanced callback markers")
            items = stack.pop()
            stack[-1].append(("nest", ops.pop(), items, e[1]))
        else:
            stack[-1].append(tuple(e))
    if len(stack) != 1:
        raise Untranslatable("callback still running at the end of the call")
    return stack[0]


def to_model(hist, res):
    """-> Coq term  first_disagreement current <fuel> 0 [...] G0   for one traced history (or None + reason)"""
    toks = {}
    size = [0]

    def tok(t):
        key = json.dumps(t)
        if key not in toks:
            toks[key] = len(toks) + 1
        return "%d%%N" % toks[key]

    def g(c, nparsers):
        return "(mkG [%s] [%s] %s %d%%N %d%%N (%d)%%Z %d%%N (%d)%%Z %s [%s] %d%%N %d%%N [%s])" % (
            "; ".join(tok(t) for t in c["saved"]), "; ".join(tok(t) for t in c["pushed"]), coq_bool(c["raising"]),
            c["ser"], c["prefs"], c["level"], c["memo"], c["sellevel"], coq_bool(c["dx"] > 0),
            "; ".join(["(true, true)"] * nparsers), c["profile"], c["logcfg"],
            "; ".join(["((None, None), ((0, 0), 0))%N"] * c["cache"]))

    def tokarg(name, specs, pair):
        if name is None:
            return "None"
        if name == "?" or name not in specs:
            raise Untranslatable("Tokenizer constructed with an unknown table")
        ident = specs[name][1]
        return "(Some (%d, %d)%%N)" % ident if pair else "(Some %d%%N)" % ident

    def script(items, exc, tail=()):
        out = []
        for e in items:
            size[0] += 1
            if e[0] == "init":
                out.append("Do EvInit")
            elif e[0] == "pop":
                out.append("Do EvPop")
            elif e[0] == "save":
                out.append("Do (EvSave %s)" % tok(e[1]))
            elif e[0] == "push":
                out.append("Do (EvPush %s)" % tok(e[1]))
            elif e[0] == "take":
                out.append("Do EvTake")
            elif e[0] == "tok":
                out.append("Do (EvTok %s %s)" % (tokarg(e[1], MACRO_SPECS, True), tokarg(e[2], PROD_SPECS, False)))
            elif e[0] == "alien":
                raise Untranslatable("stash cleared outside ProdParser.__init__: %r" % (e,))
            elif e[0] == "nest":
                out.append("Nest (%s)" % call_term(e[1], e[2], e[3], ()))
        out.extend(tail)
        out.append("Exc" if exc else "Ret")
        return "(script [%s])" % "; ".join(out)

    def call_term(op, items, exc, tail, cells=None):
        """the model call of a non-setting operation whose (nested) trace is `items`"""
        size[0] += 2
        k = op[0]
        if k == "csscombine":
            # phases: parse | resolveImports, encoding | serialise under the swapped serializer
            mid = [i for i, e in enumerate(items) if e[0] == "mid"]
            sw = [i for i, e in enumerate(items) if e[0] == "setser"]
            p1 = items[:mid[0]] if mid else items
            pm = items[mid[0]:sw[0]] if mid and sw else (items[mid[0]:] if mid else [])
            p2 = items[sw[0]:] if sw else []
            fresh = items[sw[0]][1] if sw else 999
            e1 = bool(exc) and not mid
            em = bool(exc) and bool(mid) and not sw
            e2 = bool(exc) and bool(sw)
            fp = cells["prefs"] if cells is not None and cells["ser"] == fresh else 2
            strip = lambda xs: [x for x in xs if x[0] not in ("mid", "setser")]   # noqa
            return "CCombine %d%%N %d%%N %s %s %s" % (fresh, fp, script(strip(p1), e1, tail), script(strip(pm), em, tail),
                                                      script(strip(p2), e2))
        if any(e[0] == "setser" for e in items):
            raise Untranslatable("serializer swapped by an entry point other than csscombine")
        body = script([e for e in items if e[0] != "mid"], exc, tail)
        if k.startswith("parse"):
            who = op[-1]
            return "CParse %s %s" % ("None" if who is None else "(Some %d%%nat)" % who, body)
        return "CPlain %s" % body
    steps = []
    nparsers = 0
    prev = res["start"]
    try:
        for op, st in zip(hist, res["steps"]):
            c = st["cells"]
            k = op[0]
            indent_on = prev["prefs"] % 2 == 1
            if k == "set_raise":
                call = "CSetRaising %s" % coq_bool(op[1])
            elif k in ("set_profile",):
                call = "CSetProfile %d%%N" % c["profile"]
            elif k in ("set_loglevel", "log_handler"):
                call = "CSetLog %d%%N" % c["logcfg"]
            elif k == "parser_loglevel":
                call = "CNewParser false (Some %d%%N)" % c["logcfg"]
                nparsers += 1
            elif k in ("set_pref", "use_minified", "use_defaults", "replace_prefs"):
                call = "CSetPrefs %d%%N" % c["prefs"]
                if st["exc"]:
                    return None, "a settings operation raised"
            elif k == "set_ser":
                call = "CSetSer %d%%N %d%%N" % (c["ser"], c["prefs"])
            elif k == "set_dx":
                call = "CSetDX"
            elif k == "new_parser":
                call = "CNewParser %s None" % coq_bool(op[1])
                nparsers += 1
            else:
                op2 = list(op)
                if k.startswith("parse") and op2[-1] is not None and op2[-1] >= nparsers:
                    op2[-1] = None
                tail = ("Do (EvSer %d%%N (%d)%%Z)" % (c["memo"], c["sellevel"]),) if indent_on else ()
                call = call_term(op2, nest_items(st["events"]), st["exc"], tail, c)
            steps.append("(%s, %s)" % (call, g(c, nparsers)))
            prev = c
    except Untranslatable as e:
        return None, str(e)
    return "first_disagreement current %d 0 [%s] G0" % (size[0] + 20, "; ".join(steps)), None


def coq_eval_parallel(terms, batch=250):
    """Eval vm_compute of many closed terms; own implementation (ctx.coq_eval is single-file, single-process)"""
    requires = "From CssV Require Import Base Globals Gen.GlobalSites."
    WORK.mkdir(parents=True, exist_ok=True)
    chunks = [terms[i:i + batch] for i in range(0, len(terms), batch)]
    results = [None] * len(chunks)
    errors = []

    def work(ci):
        d = WORK / ("eval_%d_%d" % (os.getpid(), ci))
        d.mkdir(parents=True, exist_ok=True)
        body = [requires, "Set Printing Width 100000.", "Set Printing Depth 100000."]
        for i, t in enumerate(chunks[ci]):
            body.append('Goal True. idtac "@@%d". Abort.' % i)
            body.append("Eval vm_compute in (%s)." % t)
        (d / "cases.v").write_text("\n".join(body) + "\n")
        p = subprocess.run(["timeout", "900", "coqc", "-Q", str(COQ / "theories"), "CssV", "-Q", str(COQ / "props"), "CssP",
                            "cases.v"], cwd=d, text=True, capture_output=True)
        if p.returncode:
            errors.append((p.stdout + p.stderr)[-1500:])
        else:
            parts = re.split(r"@@(\d+)\n", p.stdout)
            r = [None] * len(chunks[ci])
            for k in range(1, len(parts), 2):
                txt = re.sub(r"\s*:\s*option nat\s*$", "", parts[k + 1].strip())
                r[int(parts[k])] = " ".join(re.sub(r"^=\s*", "", txt).split())
            results[ci] = r
        for f in d.iterdir():
            f.unlink()
        d.rmdir()
    sem = threading.Semaphore(PROCS)

    def guarded(ci):
        with sem:
            work(ci)
    th = [threading.Thread(target=guarded, args=(i,)) for i in range(len(chunks))]
    [t.start() for t in th]
    [t.join() for t in th]
    if errors:
        raise RuntimeError("coq evaluation failed: " + errors[0])
    return [x for r in results for x in r]


# ------------------------------------------------------------------------------------------- oracle
def describe_op(op):
    return json.dumps(op, ensure_ascii=True)


def oracle(hist, res, ref, lead=None):
    """the property, evaluated on the implementation: returns list of (description, sig_text)"""
    out = []
    indent = any(op[0] == "set_pref" and op[1] == "indentSpecificities" and op[2] for op in hist)
    for i, (op, st) in enumerate(zip(hist, res["steps"])):
        if st.get("settings_changed"):
            out.append(("after call %d %s (%s) the caller-visible setting(s) %s differ from what the caller last set"
                        % (i, op[0], "raised " + st["exc"] if st["exc"] else "returned", ", ".join(st["settings_changed"])),
                        "settings %s op=%s exc=%s" % (",".join(st["settings_changed"]), op[0], st["exc"])))
    diff = [k for k, (a, b) in enumerate(zip(res["canaries"], ref["canaries"])) if a != b]
    if diff:
        k = diff[0]
        kinds = "other"
        if lead in diff:
            k = lead
        out.append(("canary results differ from a pristine interpreter that performed only the caller's settings: "
                    "canary %d %s%s gives %s, pristine %s" % (k, describe_op(CANARIES[k])[:80], " (evaluated first)" if k == lead else "", json.dumps(res["canaries"][k])[:120],
                                                           json.dumps(ref["canaries"][k])[:120]),
                    "canaries indentSpecificities=%s differing=%s" % ("on" if indent else "off", kinds)))
    elif res.get("final_settings") != ref.get("final_settings"):
        out.append(("caller-visible settings after the history differ from those after the caller's settings alone",
                    "settings final"))
    return out


def check_histories(hists):
    """oracle on the implementation for each history; returns list of (hist, [(desc, sig)])"""
    runs = isolated_map([{"hist": h} for h in hists])
    def refkey(h):
        return json.dumps([op for op in h if op[0] in SETTERS or op[0] == "canary_first"])
    keys = {}
    for h in hists:
        keys.setdefault(refkey(h), h)
    refs_list = isolated_map([{"hist": h, "only_setters": True} for h in keys.values()])
    refs = dict(zip(keys.keys(), refs_list))
    out = []
    for h, r in zip(hists, runs):
        out.append((h, oracle(split_lead(h)[0], r, refs[refkey(h)], split_lead(h)[1]), r))
    return out


def fails(hist, known=None):
    """does the property fail on this history (ignoring failures of the known-finding families)?"""
    (h, v, r), = check_histories([hist])
    return [x for x in v if not (known and known(x[0] + " :: " + x[1]))]


def shrink(hist, known):
    return shrink_seq(hist, lambda cand: bool(cand) and bool(fails(cand, known)), max_rounds=12)


def setup_globals():
    global TARGETS, LABELS, FILES, URLS
    import logging
    import css_parser
    silent = logging.getLogger("C06SILENT")     # public API: setLog; nothing is written to stderr at any level
    silent.addHandler(logging.NullHandler())
    silent.propagate = False
    css_parser.log.setLog(silent)
    css_parser.log.setLevel(logging.FATAL)
    global LOGGER
    LOGGER = silent
    import css_parser.cssproductions as cpr
    alt = dict(cpr.MACROS)
    alt["nmstart"] = "[_a-z]|{nonascii}|{escape}|[0-9]"          # same names, another definition
    other = dict(cpr.MACROS)
    other["extra"] = "x"                                          # another set of names
    MACRO_SPECS.update({"default": (dict(cpr.MACROS), (0, 0)), "alt": (alt, (0, 1)), "other": (other, (1, 2))})
    PROD_SPECS.update({"default": (list(cpr.PRODUCTIONS), 0), "short": ([x for x in cpr.PRODUCTIONS if x[0] != "STRING"], 2)})
    WORK.mkdir(parents=True, exist_ok=True)
    ok = WORK / "ok.css"
    bad = WORK / "bad.css"
    ok.write_text("a{x:1} @media print{b{y:2}}")
    bad.write_bytes(b'@charset "ascii"; \xff')
    FILES = [str(ok), str(bad), str(WORK / "nonexistent.css")]
    URLS = ["file://" + str(ok), "file://" + str(WORK / "nonexistent.css")]
    TARGETS = _mk_targets()
    LABELS = sorted(TARGETS)


def pristine_reference_check(ctx):
    """the forked-pristine reference equals a really fresh interpreter (separate python process)"""
    code = ("import json,sys; sys.path.insert(0, %r); import harness.props.c06 as m; m.setup_globals(); "
            "print(json.dumps(m.run_history({'hist': []})['canaries']))" % str(VERIF))
    env = dict(os.environ)
    p = subprocess.run([PY, "-c", code], text=True, capture_output=True, env=env, timeout=120)
    if p.returncode:
        ctx.broken("harness", "fresh-interpreter reference", (p.stdout + p.stderr)[-1500:])
        return None
    return json.loads(p.stdout.strip().split("\n")[-1])


def tree_digest():
    import hashlib
    h = hashlib.sha256()
    for p in sorted((REPO / "src" / "css_parser").rglob("*.py")):
        h.update(p.read_bytes())
    return h.hexdigest()


def run(ctx):
    thorough = ctx.tier == "thorough"
    t0 = time.time()
    digest0 = tree_digest()
    ctx.regen("globals")
    b = ctx.coq_build("props/C06.v")
    setup_globals()
    rng = ctx.rng
    corpus_p = VERIF / "corpus" / "C06.json"
    corpus = json.loads(corpus_p.read_text()) if corpus_p.exists() else []
    singles = all_single_ops()
    hists = [c["hist"] for c in corpus]
    n_corpus = len(hists)
    if thorough:
        hists += [[op] for op in singles]
    else:
        # quick: every non-constructor operation alone, and every second constructor/setter operation (by seed parity)
        hists += [[op] for i, op in enumerate(singles) if op[0] != "obj" or i % 2 == ctx.seed % 2]
    reent = reentrant_histories()
    hists += reent
    # exhaustive pairs: (every call that can leave something behind) x (every call), thorough: all pairs
    contaminators = [op for op in singles if op[0] in ("tokenizer", "set_dx") or op[0] == "obj" and op[1].startswith(("MediaQuery", "MediaList"))
                     or op[0] in ("csscombine", "parseFile") or (op[0] == "parseString" and isinstance(op[1], dict))]
    contaminators += [op for op in singles if op[0] == "live"]
    # every operation that can leave something behind, followed by each leak-sensitive canary evaluated FIRST
    lead_src = contaminators if thorough else contaminators[ctx.seed % 2::2]
    hists += [[op, ["canary_first", k]] for op in lead_src for k in LEADS[::(1 if thorough else 2)] +
              ([] if thorough else LEADS[1 + ctx.seed % 2::4])]
    if thorough:
        pairs = [[a, b2] for a in contaminators[::2] for b2 in singles[ctx.seed % 12::12]]
    else:
        pairs = [[a, b2] for a in contaminators[ctx.seed % 7::7] for b2 in singles[ctx.seed % 97::97]]
    hists += pairs
    n_exh = len(hists) - n_corpus
    nrand = 4000 if thorough else 400
    for i in range(nrand):
        hists.append(gen_history(rng, 8 if thorough else 6, indent_ok=(i % 5 == 0), reentrant=(i % 3 == 1)))
    # ---------------------------------------------------------------- correspondence (traced runs vs model)
    traced = isolated_map([{"hist": h, "instrument": True, "no_canaries": True} for h in hists])
    terms, idx, untranslatable = [], [], []
    for i, (h, r) in enumerate(zip(hists, traced)):
        if r["start"] != {"saved": [], "pushed": [], "raising": True, "ser": 0, "prefs": 0, "level": 0, "memo": 0,
                          "sellevel": 0, "dx": 0, "nprod": r["start"]["nprod"], "profile": 0, "logcfg": 0, "cache": 1}:
            ctx.broken("correspondence", "initial state is not G0", json.dumps(r["start"]))
            break
        t, why = to_model(h, r)
        if t is None:
            untranslatable.append((h, why))
        else:
            terms.append(t)
            idx.append(i)
    mism = []
    model_ok = False
    if b.ok:
        try:
            outs = coq_eval_parallel(terms)
            model_ok = True
            for i, o in zip(idx, outs):
                if o != "None":
                    m = re.match(r"Some (\d+)", o or "")
                    k = int(m.group(1)) if m else -1
                    mism.append({"hist": hists[i], "step": k, "op": hists[i][k] if 0 <= k < len(hists[i]) else None,
                                 "observed": traced[i]["steps"][k] if 0 <= k < len(hists[i]) else o})
        except RuntimeError as e:
            ctx.broken("correspondence", "model evaluation", str(e))
    if untranslatable:
        ctx.broken("correspondence", "trace outside the model's event alphabet",
                   "%d histories; first: %s" % (len(untranslatable), json.dumps(untranslatable[0])[:800]))
    if mism:
        ctx.broken("correspondence", "cells after a call differ from Globals.step (bracket table `current`)",
                   "%d of %d histories; first: %s" % (len(mism), len(terms), json.dumps(mism[0], default=str)[:1500]))
    # ---------------------------------------------------------------- property-level oracle (uninstrumented runs)
    results = check_histories(hists)
    known_skipped = 0
    n_viol = 0
    nontrivial = 0
    op_counts, exc_counts = {}, {}
    events_seen = {}
    for (h, v, r), tr in zip(results, traced):
        for op, st in zip(h, r["steps"]):
            op_counts[op[0]] = op_counts.get(op[0], 0) + 1
            if st["exc"]:
                exc_counts[st["exc"]] = exc_counts.get(st["exc"], 0) + 1
        for st in tr["steps"]:
            for e in st["events"]:
                events_seen[e[0]] = events_seen.get(e[0], 0) + 1
        if any(st["exc"] or any(e[0] in ("save", "push") for e in st2["events"]) for st, st2 in zip(r["steps"], tr["steps"])):
            nontrivial += 1
        for desc, sig in v:
            if ctx.match_known(desc + " :: " + sig):
                known_skipped += 1
                continue
            n_viol += 1
            if len(ctx.violations) >= 6:
                continue            # enough witnesses; the rest is only counted
            small = shrink(h, ctx.match_known) if len(h) > 1 and len(ctx.violations) < 3 else h
            ctx.violation(desc, {"hist": small, "from": h if small != h else None}, sig_text=sig)
    # traced and untraced runs must agree on outcomes (the instrumentation does not change behaviour)
    instr_diff = [h for (h, v, r), tr in zip(results, traced)
                  if [s["exc"] for s in r["steps"]] != [s["exc"] for s in tr["steps"]]]
    if instr_diff:
        ctx.broken("harness", "instrumented and plain runs differ in outcome", json.dumps(instr_diff[0])[:800])
    fresh = pristine_reference_check(ctx)
    if fresh is not None:
        forked = isolated_map([{"hist": []}])[0]["canaries"]
        if fresh != forked:
            if tree_digest() != digest0:
                # another process edited /repo's working tree while this check ran (the fresh interpreter imported a
                # different source than this process): the cross-check says nothing then
                ctx.notes.append("working tree of /repo changed during the run; fresh-interpreter cross-check skipped")
            else:
                ctx.broken("harness", "forked-pristine reference differs from a fresh interpreter", json.dumps([fresh, forked])[:800])
    # ---------------------------------------------------------------- known findings: replay stored witnesses
    for f in ctx.findings:
        if f.get("status") == "open":
            for desc, sig in fails(f["witness"]["hist"]):
                ctx.violation(desc, f["witness"], sig_text=sig)

    def search():
        tcap = 300 if thorough else 55
        ts = time.time()
        r2 = ctx.rng
        while time.time() - ts < tcap:
            batch = [gen_history(r2, 5, indent_ok=False, reentrant=(n % 2 == 0)) for n in range(240)] + reentrant_histories()[::3]
            batch += [[a, b2] for a in r2.sample(contaminators, min(8, len(contaminators))) for b2 in r2.sample(singles, 4)]
            for h, v, r in check_histories(batch):
                v = [x for x in v if not ctx.match_known(x[0] + " :: " + x[1])]
                if v:
                    small = shrink(h, ctx.match_known)
                    return {"hist": small, "fails": fails(small, ctx.match_known)[0][0] if fails(small, ctx.match_known) else v[0][0]}
        return None

    nsteps = sum(len(h) for h in hists)
    ctx.finish({
        "evaluations": nsteps + len(hists) * len(CANARIES),
        "histories": len(hists),
        "calls_compared_with_model": sum(len(hists[i]) for i in idx) if model_ok else 0,
        "distinct_nontrivial": nontrivial,
        "reentrant_histories": len(reent) + nrand // 3,
        "rule": "histories = corpus (%d) + every operation of the alphabet alone (quick: every second constructor/setter operation), "
                "pairs contaminator x operation and the "
                "re-entrant set (fetcher / replaceUrls replacer / log handler calling back into the API on the same parser, "
                "another parser or the module functions, depth <= 2; both flag values) "
                "(%d, exhaustive-small part) + %d random histories of 1..%d calls (1 in 5 may switch indentSpecificities, "
                "1 in 3 use callbacks); "
                "each followed by %d canary operations (8 of them on long-lived objects created before the history; a history may name "
                "one canary to be evaluated first) compared with a pristine fork that performed only the caller's "
                "settings; non-trivial = histories in which some call raised or handed a token to the stash/push-back list"
                % (n_corpus, n_exh, nrand, 8 if thorough else 6, len(CANARIES)),
        "op_counts": op_counts, "exception_counts": exc_counts, "traced_event_counts": events_seen,
        "known_finding_cases_skipped": known_skipped, "oracle_failures": n_viol,
        "samples": [hists[n_corpus + 3], hists[n_corpus + n_exh - 1], hists[-1], hists[-2]],
        "disagreements_checked": len(terms) if model_ok else 0,
        "trusted_base": TRUSTED,
    }, assumptions=ASSUME, search=search)


def replay(ctx, path):
    setup_globals()
    rep = json.loads(open(path).read())
    bad = 0
    for v in rep.get("violations", []):
        w = v["witness"]
        h = w["hist"]
        f = fails(h)
        print("replay %s\n   -> %s" % (json.dumps(h), "; ".join(x[0] for x in f) if f else "holds"))
        bad += bool(f)
    return 1 if bad else 0


TRUSTED = [
    "Coq 8.16.1 kernel and VM (vm_compute for the witnesses, for well_bracketed current, and for the model side of the "
    "correspondence, which is evaluated inside Coq -- no extraction, no OCaml)",
    "translate/globals.py: Python ast pass that recognises the bracket shapes of parse.py, prodparser.py, script.py, "
    "serialize.py and checks package-wide that nothing else assigns the cells (fail-closed)",
    "the event semantics of Globals.v (ProdParser(), savedTokens pop/append, tokenizer push/drain, serializer reads) is a "
    "hand transcription; it is compared with the implementation on every traced call (cells after the call), including "
    "that no call touches the stash before constructing a ProdParser",
    "bodies of the entry points are not modelled: they are universally quantified strategies over the primitive events "
    "(for the ProdParser.parse engine the event discipline is proved by coq/props/PP.v: stash_events, stash_events_globals, "
    "pparse_stash_discipline)",
    "harness/props/c06.py: history generator, run-time tracing of prodparser.savedTokens / tokenizer / ProdParser.__init__ / "
    "setSerializer / resolveImports (runtime wrappers, no source hooks), canary fingerprints",
    "CPython 3.12 fork semantics for the pristine reference (cross-checked against a fresh interpreter once per run)",
]
ASSUME = [
    "Print Assumptions of every theorem in props/C06.v: Closed under the global context (see coverage.print_assumptions)",
    "history_independent and caller_settings_stable are proved in full for the regenerated bracket table (since fix 2523c61 "
    "the selector memo is scoped to one sheet serialisation); the memo bracket is abstracted to the activation",
    "callbacks (fetcher, replaceUrls replacer, logging handler) may call any public entry point, nested to any depth in the "
    "model and to depth 2 in the generated histories, but do not change the caller's settings themselves (TNestSet)",
    "a caller-installed serializer is a fresh CSSSerializer object; module reloads are not covered; "
    "settings.set('DXImageTransform.Microsoft', True) is a persistent caller setting",
]
