"""C01 -- parsing any text terminates and never raises.

proof:          coq/props/C01.v  (tokenize_total; string_tokens_quoted; stringtokenvalue_total_on_strings;
                upto_partition/upto_progress (own minimal transcription of _tokensupto2); charset_rule_total;
                color_args_total; parse_loop_total; parse_never_raises_partial under the named Section
                hypothesis handlers_total) over coq/theories/ParseTotal.v -- the crash-site models, partial
                operations modelled as partial.  The polynomial-time clause is NOT a theorem: it is monitored
                by measurement (per-case CPU time in isolated workers, pumped families).
tie:            translate/tokenizer.py regenerates productions/tables; function-level correspondence of the
                extracted crash-site models (stringtokenvalue, upto, charset_rule, color_args, default
                handlers) with the very functions of /repo; end-to-end validation of handlers_total by the
                property-level oracle below.
oracle/search:  for a text x {parseString, parseStyle} x {validate} x {parseComments}: the call returns, reading
                cssText succeeds, no exception (other than decoding errors for bytes), within a CPU budget.
"""
import itertools
import json
import os
import random
import signal
import sys
import time
import traceback
from multiprocessing import get_context
from multiprocessing.connection import wait as mp_wait

from harness.lib import VERIF, cps, shrink_seq

PROCS = 6

# ------------------------------------------------------------------------------------------------ alphabets
CHARS = ["a", "{", "}", ":", ";", "@", "(", ")", '"', "\\", " ", "/", "*", "!", ",", "1", "%", "#", "[", "]", ".",
         "'", "-", "\n", "=", "u", "+", "|", ">", "\xe9"]
LEX = ["@charset ", "@charset", "@import", "@media", "@page", "@namespace", "@font-face", "@variables", "@x", "a",
       "{", "}", ":", ";", "(", ")", "[", "]", '"s"', "'t'", "url(x)", "url(", "hsl(", "rgb(", "rgba(", "f(", "calc(",
       "1", "50%", "1px", "#fff", "!", "important", ",", " ", "/*c*/", "/*", "\\", '"', "+", ">", "*", "|", ".", "=",
       "and", "screen", "<!--", "-->", "not", "only", ":not(", "::", "~=", "U+2??", "var(", "\n", "-", "e",
       "expression(", "progid:DXImageTransform.Microsoft.x(", "@top-left", "~", "\\26 ", "\\\n", "color", "red",
       "attr(", "/", "$=", "\xe9", "\x00", "\ufeff", "\U0001F600", "\ud800", "0", ".5", "1e3", "#", "@", "@-x-y",
       "\\7d ", "\\7b ", "\\28 ", "\\29 ", "\\3b ", "\\22 ", "\\5c ", "/**/", " /*c*/ ", '"hex"', '"css"', '"utf-8"',
       "9" * 400, "9" * 400 + ".5", "9" * 4400]
CORE = ["@charset ", "@import", "@media", "@page", "@namespace", "@x", "a", "{", "}", ":", ";", "(", ")", "[", "]", '"s"',
        "url(x)", "hsl(", "rgb(", "f(", "1", "50%", "1px", "#fff", "!", "important", ",", " ", "/*c*/", "\\", '"',
        "+", "*", "|", ".", "=", "and", "screen", ":not(", "calc(", "var(", "/", "-", "@font-face"]
CONTEXTS = ["%s", "a{%s}", "a{color:%s}", "a{%s:red}", "@media %s{a{x:1}}", "@media screen{%s}", "@import %s;",
            "a%s{x:1}", "@page %s{margin:0}", "@page{%s}", "@namespace %s;", "@charset %s", "@font-face{%s}",
            "@x %s;", "a{x:1 !%s}", "a[%s]{}", "a:%s{}", "@media screen{a{%s}}", "@variables{%s}",
            "a{color:hsl(%s)}", "a{color:rgba(%s)}", "a{x:calc(%s)}", "a{x:f(%s)}", "@page :first{@top-left{%s}}",
            "a{font-family:%s}", "a{background:%s}", "a{x:var(%s)}", "@import url(x) %s;", "a{x:url(%s)}",
            "a{width:%s}", "a{margin:%s}", "a{content:%s}", "a{src:%s}", "@media screen and (%s){a{}}"]

SETTINGS = [(v, c) for v in (1, 0) for c in (1, 0)]   # validate x parseComments
APIS = ["S", "Y"]                                      # parseString / parseStyle

FETCH_KINDS = ["none", "text", "bytes", "raise", "oserror", "nested", "badtuple", "strenc", "empty", "latin",
               # results that break the documented (encoding, content) shape -- "whatever a fetcher returns"
               "int-content", "int-result", "bytes-enc", "int-enc-bytes", "int-enc-str", "list-content", "str-result",
               "bytes-result", "triple", "list-result", "empty-tuple", "none-none", "bogus-enc", "bogus-enc-str"]
MISTYPED = {"int-content": (None, 123), "int-result": 5, "bytes-enc": (b"utf-8", b"a{}"), "int-enc-bytes": (123, b"a{}"),
            "int-enc-str": (123, "a{}"), "list-content": (None, ["a"]), "str-result": "a{}", "bytes-result": b"a{}",
            "triple": (1, 2, 3), "list-result": [None, "a{}"], "empty-tuple": (), "none-none": (None, None),
            "bogus-enc": ("bogus", b"a{}"), "bogus-enc-str": ("bogus", "a{}")}

# ------------------------------------------------------------------------------------------------ the oracle (worker side)
_STATE = {}


class BudgetExceeded(BaseException):
    pass


def _alarm(signum, frame):
    raise BudgetExceeded()


def make_fetcher(kind, log):
    def fetch(url):
        log.append(url)
        if len(log) > 50:
            return None       # the stub never feeds an unbounded import chain (cycles are C20's subject)
        if kind == "none":
            return None
        if kind == "text":
            return None, "b{y:2} @import 'z'; c{"
        if kind == "bytes":
            return "utf-8", b"@charset \"ascii\"; b{y:\xc3\xa9} /*"
        if kind == "latin":
            return "latin-1", b"b{y:\xe9}"
        if kind == "raise":
            raise ValueError("fetcher failure")
        if kind == "oserror":
            raise OSError("fetcher failure")
        if kind == "nested":
            if url.endswith("n3.css"):
                return None
            return None, "@import 'n%d.css'; d{z:3}" % (len(log) + 1)
        if kind == "badtuple":
            return ("utf-8",)
        if kind == "strenc":
            return "utf-8", "e{w:4}"
        if kind == "empty":
            return None, ""
        if kind in MISTYPED:
            return MISTYPED[kind]
        return None
    return fetch


def site_of(tb):
    """innermost css_parser frames 'file:function', up to three, outermost first"""
    frames = [f for f in traceback.extract_tb(tb) if "/css_parser/" in f.filename]
    names = ["%s:%s" % (os.path.basename(f.filename), f.name) for f in frames]
    names = [n for n in names if not n.endswith(":__setattr__")]
    return ">".join(names[-3:])


def decode_text(t):
    """cases carry text as str (may contain lone surrogates) or {'b': hex} for bytes input"""
    if isinstance(t, dict):
        return bytes.fromhex(t["b"])
    return t


def run_case(case, budget):
    """case = [api, text, validate, parseComments, fetchkind] -> result dict (canonical, JSON-able)"""
    api, text, validate, pc, fk = case
    text = decode_text(text)
    import logging
    import css_parser
    if not _STATE.get("init"):
        css_parser.log.setLevel(logging.FATAL)
        _STATE["init"] = True
    calls = []
    parser = css_parser.CSSParser(raiseExceptions=False, fetcher=make_fetcher(fk, calls),
                                  parseComments=bool(pc), validate=bool(validate))
    res = {"s": "ok"}
    phase = "parse"
    signal.signal(signal.SIGALRM, _alarm)
    signal.setitimer(signal.ITIMER_REAL, budget)
    t0 = time.process_time()
    try:
        try:
            if api == "S":
                r = parser.parseString(text)
            else:
                r = parser.parseStyle(text)
            phase = "cssText"
            out = r.cssText
            if out is None or not isinstance(out, (str, bytes)):
                res = {"s": "exc", "e": "BadResult", "site": "cssText", "msg": repr(type(out)), "phase": phase}
        finally:
            signal.setitimer(signal.ITIMER_REAL, 0)
    except BudgetExceeded as e:
        res = {"s": "timeout", "site": site_of(e.__traceback__), "phase": phase}
    except UnicodeDecodeError as e:
        if isinstance(text, bytes):
            res = {"s": "decode"}      # allowed by the statement: decoding error for byte input
        else:
            res = {"s": "exc", "e": type(e).__name__, "site": site_of(e.__traceback__), "msg": str(e)[:120],
                   "phase": phase}
    except RecursionError as e:
        res = {"s": "exc", "e": "RecursionError", "site": site_of(e.__traceback__)[-120:], "msg": "", "phase": phase}
    except BaseException as e:  # noqa
        if isinstance(e, (KeyboardInterrupt, SystemExit)):
            raise
        res = {"s": "exc", "e": type(e).__name__, "site": site_of(e.__traceback__), "msg": str(e)[:120],
               "phase": phase}
    res["cpu"] = round(time.process_time() - t0, 4)
    # the parser must hand the non-raising flag back (cheap sanity; C06 owns the property)
    if fk != "none" and len(calls) > 50:
        res["fetches"] = len(calls)
    return res


# ------------------------------------------------------------------------------------------------ isolated, timed pool
def _worker_main(conn, budget):
    sys.setrecursionlimit(1000)
    while True:
        try:
            msg = conn.recv()
        except EOFError:
            return
        if msg is None:
            return
        idx, case = msg
        try:
            r = run_case(case, budget)
        except BudgetExceeded:
            r = {"s": "timeout", "site": "late", "phase": "?", "cpu": budget}
        except BaseException as e:  # noqa
            r = {"s": "exc", "e": "Harness" + type(e).__name__, "site": "harness", "msg": str(e)[:200], "phase": "?",
                 "cpu": 0}
        conn.send((idx, r))


class TimedPool:
    """PROCS forked workers; one case in flight per worker; a worker that does not answer within
    2*budget+2 s of wall-clock is killed (hard timeout) and replaced; its case is reported as 'killed'."""

    def __init__(self, budget, procs=PROCS):
        self.budget = budget
        self.procs = procs
        self.ctx = get_context("fork")
        self.workers = []

    def _spawn(self):
        a, b = self.ctx.Pipe()
        p = self.ctx.Process(target=_worker_main, args=(b, self.budget), daemon=True)
        p.start()
        b.close()
        return {"p": p, "c": a, "job": None, "t": 0.0}

    def map(self, cases):
        n = len(cases)
        out = [None] * n
        nxt = 0
        done = 0
        self.workers = [self._spawn() for _ in range(min(self.procs, max(1, n)))]
        hard = 2 * self.budget + 2
        try:
            while done < n:
                for w in self.workers:
                    if w["job"] is None and nxt < n:
                        w["c"].send((nxt, cases[nxt]))
                        w["job"] = nxt
                        w["t"] = time.time()
                        nxt += 1
                busy = [w for w in self.workers if w["job"] is not None]
                ready = mp_wait([w["c"] for w in busy], timeout=0.5)
                for w in busy:
                    if w["c"] in ready:
                        try:
                            idx, r = w["c"].recv()
                        except (EOFError, OSError):
                            idx, r = w["job"], {"s": "killed", "site": "worker died", "phase": "?", "cpu": 0}
                            self._replace(w)
                        out[idx] = r
                        w["job"] = None
                        done += 1
                    elif time.time() - w["t"] > hard:
                        out[w["job"]] = {"s": "killed", "site": "hard timeout", "phase": "?", "cpu": hard}
                        done += 1
                        self._replace(w)
        finally:
            for w in self.workers:
                try:
                    w["c"].send(None)
                except Exception:  # noqa
                    pass
            for w in self.workers:
                w["p"].join(0.2)
                if w["p"].is_alive():
                    w["p"].kill()
        return out

    def _replace(self, w):
        try:
            w["p"].kill()
        except Exception:  # noqa
            pass
        nw = self._spawn()
        w.update(nw)


# ------------------------------------------------------------------------------------------------ generators
def gen_sheet(rng, depth=0):
    """a well-formed style sheet from a small grammar (statements the library knows)"""
    def ident():
        return rng.choice(["a", "b", "div", "x-y", "_z", "h1", "\\61 b", "caf\xe9", "-moz-x"])

    def string():
        return rng.choice(['"s"', "'t'", '"a\\"b"', "'\\27 '", '""', '"\\\n"'])

    def url():
        return rng.choice(["url(x.css)", 'url("y.css")', "url( 'z' )", "url()"])

    def num():
        return rng.choice(["0", "1", "-1", "+.5", "1.5", "100", "10px", "2em", "50%", "-3.5%", "1e3", "90deg"])

    def color():
        return rng.choice(["red", "#fff", "#a1b2c3", "rgb(1,2,3)", "rgb(10%, 20%, 30%)", "rgba(1,2,3,.5)",
                           "hsl(120, 50%, 50%)", "hsla(1,2%,3%,0.5)", "transparent"])

    def value():
        k = rng.randint(1, 3)
        parts = []
        for i in range(k):
            r = rng.random()
            if r < 0.3:
                parts.append(num())
            elif r < 0.5:
                parts.append(color())
            elif r < 0.6:
                parts.append(string())
            elif r < 0.7:
                parts.append(url())
            elif r < 0.8:
                parts.append(rng.choice(["calc(1px + 2%)", "calc( (1em - 2px) * 3 )", "f(1, a)", "var(x)",
                                         "attr(title)", "counter(c)", "U+20-7f", "expression(a+b)",
                                         "progid:DXImageTransform.Microsoft.gradient(startColorstr='#1', e=2)"]))
            else:
                parts.append(ident())
        sep = rng.choice([" ", ", ", "/", " "])
        return sep.join(parts)

    def decl():
        name = rng.choice(["color", "width", "margin", "font-family", "background", "content", "x", "-moz-y", "src",
                           "font", "border", "left", "$top", "*zoom"])
        imp = rng.choice(["", "", " !important", "! important", " !IMPORTANT"])
        return "%s%s:%s%s%s" % (name, rng.choice(["", " "]), rng.choice(["", " "]), value(), imp)

    def decls():
        return (";" + rng.choice(["", " ", "\n"])).join(decl() for _ in range(rng.randint(0, 3))) + rng.choice(["", ";"])

    def simple():
        s = rng.choice(["", "", ident(), "*", "p|a", "*|b", "|c"])
        for _ in range(rng.randint(0, 2)):
            s += rng.choice(["#id", ".cls", "[a]", "[a=b]", '[a~="b"]', "[a|=b]", "[a^=b]", ":hover", "::after",
                             ":nth-child(2n+1)", ":not(.x)", ":lang(en)", ":first-child", "[p|a=b]"])
        return s or "a"

    def selector():
        return rng.choice([" ", ">", "+", "~", " > "]).join(simple() for _ in range(rng.randint(1, 2)))

    def rule():
        return "%s%s{%s}" % (", ".join(selector() for _ in range(rng.randint(1, 2))), rng.choice(["", " "]), decls())

    def mq():
        return rng.choice(["screen", "print", "all", "only screen and (min-width: 100px)", "not print",
                           "screen and (color)", "(max-width:1px)", "tv, screen"])

    out = []
    if depth == 0:
        if rng.random() < 0.3:
            out.append('@charset "utf-8";')
        for _ in range(rng.randint(0, 2)):
            out.append("@import %s%s;" % (rng.choice([url(), string()]), rng.choice(["", " " + mq(), ' screen "n"'])))
        for _ in range(rng.randint(0, 2)):
            out.append("@namespace %s%s;" % (rng.choice(["", "p ", "q "]), rng.choice([string(), url()])))
    for _ in range(rng.randint(1, 4)):
        r = rng.random()
        if r < 0.5:
            out.append(rule())
        elif r < 0.62 and depth < 2:
            out.append("@media %s%s{%s}" % (mq(), rng.choice(["", ' "name"']), gen_sheet(rng, depth + 1)))
        elif r < 0.7:
            out.append("@page %s{%s%s}" % (rng.choice(["", ":first", "a:left"]), decls(),
                                           rng.choice(["", "@top-left{%s}" % decls()])))
        elif r < 0.78:
            out.append("@font-face{%s}" % decls())
        elif r < 0.84:
            out.append("/* c%s */" % rng.choice(["", "*", "/", " * /"]))
        elif r < 0.9:
            out.append("@%s %s%s" % (ident(), value(), rng.choice([";", "{a{x:1}}", "{" + decls() + "}"])))
        elif r < 0.93 and depth == 0:
            out.append("@variables{x:1}")
        elif r < 0.96:
            out.append(rng.choice(["<!--", "-->"]))
        else:
            out.append(rule())
    return rng.choice(["", " ", "\n"]).join(out)


def lexemes(text):
    """split a text with the implementation's own tokenizer (raw values) -- used only to mutate at token level"""
    from css_parser.tokenize2 import Tokenizer
    try:
        return [t[1] for t in Tokenizer().tokenize(text)]
    except Exception:  # noqa
        return list(text)


def mutate(rng, toks):
    toks = list(toks)
    k = rng.randint(1, 3)
    for _ in range(k):
        r = rng.random()
        if not toks:
            toks.append(rng.choice(LEX))
        i = rng.randrange(len(toks))
        if r < 0.15:
            toks = toks[:i]                                 # truncation
        elif r < 0.35:
            del toks[i]                                     # deletion
        elif r < 0.55:
            toks.insert(i, rng.choice(LEX))                 # insertion
        elif r < 0.65:
            toks.insert(i, toks[i])                         # duplication
        elif r < 0.8:
            toks.insert(i, rng.choice("(){}[]\"'"))         # bracket / quote imbalance
        elif r < 0.9:
            toks.insert(i, chr(rng.choice([rng.randrange(0, 0x80), rng.randrange(0x80, 0x3000),
                                            rng.randrange(0xd800, 0xe000), rng.randrange(0x10000, 0x110000)])))
        else:
            j = rng.randrange(len(toks))
            toks[i], toks[j] = toks[j], toks[i]             # swap
    return "".join(toks)


WEAVE_BASES = ["a{color:red}", "a{x:1;y:2}", "a{margin:0 !important}", "@media print{a{width:10px}}",
               "@import url(x) screen;", '@import "x" print, tv;', '@namespace p "u";', "@page :first{margin:0}",
               "@font-face{src:url(x)}", "a>b,c[d=e]:hover{x:f(1,2) g}", '@charset "utf-8";', "@x y{z}", "@x y;",
               'a{x:rgb(1,2,3) calc(1px + 2px) url(x) "s"}', "@page{@top-left{x:1}}", "@variables{a:1}", "a{x:var(a)}",
               "@media screen and (min-width:1px){a{}}", "a:not(.b)::after{content:attr(x)}", "@variables{a:1;a:2;b:3}",
               "a{x:1;x:2;X:3}", "@page{margin:0;margin:1px;@top-left{x:1;x:2}}", '@namespace p "u";@namespace p "v";',
               "@import 'x';@import 'x';", "p|a,*|b{x:-1.5em/2}",
               "color:red;x:1 !important", "margin:0 auto", "x:f(1,2)", "a{x:1/2}", "a{font:12px/1.5 a,b}",
               "a{x:U+20-7f}", "a{x:#fff}", "a{x:hsla(1,2%,3%,.5)}", "@media print{@page{margin:0}}", "<!--a{}-->"]
WEAVE_FILLERS = [" /*c*/ ", "/*c*/", " /**/ /**/ ", "/*c*/ ", " /*c*/", "\n/*c*/\n", " /*a*//*b*/ "]


ESC_DELIMS = ["|", ":", ".", "#", "(", "[", ",", "*", ")", "]", ">", "=", ";", "{", "}", "+", "~", "/", "!", "@", '"', "'",
              "%", " ", "\\", "$", "^", "&", "-", "<", "?", "\x7f", "\xe9"]
ESC_BASES = ["p|a{x:1}", "p|*{x:1}", "*|a{x:1}", "|a{x:1}", "[p|b=c]{x:1}", "a[b~=c]{x:1}", 'a[b|="c"]{x:1}', "a.b#c{x:1}",
             "a:hover::after{x:1}", "a:lang(en){x:1}", "a:nth-child(2n+1){x:1}", "a:not(p|b){x:1}", "a:not(p|*){x:1}",
             "a:not(.b){x:1}", "a:not([p|b]){x:1}", "a>b+c~d e{x:1}", "a,p|b{x:1}", "@media print{p|*.c>b{x:1}}",
             "@media screen and (min-width:1px){a{x:1}}", "@media not tv,only all{p|a{x:1}}",
             '@namespace p "u";p|a,p|*{x:1}', '@namespace p url(u);[p|b]{x:1}', "@import url(x) print,tv;",
             '@import "x" screen and (color);', "@page a:first{margin:0}", "@page{@top-left{x:1}}", "@font-face{src:url(x)}",
             "@variables{a:1}a{x:var(a)}", "@x y z{w}", "@x y;", "a{color:red;margin:0 auto !important}",
             "a{width:10px;x:1.5em/2 f(b,2cm) calc(1px + 2%)}", "a{x:rgb(1,2,3) #fff U+20-7f}", "a{font:12px/1.5 b,c}",
             "a{-moz-x:attr(y) counter(z)}", "color:red;x:1em !important", "x:f(a) b,c/d", "a{x:progid:DXImageTransform.Microsoft.y(z=1)}",
             "a{x:expression(b)}", '@charset "utf-8";a{}']


def ident_parts(text):
    """split a text into ('id', name) / ('', other) parts: the name part of every IDENT, FUNCTION, HASH, DIMENSION
    unit, at-keyword (also the known @media, @import ... keywords) of the implementation's own token stream"""
    import re as _re
    from css_parser.tokenize2 import Tokenizer
    out = []
    for t in Tokenizer().tokenize(text):
        typ, val = t[0], t[1]
        if typ == "IDENT":
            out.append(("id", val))
        elif typ == "FUNCTION" and len(val) > 1:
            out += [("id", val[:-1]), ("", "(")]
        elif typ == "HASH" and len(val) > 1:
            out += [("", "#"), ("id", val[1:])]
        elif typ == "DIMENSION":
            m = _re.match(r"^([+-]?[0-9]*\.?[0-9]+)(.+)$", val, _re.S)
            out += [("", m.group(1)), ("id", m.group(2))] if m else [("", val)]
        elif (typ == "ATKEYWORD" or typ.endswith("_SYM")) and val.startswith("@") and len(val.strip()) > 1 \
                and not val.endswith(" "):
            out += [("", "@"), ("id", val[1:])]
        else:
            out.append(("", val))
    return out


def codec_names():
    import encodings.aliases
    import pkgutil
    import encodings
    names = set(encodings.aliases.aliases.values()) | {m.name for m in pkgutil.iter_modules(encodings.__path__)}
    names -= {"aliases", "mbcs", "oem"}
    names |= {"css", "undefined", "idna", "punycode", "hex", "rot13", "base64", "zlib", "bz2", "quopri", "uu", "utf-8-sig",
              "unicode_escape", "raw_unicode_escape", "charmap", "bogus", "UTF-8", "Latin-1", "utf_16_le"}
    return sorted(names)


PUMPS = [
    ("comment-stars", lambda n: "/*" + "*" * n + " x"),
    ("comment-stars-closed", lambda n: "/*" + "*" * n + " x*/"),
    ("comment-slashes", lambda n: "/*" + "/*" * n),
    ("font-family-nonascii", lambda n: "a{font-family: " + "\xe9a" * (n // 2) + ', "x" !}'),
    ("font-family-nonascii2", lambda n: "a{font-family: " + "\xe9" * n + ", !}"),
    ("font-family-idents", lambda n: "a{font-family: " + "a " * n + "!}"),
    ("font-idents", lambda n: "a{font: " + "a " * n + "!}"),
    ("open-parens", lambda n: "(" * n),
    ("open-parens-decl", lambda n: "a{x:" + "(" * n + "}"),
    ("open-funcs", lambda n: "a{x:" + "f(" * n + "}"),
    ("calc-nest", lambda n: "a{x:calc" + "(" * n + "1" + ")" * n + "}"),
    ("backslashes", lambda n: "\\" * n),
    ("backslashes-decl", lambda n: "a{x:" + "\\" * n + "}"),
    ("open-braces", lambda n: "a{" * n),
    ("media-nest", lambda n: "@media screen{" * n),
    ("open-brackets", lambda n: "a" + "[" * n + "{}"),
    ("not-nest", lambda n: "a" + ":not(" * n + "{}"),
    ("quotes", lambda n: '"' * n),
    ("quote-escapes", lambda n: '"' + '\\"' * n),
    ("idents-dashes", lambda n: "-" * n + "a{}"),
    ("digits", lambda n: "a{width:" + "9" * n + "px}"),
    ("digits-hsl", lambda n: "a{color:hsl(0," + "9" * (n * 6) + "%,50%)}"),
    ("digits-rgb", lambda n: "a{color:rgb(" + "9" * (n * 6) + "%,0%,0%)}"),
    ("dots", lambda n: "a{width:" + "1." * n + "}"),
    ("digits-frac", lambda n: "a{width:" + "9" * (n * 8) + ".5px}"),
    ("digits-huge", lambda n: "a{width:" + "9" * (n * 80) + "}"),
    ("digits-hsl-all", lambda n: "a{color:hsl(" + "9" * (n * 5) + "," + "9" * (n * 5) + "%," + "9" * (n * 5) + "%)}"),
    ("url-spaces", lambda n: "a{x:url(" + " " * n + "x" + " " * n + "y)}"),
    ("url-escapes", lambda n: "a{x:url(" + "\\" * n),
    ("selector-combinators", lambda n: "a" + " > a" * n + "{}"),
    ("selector-list", lambda n: "a" + ",a" * n + "{}"),
    ("selector-pseudo", lambda n: "a" + ":b" * n + "{}"),
    ("at-keywords", lambda n: "@x " * n),
    ("at-in-name", lambda n: "a{" + "c@x " * n + ":red}"),
    ("important-bangs", lambda n: "a{x:1 " + "!" * n + "}"),
    ("semicolons", lambda n: "a{" + ";" * n + "}"),
    ("commas-value", lambda n: "a{font-family:" + "a," * n + "}"),
    ("margin-values", lambda n: "a{margin:" + "1px " * n + "}"),
    ("background-values", lambda n: "a{background:" + "url(x) " * n + "!}"),
    ("background-idents", lambda n: "a{background:" + "a " * n + "!}"),
    ("content-strings", lambda n: "a{content:" + '"s" ' * n + "!}"),
    ("border-values", lambda n: "a{border:" + "a " * n + "!}"),
    ("src-values", lambda n: "@font-face{src:" + "url(x) format(\"y\"), " * n + "!}"),
    ("unicode-range", lambda n: "a{x:U+" + "?" * n + "}"),
    ("cdo", lambda n: "<!--" * n),
    ("media-queries", lambda n: "@media " + "screen and (a:b), " * n + "x{}"),
    ("media-and", lambda n: "@media screen" + " and (a)" * n + "{}"),
    ("import-media", lambda n: "@import 'x' " + "a, " * n + ";"),
    ("namespace-junk", lambda n: "@namespace " + "a " * n + ";"),
    ("page-junk", lambda n: "@page " + ":a" * n + "{}"),
    ("hex-escapes", lambda n: "a{" + "\\41 " * n + ":b}"),
    ("newlines", lambda n: "\n" * n + "a{}"),
    ("newline-escapes", lambda n: '"' + "\\\n" * n + '"{}'),
    ("nonascii-ident", lambda n: "\xe9" * n + "{x:1}"),
    ("font-weight-junk", lambda n: "a{font-weight:" + "1" * n + "a}"),
    ("text-decoration", lambda n: "a{text-decoration:" + "underline " * n + "!}"),
    ("transition-like", lambda n: "a{voice-family:" + "\xe9a" * (n // 2) + ', "x" !}'),
    ("quotes-prop", lambda n: "a{quotes:" + '"a" ' * n + "!}"),
    ("cursor", lambda n: "a{cursor:" + "url(x)," * n + "!}"),
    ("counter", lambda n: "a{counter-increment:" + "a 1 " * n + "!}"),
    ("font-idents-nonascii", lambda n: "a{font: " + "\xe9a" * (n // 2) + " !}"),
    ("font-family-quoted", lambda n: "a{font-family: " + '"x" ' * n + "!}"),
    ("font-family-hyphen", lambda n: "a{font-family: " + "a-" * n + " !}"),
    ("font-family-escapes", lambda n: "a{font-family: " + "\\41 " * n + ", !}"),
]


def config_rot(i):
    v, c = SETTINGS[i % 4]
    return v, c


def build_cases(ctx, thorough):
    """-> list of (stream, case); case = [api, text, validate, parseComments, fetchkind]"""
    rng = ctx.rng
    cases = []

    def add(stream, text, full=False, fetch="none", apis=APIS):
        """full=True: all 8 api x settings combinations; else one rotating setting per api"""
        for api in apis:
            if full:
                for v, c in SETTINGS:
                    cases.append((stream, [api, text, v, c, fetch]))
            else:
                v, c = config_rot(len(cases))
                cases.append((stream, [api, text, v, c, fetch]))

    # 1. exhaustive small texts over a CSS-significant alphabet
    chars = CHARS if thorough else CHARS[:22]
    for n in range(0, 3):
        for tup in itertools.product(chars, repeat=n):
            add("exh-chars", "".join(tup), full=(n <= 1))
    core = CORE if thorough else CORE[:34]
    for n in (1, 2):
        for tup in itertools.product(LEX if n == 1 else core, repeat=n):
            add("exh-lex", "".join(tup), full=(n == 1))
    # every lexeme (pair in thorough) inside every statement context
    for cx in CONTEXTS:
        for a in LEX:
            add("ctx-lex", cx % a, full=False)
        pairs = itertools.product(core, repeat=2) if thorough else \
            [(rng.choice(core), rng.choice(core)) for _ in range(60)]
        for a, b in pairs:
            add("ctx-lex2", cx % (a + b))
    if thorough:
        for tup in itertools.product(core[:30], repeat=3):
            add("exh-lex3", "".join(tup), apis=[APIS[len(cases) % 2]])
    # 2. every prefix of generated well-formed sheets
    nsheets = 120 if thorough else 16
    sheets = [gen_sheet(rng) for _ in range(nsheets)]
    for sh in sheets:
        sh = sh[:400]
        add("sheet", sh, full=True)
        for k in range(len(sh)):
            add("prefix", sh[:k], apis=["S"])
        # declaration blocks: prefixes of the first block, through parseStyle
        if "{" in sh and "}" in sh:
            blk = sh[sh.index("{") + 1:sh.index("}")] if sh.index("{") < sh.index("}") else ""
            for k in range(len(blk)):
                add("prefix-style", blk[:k], apis=["Y"])
    # 3. token-level mutations
    nmut = 12000 if thorough else 1500
    toks = [lexemes(sh) for sh in sheets]
    for i in range(nmut):
        add("mutant", mutate(rng, rng.choice(toks))[:300], apis=[APIS[i % 2]] if i % 3 else APIS)
    # 4. random lexeme soup
    nsoup = 12000 if thorough else 1500
    for i in range(nsoup):
        k = rng.randint(1, 14)
        t = "".join(rng.choice(LEX) if rng.random() < 0.8 else rng.choice(CHARS) for _ in range(k))
        if rng.random() < 0.5:
            t = rng.choice(CONTEXTS) % t
        add("soup", t, apis=[APIS[i % 2]] if i % 3 else APIS)
    # 4b. comments and whitespace at EVERY token boundary (the last one before each terminator included):
    #     with parseComments=False the tokenizer drops the comment, so "S COMMENT S" reaches the parsers as
    #     adjacent S tokens -- in all four validate x parseComments settings
    bases = WEAVE_BASES + [sh[:160] for sh in sheets[: (40 if thorough else 6)]]
    for bi, base in enumerate(bases):
        style = not any(c in base for c in "{}@")
        apis = ["Y"] if style else ["S"]
        lx = lexemes(base)
        for filler in WEAVE_FILLERS:
            # at all boundaries at once
            add("weave-all", filler.join(lx) + filler, full=True, apis=apis)
            if bi >= len(WEAVE_BASES) and filler not in WEAVE_FILLERS[:3]:
                continue
            for k in range(len(lx) + 1):
                add("weave", "".join(lx[:k]) + filler + "".join(lx[k:]), full=True, apis=apis)
        # every prefix cut right after a woven " /*c*/ " (end of text inside / after the filler)
        for k in range(1, len(lx) + 1):
            add("weave-cut", "".join(lx[:k]) + " /*c*/ ", full=True, apis=apis)
            add("weave-cut", "".join(lx[:k]) + " /*c", full=True, apis=apis)
    # 4d. escaped delimiter characters inside identifiers, at every identifier position of the canonical
    #     statements (namespace prefix, type, class, id, attribute name/value, pseudo name, property name, value
    #     identifier, unit, function name, at-keyword, media type/feature, page pseudo ...), all four settings
    delims = ESC_DELIMS if thorough else ESC_DELIMS[:14]
    for base in ESC_BASES:
        style = not any(c in base for c in "{}@")
        apis = ["Y"] if style else ["S"]
        parts = ident_parts(base)
        idx = [i for i, (kind, _) in enumerate(parts) if kind == "id"]
        for d in delims:
            forms = ["\\" + d, "\\%x " % ord(d)] + (["\\%06x" % ord(d)] if thorough else [])
            for esc in forms:
                for i in idx:
                    name = parts[i][1]
                    variants = [name[:1] + esc + name[1:]]
                    if thorough or d in "|:.#(":
                        variants += [name + esc, esc + name]
                    for v in variants:
                        add("esc-ident", "".join(v if j == i else t for j, (_, t) in enumerate(parts)), full=True, apis=apis)
                add("esc-ident-all", "".join((t[:1] + esc + t[1:]) if k == "id" else t for k, t in parts), full=True, apis=apis)
    # 4c. every codec name the interpreter knows as a sheet encoding (parse, then cssText must encode)
    for enc in codec_names():
        add("charset", '@charset "%s";a{x:"\xe9..b\u20ac"}' % enc, apis=["S"])
    # 5. @import with every fetcher behaviour
    imports = ["@import 'x.css';", "@import url(y.css) screen;a{}", '@charset "utf-8";@import "z";@import "z";',
               "@import 'x' \"n\";@media print{@import 'q';}", "@import url();", "@import '';@import 'x", "@import x;",
               "@import '//[';", "@import 'x' print, tv;b{}", "a{}@import 'late';"]
    for fk in FETCH_KINDS:
        for t in imports:
            add("import", t, full=thorough, fetch=fk, apis=["S"])
        for i in range(60 if thorough else 8):
            add("import-mut", mutate(rng, lexemes(rng.choice(imports) + rng.choice(sheets)[:80])), fetch=fk, apis=["S"])
    # 6. byte input (decoding errors are allowed)
    btexts = [b"", b"a{}", b"\xff", b"\xef\xbb\xbfa{}", b'@charset "ascii";\xe9', b'@charset "bogus";a{}',
              b"\xff\xfea\x00", b"\xfe\xff\x00a", b'@charset "utf-16";a{}', b"a{x:\xc3}", b'@charset "',
              b"\x00\x00\xfe\xff", b"@charset", b'@charset "latin-1";a{x:"\xe9"}', b"\xef\xbb\xbf@charset \"utf-8\";",
              b"@\x00c\x00", b"\x00@\x00c"]
    for i in range(200 if thorough else 40):
        btexts.append(bytes(rng.choice([rng.randrange(256), ord(rng.choice('@charset "utf-8";a{}')), 0xff, 0xfe, 0])
                            for _ in range(rng.randint(1, 24))))
    for b in btexts:
        add("bytes", {"b": b.hex()}, full=False)
    return cases


def pump_cases(thorough):
    ns = [8, 16, 32, 64] + ([128, 256] if thorough else [])
    out = []
    for name, f in PUMPS:
        for n in ns:
            for api in APIS:
                text = f(n)
                if api == "Y":
                    # declaration-block variant: strip the 'a{' ... '}' wrapper when there is one
                    if text.startswith("a{") and text.endswith("}"):
                        text = text[2:-1]
                    else:
                        continue
                out.append((name, n, [api, text, 1, 1, "none"]))
    return out


# ------------------------------------------------------------------------------------------------ judging
def family(res):
    """violation description; the part before ' :: ' is what known-finding signatures speak about"""
    if res["s"] == "exc":
        return "parse raised %s at %s (%s)" % (res["e"], res["site"], res["phase"])
    if res["s"] == "timeout":
        return "CPU budget exceeded in %s (%s)" % (res["site"], res["phase"])
    if res["s"] == "killed":
        return "worker killed: %s" % res["site"]
    return None


def case_sig(case):
    t = case[1]
    return json.dumps({"api": case[0], "text": t if isinstance(t, dict) else cps(t)[:4000], "validate": case[2],
                       "comments": case[3], "fetch": case[4]}, sort_keys=True)


def witness_of(case, res):
    t = case[1]
    return {"api": case[0], "text": t if isinstance(t, dict) else None, "text_cps": None if isinstance(t, dict) else cps(t),
            "text_repr": None if isinstance(t, dict) else ascii(t)[:300], "validate": case[2], "comments": case[3],
            "fetch": case[4], "observed": {k: res.get(k) for k in ("s", "e", "site", "msg", "phase", "cpu")}}


def case_of_witness(w):
    if w.get("text") is not None and isinstance(w["text"], dict):
        text = w["text"]
    elif w.get("pump"):
        name, n = w["pump"]
        text = dict((p[0], p[1]) for p in PUMPS)[name](n)
        if w["api"] == "Y" and text.startswith("a{") and text.endswith("}"):
            text = text[2:-1]
    else:
        text = "".join(chr(int(x)) for x in w["text_cps"].split())
    return [w["api"], text, w["validate"], w["comments"], w.get("fetch", "none")]


def shrink_case(case, fam, budget=2.0):
    """greedy char deletion keeping the same failure family (exceptions only, in-process with alarm)"""
    if isinstance(case[1], dict):
        return case
    def fails(t):
        c = [case[0], "".join(t), case[2], case[3], case[4]]
        try:
            r = run_case(c, budget)
        except BudgetExceeded:
            return False
        return family(r) == fam
    t = shrink_seq(list(case[1]), fails, max_rounds=40)
    return [case[0], "".join(t), case[2], case[3], case[4]]


# ------------------------------------------------------------------------------------------------ known-family pumps
PUMPS += [
    # term count of one value (space / comma / slash separated), statements per block, blocks per sheet
    ("value-terms-space", lambda n: "a{b:" + "x " * (n * 16) + "}"),
    ("value-terms-comma", lambda n: "a{b:" + "x," * (n * 16) + "x}"),
    ("value-terms-slash", lambda n: "a{b:" + "1/" * (n * 16) + "1}"),
    ("value-terms-mixed", lambda n: "a{transition:" + "x 1s ease, " * (n * 8) + "y}"),
    ("value-strings", lambda n: "a{content:" + '"s" ' * (n * 16) + "}"),
    ("value-urls", lambda n: "a{background:" + "url(x)," * (n * 16) + "url(y)}"),
    ("value-functions", lambda n: "a{b:" + "f(1) " * (n * 16) + "}"),
    ("declarations", lambda n: "a{" + "b:c;" * (n * 8) + "}"),
    ("rules", lambda n: "a{b:c}" * (n * 4)),
    ("variables-decls", lambda n: "@variables{" + "/*c*/a:1;" * n + "}"),
    ("media-queries-many", lambda n: "@media " + "a," * (n * 8) + "b{}"),
    ("selector-compound", lambda n: "a" + ".b" * (n * 8) + "{}"),
    # upper-case / mixed-case hex escapes (the escape macro excludes a-f only)
    ("url-upper-hex-escapes", lambda n: "a{b:url(" + "\\AB" * n + '"x'),
    ("string-upper-hex-escapes", lambda n: '"' + "\\AB" * n),
    ("ident-upper-hex-escapes", lambda n: "\\AB" * n + "{}"),
    ("string-hex-escapes-blank", lambda n: '"' + "\\11 " * n),
    # nesting of unknown rules / blocks
    ("nested-unknown-rules", lambda n: "@x {" * n + "}" * n),
    ("nested-unknown-open", lambda n: "@x {" * n),
    ("nested-unknown-brackets", lambda n: "@x " + "[" * n + "]" * n + ";"),
    ("nested-unknown-parens", lambda n: "@x " + "(" * n + ")" * n + ";"),
    ("nested-media-closed", lambda n: "@media a{" * n + "}" * n),
    ("nested-blocks-in-decl", lambda n: "a{b:" + "{" * n + "}" * n + "}"),
    ("nested-unknown-in-decl", lambda n: "a{" + "@x {" * n + "}" * n + "}"),
    ("string-hex-escapes", lambda n: '"' + "\\11" * n),
    ("url-hex-escapes", lambda n: "a{x:url(" + "\\11" * n),
    ("voice-family-idents", lambda n: "a{voice-family:" + "ab" * n + ', "x" !}'),
    ("background-zeros", lambda n: "a{background:" + "0 " * n + ', "x" !}'),
    ("list-style-inherit", lambda n: "a{list-style:" + "inherit " * n + ', "x" !}'),
]

PROP_UNITS = ["a ", "a,", "\xe9a", "1 ", "1px ", '"s" ', "a-", "url(x) ", "#fff ", "a/", "1%,", "a a,", "1 a ", "- ",
              "a, ", "\\41 ", "1,", "a b ", "0 ", "f(a) ", "1.5 ", "A", "-1", "1.", "a1", "1px/", ".1", "00", "x-", "_",
              "inherit ", "1em ", "auto ", "none ", "0 0 ", "left ", "red "]
PROP_SUFFIX = [" !", ', "x" !']


def prop_pump_cases(rng, thorough):
    """invalid values made of n repetitions of a unit, for every property the validator knows"""
    import css_parser
    names = sorted(set(css_parser.profile.knownNames))
    out = []
    n = 24
    for p in names:
        for u in PROP_UNITS:
            for sfx in PROP_SUFFIX:
                out.append(("prop:%s" % p, n, ["Y", "%s: %s%s" % (p, u * n, sfx), 1, 1, "none"]))
    if not thorough:
        out = rng.sample(out, 900)
    return out


# ------------------------------------------------------------------------------------------------ function-level correspondence
CS_TOKENS = [("CHARSET_SYM", "@charset "), ("STRING", '"utf-8"'), ("STRING", '""'), ("STRING", "'x\\''"), ("CHAR", ";"),
             ("S", " "), ("EOF", ""), ("IDENT", "a"), ("CHAR", "{"), ("URI", "url(x)")]
STR_ALPHA = ['"', "'", "\\", "a", " ", "\n"]


def _quiet():
    import logging
    import css_parser
    css_parser.log.setLevel(logging.FATAL)
    css_parser.log.raiseExceptions = False


def impl_strval(v):
    _quiet()
    from css_parser.util import Base
    try:
        return ["OK", Base()._stringtokenvalue(("STRING", v, 1, 1))]
    except IndexError:
        return ["RAISE", "IndexError"]
    except Exception as e:  # noqa
        return ["RAISE", type(e).__name__]


def impl_charset(tokens):
    _quiet()
    import css_parser
    from css_parser.css import CSSCharsetRule

    class Rec(CSSCharsetRule):
        rec = None

        def _setE(self, v):
            self.__dict__["rec"] = v
        encoding = property(lambda self: None, _setE)
    r = Rec()
    try:
        r._setCssText([(t, v, 1, 1) for t, v in tokens])
        got = r.__dict__.get("rec")
        return ["1", got] if got is not None else ["0", None]
    except Exception as e:  # noqa
        return ["RAISE", type(e).__name__]
    finally:
        css_parser.log.raiseExceptions = True


def impl_color(text):
    """-> [delivered component count or None when the productions rejected, outcome]"""
    _quiet()
    import css_parser
    import css_parser.css.value as V
    seen = []
    orig = V.ProdParser.parse

    def parse(self, text_, name, productions, *a, **kw):
        res = orig(self, text_, name, productions, *a, **kw)
        seen.append((name, res[0], res[1]))
        return res
    V.ProdParser.parse = parse
    try:
        try:
            c = V.ColorValue(text)
            out = "OK" if c.wellformed else "NONE"
        except Exception as e:  # noqa
            out = "RAISE " + type(e).__name__
    finally:
        V.ProdParser.parse = orig
        css_parser.log.raiseExceptions = True
    n = None
    for name, ok, seq in seen:
        if name == V.Value.COLOR_VALUE:
            if ok and seq and seq[0].type == "FUNCTION":
                n = sum(1 for it in seq if getattr(it.value, "type", None) in (V.Value.NUMBER, V.Value.PERCENTAGE))
            elif ok:
                n = -1     # hash / named colour: not the modelled branch
    return [n, out]


def impl_defaults(case):
    cls, new_given, expected, ttype = case
    _quiet()
    import css_parser
    from css_parser import util
    obj = (util.Base2 if cls == "Base2" else util.Base)()
    tok = {"ATKEYWORD": ("ATKEYWORD", "@x", 1, 1), "COMMENT": ("COMMENT", "/*c*/", 1, 1), "S": ("S", " ", 1, 1),
           "EOF": ("EOF", "", 1, 1), "IDENT": ("IDENT", "a", 1, 1)}[ttype]
    seq = util.Seq(readonly=False) if cls == "Base2" else []
    try:
        obj._parse(expected=expected, seq=seq, tokenizer=iter([tok, ("CHAR", ";", 1, 2)]), productions={},
                   new=({"wellformed": True} if new_given else None))
        return "Returned"
    except Exception as e:  # noqa
        return "Raised " + type(e).__name__
    finally:
        css_parser.log.raiseExceptions = True


def impl_string_tokens(text):
    """the statement of string_tokens_quoted / stringtokenvalue_total on the implementation's tokens"""
    _quiet()
    from css_parser.tokenize2 import Tokenizer
    from css_parser.util import Base
    bad = []
    for fs in (False, True):
        try:
            for t in Tokenizer().tokenize(text, fullsheet=fs):
                if t[0] == "STRING":
                    v = t[1]
                    if not (len(v) >= 2 and v[0] in "\"'" and v[-1] == v[0]):
                        bad.append("STRING token value %r is not quoted" % (v,))
                    Base()._stringtokenvalue(t)
        except Exception as e:  # noqa
            bad.append("%s on tokens of the text" % type(e).__name__)
    return bad


def tok_wire(tokens):
    f = lambda x: ",".join(str(ord(c)) for c in x) or "-"  # noqa
    return ";".join("%s|%s" % (f(t), f(v)) for t, v in tokens)


def correspondence(ctx, binary, thorough, texts):
    """model (extracted) vs implementation, function level; returns (evaluations, mismatches)"""
    mism = []
    n = 0
    # a) _stringtokenvalue
    vals = ["".join(t) for k in range(0, 5 if thorough else 4) for t in itertools.product(STR_ALPHA, repeat=k)]
    vals += ['"a\\"b"', "'\\''", '"\\\\"', '"' + "\\" * 3 + '"', "\xe9", '"\U0001F600"']
    impl = ctx.pool_map(impl_strval, vals, procs=PROCS, chunksize=256)
    out = ctx.run_binary(binary, ["S " + (",".join(str(ord(c)) for c in v) or "-") for v in vals])
    for v, i, o in zip(vals, impl, out):
        n += 1
        m = ["RAISE", o.split()[1]] if o.startswith("RAISE") else \
            ["OK", "".join(chr(int(x)) for x in o[3:].split(",") if x and x != "-")]
        if i != m:
            mism.append(("strval", v, i, m))
    # b) CSSCharsetRule._setCssText on token runs
    runs = [list(t) for k in range(0, 5 if thorough else 4) for t in itertools.product(CS_TOKENS, repeat=k)]
    impl = ctx.pool_map(impl_charset, runs, procs=PROCS, chunksize=256)
    out = ctx.run_binary(binary, [("C " + tok_wire(r)).rstrip() for r in runs], shards=PROCS)
    for r, i, o in zip(runs, impl, out):
        n += 1
        if o.startswith("RAISE"):
            m = ["RAISE", o.split()[1]]
        else:
            wf, enc = o.split(" ", 1)
            m = [wf, None if enc == "NONE" else "".join(chr(int(x)) for x in enc.split(",") if x != "-")]
            if m[0] == "1" and m[1] is None:
                m = ["0", None]
        if i != m:
            mism.append(("charset_rule", r, i, m))
    # c) ColorValue: the modelled segment after the productions accepted
    texts_c = []
    comps = ["1", "50%", "+2", "-3%", "0.5"]
    for fn in ("rgb(", "rgba(", "hsl(", "hsla(", "RGB(", "HSL("):
        for k in range(0, 6):
            for tup in (itertools.product(comps[:2], repeat=k) if k <= 3 else [tuple(ctx.rng.choice(comps) for _ in range(k))
                                                                               for _ in range(6)]):
                for sep in (",", ", ", " "):
                    texts_c.append(fn + sep.join(tup) + ")")
                texts_c.append(fn + ",".join(tup))
                texts_c.append(fn + ",".join(tup) + ",)")
    texts_c = sorted(set(texts_c))
    impl = ctx.pool_map(impl_color, texts_c, procs=PROCS, chunksize=64)
    fnidx = {"rgb(": 0, "rgba(": 1, "hsl(": 2, "hsla(": 3}
    lines, keep = [], []
    maxn = 0
    for t, (cnt, o) in zip(texts_c, impl):
        n += 1
        if cnt is None:
            if o != "NONE":
                mism.append(("color_fn", t, o, "productions rejected: expected not wellformed, no exception"))
            continue
        if cnt < 0:
            continue
        maxn = max(maxn, cnt)
        lines.append("K %d %d" % (fnidx[t[:t.index("(") + 1].lower()], cnt))
        keep.append((t, cnt, o))
    out = ctx.run_binary(binary, lines) if lines else []
    for (t, cnt, o), mo in zip(keep, out):
        if o.split()[0] != mo.split()[0]:
            mism.append(("color_fn", t, o, mo))
    if maxn > 4:
        mism.append(("color_fn", "arity hypothesis", "productions delivered %d components" % maxn, "<= 4"))
    # d) default callbacks of _parse
    dcases = [(c, g, e, t) for c in ("Base", "Base2") for g in (0, 1) for e in ("EOF", None, "x")
              for t in ("ATKEYWORD", "COMMENT", "S", "EOF", "IDENT")]
    impl = ctx.pool_map(impl_defaults, dcases, procs=2, chunksize=8)
    for c, i in zip(dcases, impl):
        n += 1
        if i != "Returned":          # the model: parse_loop_total -- Returned for every state and token
            mism.append(("default handlers", c, i, "Returned"))
    # e) string_tokens_quoted / stringtokenvalue_total evaluated on the implementation's tokens
    sample = [t for t in texts if isinstance(t, str)][:: max(1, len(texts) // (20000 if thorough else 4000))]
    impl = ctx.pool_map(impl_string_tokens, sample, procs=PROCS, chunksize=128)
    for t, bad in zip(sample, impl):
        n += 1
        if bad:
            mism.append(("string_tokens_quoted", t, bad[0], "quoted"))
    # the model's tokenizer agrees with the implementation (C08's tie) -- here: the model's own STRING tokens
    qs = [t for t in sample if ('"' in t or "'" in t) and len(t) <= 120 and not any(0xd800 <= ord(c) < 0xe000 for c in t)]
    qs = qs[:3000 if thorough else 600]
    out = ctx.run_binary(binary, ["Q 1 %d %s" % (i % 2, cps(t)) for i, t in enumerate(qs)], shards=PROCS)
    for t, o in zip(qs, out):
        n += 1
        if o == "NONE" or "0" in o:
            mism.append(("model strval on model tokens", t, o, "all 1"))
    return n, mism


# ------------------------------------------------------------------------------------------------ the check
def judge_pumps(pc, res, budget, pool=None):
    """-> list of (what, witness, sig_text); timeouts and super-polynomial growth of a family.
    A suspected growth is re-measured (both sizes three more times, minimum taken): the first case a worker runs
    pays for imports and lazily compiled validation regexes, and the machine is shared."""
    out = []
    fam = {}
    for (name, n, case), r in zip(pc, res):
        fam.setdefault((name, case[0]), []).append((n, case, r))
    for (name, api), rows in fam.items():
        rows.sort(key=lambda x: x[0])
        bad = [x for x in rows if x[2]["s"] != "ok"]
        if bad:
            n, case, r = bad[0]
            w = witness_of(case, r)
            w["pump"] = [name, n]
            out.append((family(r), w, sig_of(case)))
            continue
        if len(rows) >= 2:
            (n1, _, r1), (n2, c2, r2) = rows[-2], rows[-1]
            if r2["cpu"] > 0.25 and r1["cpu"] > 0 and n2 == 2 * n1 and r2["cpu"] / r1["cpu"] > 16:
                if pool is not None:
                    c1 = rows[-2][1]
                    again = pool.map([c1, c2] * 3)
                    if all(x["s"] == "ok" for x in again):
                        m1 = min([r1["cpu"]] + [x["cpu"] for x in again[0::2]])
                        m2 = min([r2["cpu"]] + [x["cpu"] for x in again[1::2]])
                        if not (m2 > 0.25 and m1 > 0 and m2 / m1 > 16):
                            continue
                        r1, r2 = dict(r1, cpu=m1), dict(r2, cpu=m2)
                w = witness_of(c2, r2)
                w["pump"] = [name, n2]
                w["growth"] = {"n": [n1, n2], "cpu": [r1["cpu"], r2["cpu"]]}
                out.append(("super-polynomial growth of CPU time in pumped family %s" % name, w, sig_of(c2)))
    return out


def sig_of(case):
    t = case[1]
    return json.dumps({"api": case[0], "repr": t if isinstance(t, dict) else ascii(t)[:240], "validate": case[2],
                       "comments": case[3], "fetch": case[4]}, sort_keys=True)


def allowed(case, res):
    """decoding errors for byte input are allowed by the statement (incl. an unknown declared encoding)"""
    if res["s"] == "decode":
        return True
    if res["s"] == "exc" and isinstance(case[1], dict) and res["e"] == "LookupError" and "_codec3.py:decode" in res["site"]:
        return True
    return False


def run(ctx):
    thorough = ctx.tier == "thorough"
    budget = 5.0 if thorough else 2.5
    ctx.regen("tokenizer", "parsetotal")
    ctx.coq_build("props/C01.v")
    binary = ctx.ocaml_build("parsetotal")

    corpus_p = VERIF / "corpus" / "C01.json"
    corpus = json.loads(corpus_p.read_text()) if corpus_p.exists() else []
    cases = [("corpus", c) for c in corpus] + build_cases(ctx, thorough)
    pool = TimedPool(budget)
    res = pool.map([c for _, c in cases])

    # ---- function-level correspondence of the crash-site models
    n_corr, mism = (0, [])
    if binary:
        n_corr, mism = correspondence(ctx, binary, thorough, [c[1] for _, c in cases])
        if mism:
            ctx.broken("correspondence", "ParseTotal models vs implementation",
                       "%d differ; first: %s" % (len(mism), json.dumps(mism[:3], default=str)[:1500]))

    # ---- property-level oracle
    fams = {}
    nontrivial = set()
    allowed_n = 0
    slow = []
    for (stream, case), r in zip(cases, res):
        if r["s"] == "ok":
            if not isinstance(case[1], dict) and len(case[1]) >= 3:
                nontrivial.add((case[0], case[1]))
            if r["cpu"] > 0.5:
                slow.append((r["cpu"], case))
            continue
        if allowed(case, r):
            allowed_n += 1
            continue
        fams.setdefault(family(r), []).append((case, r))
    for fam, lst in sorted(fams.items()):
        lst.sort(key=lambda x: len(x[0][1]) if isinstance(x[0][1], str) else 10 ** 6)
        case, r = lst[0]
        if r["s"] == "exc":
            case = shrink_case(case, fam)
            r = run_case(case, budget)
        w = witness_of(case, r)
        w["cases_in_family"] = len(lst)
        ctx.violation(fam, w, sig_text=sig_of(case))

    # ---- time: pumped families in isolated workers
    pc = pump_cases(thorough) + prop_pump_cases(ctx.rng, thorough)
    pres = pool.map([c for _, _, c in pc])
    for what, w, sig in judge_pumps(pc, pres, budget, pool):
        ctx.violation(what, w, sig_text=sig)
    worst = sorted(((r["cpu"], name, n) for (name, n, _), r in zip(pc, pres) if r["s"] == "ok"), reverse=True)[:5]

    # ---- stored witnesses of open findings are re-run (KNOWN-FINDING only while they reproduce)
    for f in ctx.findings:
        if f.get("status") == "open":
            case = case_of_witness(f["witness"])
            r = pool.map([case])[0]
            if r["s"] != "ok" and not allowed(case, r):
                ctx.violation(family(r), witness_of(case, r), sig_text=sig_of(case))

    def search():
        t0 = time.time()
        rng = ctx.rng
        lim = 300 if thorough else 60
        sheets = [gen_sheet(rng) for _ in range(20)]
        toks = [lexemes(sh) for sh in sheets]
        while time.time() - t0 < lim:
            batch = []
            for i in range(3000):
                if i % 2:
                    t = mutate(rng, rng.choice(toks))[:300]
                else:
                    t = "".join(rng.choice(LEX) if rng.random() < 0.8 else rng.choice(CHARS)
                                for _ in range(rng.randint(1, 14)))
                    if rng.random() < 0.5:
                        t = rng.choice(CONTEXTS) % t
                v, c = SETTINGS[i % 4]
                batch.append([APIS[(i // 4) % 2], t, v, c, rng.choice(FETCH_KINDS) if "@import" in t else "none"])
            for case, r in zip(batch, pool.map(batch)):
                if r["s"] != "ok" and not allowed(case, r):
                    fam = family(r)
                    if not ctx.match_known(fam + " :: " + sig_of(case)):
                        if r["s"] == "exc":
                            case = shrink_case(case, fam)
                            r = run_case(case, budget)
                        w = witness_of(case, r)
                        w["fails"] = fam
                        return w
        return None

    streams = {}
    for st, _ in cases:
        streams[st] = streams.get(st, 0) + 1
    ctx.finish({
        "evaluations": len(cases) + len(pc),
        "distinct_nontrivial": len(nontrivial),
        "rule": "end-to-end oracle cases (api x text x validate x parseComments x fetcher) by stream: %s; "
                "pumped families %d cases (n = 8..64, thorough ..256; every known property x %d units at n = 24); "
                "non-trivial = distinct (api, text) with len(text) >= 3 that returned; per-case CPU budget %.1f s "
                "(SIGALRM inside the worker, hard kill at 2*budget+2 s), %d worker processes"
                % (json.dumps(streams, sort_keys=True), len(pc), len(PROP_UNITS), budget, PROCS),
        "samples": [c for _, c in cases[len(corpus) + 2000:len(corpus) + 2004]] + [cases[-1][1]],
        "disagreements_checked": n_corr,
        "correspondence": "function level: _stringtokenvalue, CSSCharsetRule._setCssText on token runs, ColorValue "
                          "argument segment (with the component count the productions delivered), default callbacks "
                          "of Base/Base2._parse, string_tokens_quoted on the implementation's tokens; %d evaluations, "
                          "%d mismatches" % (n_corr, len(mism)),
        "allowed_decoding_errors": allowed_n,
        "slowest_ok_cases": [[c, ascii(x[1])[:120]] for c, x in sorted(slow, key=lambda y: -y[0])[:5]],
        "slowest_ok_pumps": worst,
        "time_clause": "NOT a theorem: measured only (see rule); label partial",
        "trusted_base": TRUSTED,
    }, assumptions=ASSUME, search=search)


def replay(ctx, path):
    rep = json.loads(open(path).read())
    pool = TimedPool(5.0, procs=2)
    bad = 0
    for v in rep.get("violations", []):
        w = v["witness"]
        case = case_of_witness(w)
        r = pool.map([case])[0]
        fails = r["s"] != "ok" and not allowed(case, r)
        print("replay %s %s validate=%s comments=%s fetch=%s -> %s" % (
            case[0], ascii(case[1])[:200], case[2], case[3], case[4], family(r) if fails else "holds (%.3fs)" % r["cpu"]))
        bad += bool(fails)
    for b in rep.get("broken", []):
        print("broken %s: %s" % (b["stage"], b["name"]))
    return 1 if bad else 0


TRUSTED = [
    "Coq 8.16.1 kernel and VM (vm_compute for the finite checks on the generated tables); no native_compute",
    "translate/tokenizer.py, regexlib.py, translate/parsetotal.py (Base._stringtokenvalue -> Gen/StrTokenValue.v, reusing C03's translator class translate.quote.Fn and its Gallina library Quote.v)",
    "extraction (ExtrOcamlBasic) + ocamlfind ocamlopt, ocaml/parsetotal_driver.ml",
    "this harness: generators, the isolated timed worker pool, canonicalisation (exception class + innermost "
    "css_parser frames), the recording fetcher stub",
    "modelled by hand, corresponded at function level: CSSCharsetRule._setCssText, the argument segment of "
    "ColorValue._setCssText, the default callbacks and the dispatch loop of Base._parse; _tokensupto2 = C04's Upto.v",
    "C04's Upto.v / UptoFacts.v / Skeleton.v / SkeletonFacts.v (models of _tokensupto2 and of the statement skeleton; their "
    "correspondence with the code is C04's check)",
    "PP's ProdParser*.v / ProdParserBridge.media_leaf (engine model of MediaList on the head of an @media rule; its "
    "correspondence is PP's check): with it parse_never_raises_skeleton_pp assumes only other_leaves_total (seven leaves)",
    "Section hypothesis leaves_total (parse_never_raises_skeleton): the eight leaf parsers -- selector list, Property "
    "(name, ProdParser value grammars, priority, profiles validation), media query list, @import, @namespace, @page, "
    "@font-face, @variables bodies -- return on every finite token run; validated only end to end by the oracle streams",
    "Section hypothesis handlers_total (parse_never_raises_partial, the generic statement about Base._parse): every unmodelled rule / declaration callback (import, namespace, font-face, "
    "media, page, variables, unknown rule, rule set; ident, char, unexpected; with everything below them: selectors, "
    "ProdParser value/media grammars, profiles validation, serializer) returns and leaves a suffix of the token "
    "generator -- validated only end to end by the oracle streams",
    "hypothesis of color_fn_total: the colour productions deliver at most four components (checked on every "
    "correspondence case) and the float arithmetic (colorsys, round, int) is total -- out-of-range components "
    "are rejected by the repaired code (OverflowError/ValueError caught)",
    "CPython 3.12 re/str semantics as the thing being modelled",
]
ASSUME = [
    "Print Assumptions for every theorem of props/C01.v: see coverage.print_assumptions",
    "PARTIAL: the polynomial-time clause is not a theorem; it is monitored by per-case CPU measurement in isolated "
    "workers with a hard timeout and by pumped families (n doubling) -- a budget overrun or growth above n^4 between "
    "the two largest sizes is reported as a violation",
    "PARTIAL: parse_never_raises is proved for the tokenizer, _tokensupto2, the statement skeleton (top level, rule set, "
    "declaration loop, @media incl. nesting, @charset, unknown rule) under leaves_total; proved about the time clause on the "
    "model: tokenize_token_count, skeleton_statement_count (linear iteration counts) -- nothing about the regex engine",
    "for byte input UnicodeDecodeError and the codec's LookupError for an unknown declared encoding count as decoding "
    "errors (allowed by the statement)",
    "a fetcher that feeds an unbounded @import chain (a sheet importing itself) is C20's subject; the stub stops "
    "answering after 50 fetches",
]
